"""C05 continued: name rules (R5), aggregation (R6), union arity / extent (R7), directives (R8), exception classes (R9)."""
from __future__ import annotations

import ast
import string
from typing import Any, Dict, List, Optional, Sequence, Set, Tuple

from .. import rx
from .. import spec_tables as spec
from ..core import AnalysisError, ClassInfo, Ctx, External, FuncInfo, calls_in, dotted, norm, unparse, walk_no_nested
from ..decide import A, Path, PathEnumerator, f_and, f_eval, f_not, f_or, f_str, path_formula, paths_of, to_formula, valuations
from ..fold import Folder, Sym, Unfoldable
from ..regions import evaluate_region, exc_class_of, flatten_init, mentions

SER = "_serializable."
IDE = "_error.InvalidDefinitionError"
ALPHA = list(string.ascii_lowercase + string.digits + "_")


def _raises_ide(ctx: Ctx, fn: FuncInfo, exc: Optional[ast.AST]) -> bool:
    k = exc_class_of(ctx.repo, fn.module, fn.cls, exc)
    return isinstance(k, ClassInfo) and ctx.repo.is_subclass(k, IDE)


# ---------------------------------------------------------------------------------------------------- R5 names
def rule_r5_names(ctx: Ctx) -> None:
    repo = ctx.repo
    ctx.rule("C05.R5", "check_name: first/continuation alphabets, lower-casing before matching, reserved words and patterns (DFA language equivalence with the Specification), and the must-call sites (name components, attributes; void fields unnamed)", min_instances=6)
    mod = repo.module("_serializable._name")
    fn = mod.functions.get("check_name")
    if fn is None:
        raise AnalysisError("anchor check_name missing")
    pname = fn.params[0]
    paths = paths_of(fn.node)

    def assigned(name: str) -> Any:
        """the expression a module-level name of _name is bound to, wherever it is written (a table that moved to another
        module and is imported back is the same table)"""
        r = repo.module_member(mod.name, name)
        return r if isinstance(r, ast.expr) else None

    def fold_const(name: str) -> Any:
        e = assigned(name)
        if e is None:
            raise AnalysisError("_name.%s missing" % name)
        try:
            return Folder({}, repo, mod).fold(ast.Name(id=name, ctx=ast.Load()))
        except Unfoldable as ex:
            raise AnalysisError("cannot fold _name.%s: %s" % (name, ex))

    # which module constants guard the first char / every char
    first_set: Optional[str] = None
    rest_set: Optional[str] = None
    empty_guard = False
    lowered_everywhere = True
    pattern_sources: Set[str] = set()
    string_cmp_ok = False
    regex_method: Optional[str] = None
    raise_classes_ok = True
    lowered = "%s.lower()" % pname
    for p in paths:
        if p.kind != "raise":
            continue
        if not _raises_ide(ctx, fn, p.value):
            raise_classes_ok = False
        real = [(c, pol) for c, pol in p.conds if not isinstance(c, tuple)]
        loops = [c for c, pol in p.conds if isinstance(c, tuple) and c[0] == "for" and pol]
        if not real:
            continue
        last, pol = real[-1]
        s = norm(last)
        if not loops:
            if pol and s == "not %s" % pname:
                empty_guard = True
            elif pol and isinstance(last, ast.Compare) and isinstance(last.ops[0], ast.NotIn):
                subj = norm(last.left)
                if subj in ("%s[0]" % lowered, "%s[0]" % pname):
                    first_set = norm(last.comparators[0])
        else:
            loop = loops[-1]
            it = norm(loop[2])
            if pol and isinstance(last, ast.Compare) and isinstance(last.ops[0], ast.NotIn) and norm(last.left) == loop[1] and it in (lowered, pname):
                rest_set = norm(last.comparators[0])
            elif isinstance(last, ast.Compare) and isinstance(last.ops[0], ast.Eq) and pol:
                sides = {norm(last.left), norm(last.comparators[0])}
                if loop[1] in sides:
                    pattern_sources.add(it)
                    other = (sides - {loop[1]}).pop()
                    string_cmp_ok = True
                    if other != lowered:
                        lowered_everywhere = False
            elif isinstance(last, ast.Call) and isinstance(last.func, ast.Attribute) and norm(last.func.value) == loop[1] and pol:
                pattern_sources.add(it)
                regex_method = last.func.attr
                if [norm(a) for a in last.args] != [lowered]:
                    lowered_everywhere = False
    need_msg = {"empty guard": empty_guard, "first-char set": first_set, "continuation set": rest_set, "string compare": string_cmp_ok, "regex compare": regex_method, "pattern list": sorted(pattern_sources)}
    if not (empty_guard and first_set and rest_set and string_cmp_ok and regex_method and len(pattern_sources) == 1):
        # the function is not written as the five guards this rule knows how to read off (it may have been restructured):
        # decide it by evaluation over a grid of names instead - every reserved word and pattern instance in several letter
        # cases, their near misses, every single-character name, names with each illegal character in each position
        ctx.rule_min["C05.R5"] = 2  # (the exact comparison yields six instances; this path has the grid and the call sites)
        bad_grid = _check_name_on_grid(ctx, fn)
        ctx.check(not bad_grid, fn.short, "check_name evaluated on a grid of names (its structure is not the one the exact comparison reads)", "a name is accepted exactly when it is non-empty, starts with [A-Za-z_], continues with [A-Za-z0-9_] and is not reserved (ignoring case)", fn.where(), bad_grid[:6])
        _must_call_sites(ctx, repo)
        return
    ctx.check(raise_classes_ok, fn.short, "rejection class", "name rejections must be InvalidDefinitionError subclasses", fn.where())
    # alphabets
    fs = set(fold_const(first_set)) if assigned(first_set) is not None else None
    rs = set(fold_const(rest_set)) if assigned(rest_set) is not None else None
    ctx.check(fs == spec.NAME_FIRST, fn.short, "first character alphabet", "a name must start with [A-Za-z_]", fn.where(), {"extra": sorted((fs or set()) - spec.NAME_FIRST), "missing": sorted(spec.NAME_FIRST - (fs or set()))})
    ctx.check(rs == spec.NAME_REST, fn.short, "continuation alphabet", "a name may contain only [A-Za-z0-9_]", fn.where(), {"extra": sorted((rs or set()) - spec.NAME_REST), "missing": sorted(spec.NAME_REST - (rs or set()))})
    ctx.check(lowered_everywhere, fn.short, "case-insensitive matching", "reserved words / patterns must be matched against the lower-cased name", fn.where())

    # reserved language
    plist_name = pattern_sources.pop()
    plist = assigned(plist_name)
    if not isinstance(plist, (ast.List, ast.Tuple)):
        raise AnalysisError("reserved pattern list %s is not a literal list" % plist_name)
    dfas = []
    words: Set[str] = set()
    mode = {"match": "match", "fullmatch": "fullmatch", "search": "search"}.get(regex_method or "")
    if mode is None:
        raise AnalysisError("unknown regex method %s" % regex_method)
    for el in plist.elts:
        if isinstance(el, ast.Constant) and isinstance(el.value, str):
            words.add(el.value)
        elif isinstance(el, ast.Call) and dotted(el.func) == "re.compile" and len(el.args) >= 1 and isinstance(el.args[0], ast.Constant):
            flags = 0
            if len(el.args) > 1 or el.keywords:
                raise AnalysisError("re.compile with flags in the reserved pattern list")
            try:
                dfas.append(rx.compile_dfa(el.args[0].value, ALPHA, mode, flags))
            except rx.RxUnsupported as ex:
                raise AnalysisError("reserved pattern %r: %s" % (el.args[0].value, ex))
        else:
            raise AnalysisError("reserved pattern list element %s" % norm(el))
    try:
        code_lang = rx.union(dfas + [rx.literal_dfa(words, ALPHA)])
        spec_lang = rx.union([rx.compile_dfa(p, ALPHA, "fullmatch") for p in spec.RESERVED_PATTERNS] + [rx.literal_dfa(spec.RESERVED_WORDS, ALPHA)])
    except rx.RxUnsupported as ex:
        raise AnalysisError("reserved-name language: %s" % ex)
    same, only_code, only_spec = rx.equivalent(code_lang, spec_lang)
    ctx.count(code_lang.n + spec_lang.n)
    ctx.check(same, "_serializable._name." + plist_name, "reserved-name language", "the set of reserved names must equal the Specification's (compared as regular languages over [a-z0-9_])", mod.relpath, {"rejected_but_allowed_by_spec": only_code, "accepted_but_reserved_by_spec": only_spec, "dfa_states": [code_lang.n, spec_lang.n]})
    ctx.sample({"rule": "C05.R5", "reserved_language_dfa_states": code_lang.n, "words": len(words), "patterns": len(dfas)})

    _must_call_sites(ctx, repo)


def _check_name_on_grid(ctx: Ctx, fn: Any) -> List[Dict[str, Any]]:
    import re as _re

    from ..absint import Raised, call_fn

    words = sorted(spec.RESERVED_WORDS)
    inst = ["void", "void1", "void64", "voida", "avoid", "int", "uint", "int8", "uint64", "uint8x", "xint8", "q8_8", "uq16_16", "q8", "q8_", "q_8", "uq", "float", "float16", "float1", "floats", "afloat", "com1", "com", "com10", "lpt9", "lpt", "lptx", "_a_", "__", "_", "a_", "_a", "_abc_", "a__b"]
    names = {""}
    for w in words + inst:
        names |= {w, w.upper(), w.capitalize(), w + "x", "x" + w, w[:-1] if len(w) > 1 else w}
    names |= {"a", "Z", "_", "a1", "A_b9", "x" * 60, "1", "1a", "9_", "a-b", "a b", "a.b", "\u00e9a", "a\u00e9", "a$", "$a", "-", " ", "a\n"}
    names |= {c for c in "abzAZ_019-. $"}
    bad = []
    for nm in sorted(names):
        low = nm.lower()
        want_ok = bool(nm) and nm[0] in spec.NAME_FIRST and all(ch in spec.NAME_REST for ch in nm) and low not in spec.RESERVED_WORDS and not any(_re.fullmatch(p_, low) for p_ in spec.RESERVED_PATTERNS)
        try:
            call_fn(ctx, fn, [nm], keep=())
            got = "accepted"
        except Raised as r:
            got = r.cls_name
        except Unfoldable as ex:
            raise AnalysisError("check_name(%r): cannot evaluate: %s" % (nm, ex))
        ctx.count()
        if (got == "accepted") != want_ok or (got != "accepted" and not _is_ide_name(ctx, got)):
            bad.append({"name": nm, "found": got, "expected": "accepted" if want_ok else "an InvalidDefinitionError"})
    return bad


def _is_ide_name(ctx: Ctx, name: str) -> bool:
    k = next((c for c in ctx.repo.all_classes().values() if c.name == name), None)
    return k is not None and ctx.repo.is_subclass(k, "_error.InvalidDefinitionError")


def _must_call_sites(ctx: Ctx, repo: Any) -> None:
    """who must pass the name check: every attribute class is constructed (by its own constructor chain, evaluated from the
    source) over a non-void type, a void type and a service type, named and unnamed, with `check_name` recorded: a non-void
    attribute is accepted only after check_name(its name); a void field must be unnamed; a service type is no field type"""
    from ..absint import Raised, construct, ctor_hook, module_call_hook, path_hook
    from . import c05 as M

    attr = ctx.cls(SER + "_attribute.Attribute")
    ainit = repo.lookup_method(attr, "__init__")
    if ainit is None:
        raise AnalysisError("Attribute.__init__ missing")
    u8 = M._construct_outcome(ctx, ctx.cls(SER + "_primitive.UnsignedIntegerType"), 8, "CastMode.TRUNCATED")
    v8 = M._construct_outcome(ctx, ctx.cls(SER + "_void.VoidType"), 8)
    rq = M.structure(ctx, name="ns.S.Request", half=True)
    rs = M.structure(ctx, name="ns.S.Response", half=True)
    svc = M.build_model(ctx, SER + "_composite.ServiceType", request=rq, response=rs, fixed_port_id=None) if not (isinstance(rq, str) or isinstance(rs, str)) else "halves"
    if isinstance(u8, str) or isinstance(v8, str) or isinstance(svc, str):
        raise AnalysisError("the operand types cannot be constructed over abstract arguments: %s / %s / %s" % (u8, v8, svc))
    bad = []
    for cname, extra in (("Field", ()), ("PaddingField", None), ("Constant", (Sym(_kind_="value", _isa_=frozenset({"Any", "Primitive", "Rational"}), native_value=1, is_integer=lambda: True),))):
        c = ctx.cls(SER + "_attribute." + cname)
        for tlabel, t in (("non-void", u8), ("void", v8), ("service", svc)):
            for name in ("x", ""):
                if cname == "PaddingField":
                    if name:
                        continue
                    args: Any = (t,)
                else:
                    args = (t, name) + tuple(extra or ())
                log: List[Any] = []
                hook = path_hook(ctor_hook(ctx, module_call_hook(ctx, c.module, [], log, results={"check_name": None}, record=["check_name"])))
                try:
                    construct(ctx, c, *args, hook=hook)
                    got = "accepted"
                except Raised as r:
                    got = r.cls_name
                except Unfoldable as ex:
                    raise AnalysisError("%s%r cannot be evaluated: %s" % (cname, (tlabel, name), ex))
                ctx.count()
                checked = [a_[0] for n_, a_, _k in log if n_ == "check_name" and a_]
                state = {"attribute": cname, "type": tlabel, "name": name}
                if tlabel == "service":
                    if got == "accepted" or not _is_ide_name(ctx, got):
                        bad.append(dict(state, found=got, expected="an InvalidDefinitionError"))
                elif tlabel == "void":
                    if cname == "Constant":
                        if got == "accepted" or not _is_ide_name(ctx, got):
                            bad.append(dict(state, found=got, expected="an InvalidDefinitionError (void carries no constant)"))
                    elif name:
                        if got == "accepted" or not _is_ide_name(ctx, got):
                            bad.append(dict(state, found=got, expected="an InvalidDefinitionError (void fields are unnamed)"))
                    elif got != "accepted":
                        bad.append(dict(state, found=got, expected="accepted"))
                else:
                    if cname == "PaddingField":
                        if got == "accepted" or not _is_ide_name(ctx, got):
                            bad.append(dict(state, found=got, expected="an InvalidDefinitionError (padding is void)"))
                    elif got == "accepted" and checked != [name]:
                        bad.append(dict(state, found="accepted with check_name called on %r" % (checked,), expected="check_name(%r) before acceptance" % name))
                    elif got != "accepted" and not _is_ide_name(ctx, got):
                        bad.append(dict(state, found=got, expected="accepted or an InvalidDefinitionError"))
    ctx.check(not bad, ainit.short, "name check on every attribute (attribute classes constructed over non-void / void / service types, named and unnamed)", "non-void attributes must pass check_name; void fields must be unnamed", ainit.where(), bad[:4])


# ---------------------------------------------------------------------------------------------------- R6 aggregation
def _classify_return(fn: FuncInfo, p: Path, agg_param: str) -> str:
    v = p.value
    if v is None or (isinstance(v, ast.Constant) and v.value is None):
        return "NONE"
    if isinstance(v, ast.Call):
        f = v.func
        if isinstance(f, ast.Attribute) and f.attr == "_check_aggregation":
            if isinstance(f.value, ast.Call) and dotted(f.value.func) == "super":
                if [norm(a) for a in v.args] == [agg_param] and not v.keywords:
                    return "SUPER"
                return "SUPER_WRONG_ARG"
            return "INNER:" + norm(v)
        if (dotted(f) or "").split(".")[-1] == "AggregationFailure":
            return "FAIL"
    return "OTHER:" + norm(v)


def rule_r6_aggregation(ctx: Ctx) -> None:
    repo = ctx.repo
    ctx.rule(
        "C05.R6",
        "_check_aggregation overrides: void only into structures, utf8 only into variable-length arrays, byte only into arrays, "
        "deprecated element => deprecated aggregate (also through arrays and delimited wrappers); every override defers to "
        "super() on its success path; CompositeType.__init__ checks every attribute and raises on failure",
        min_instances=8,
    )
    root = ctx.cls(SER + "_serializable.SerializableType")
    overrides = [c for c in repo.subclasses(root) if "_check_aggregation" in c.methods]
    names = sorted(c.name for c in overrides)
    ctx.analysed["C05.R6.overrides"] = names
    expect_guard: Dict[str, Any] = {
        "ByteType": ("ArrayType",),
        "UTF8Type": ("VariableLengthArrayType",),
        "VoidType": "VOID",
    }
    for c in overrides:
        fn = c.methods["_check_aggregation"]
        if len(fn.params) != 2:
            raise AnalysisError("%s: signature changed" % fn.qualname)
        agg = fn.params[1]
        paths = paths_of(fn.node)

        def atomize(e: Any) -> Any:
            if isinstance(e, tuple):
                raise AnalysisError("%s: unexpected marker" % fn.qualname)
            s = norm(e)
            if s == "self.deprecated":
                return A("SELF_DEPR")
            if s == "%s.deprecated" % agg:
                return A("AGG_DEPR")
            if isinstance(e, ast.Call) and dotted(e.func) == "isinstance" and len(e.args) == 2:
                k = repo.resolve_expr(fn.module, e.args[1], c)
                # local imports (`from ._array import ArrayType` inside the function)
                if k is None:
                    for st in ast.walk(fn.node):
                        if isinstance(st, ast.ImportFrom):
                            for a in st.names:
                                if (a.asname or a.name) == norm(e.args[1]):
                                    base = fn.module._resolve_relative(st.module, st.level)
                                    k = repo.module_member(base, a.name)
                if isinstance(k, ClassInfo):
                    return A("IS[%s]:%s" % (norm(e.args[0]), k.name))
            if isinstance(e, ast.Compare) and len(e.ops) == 1 and isinstance(e.comparators[0], ast.Constant) and e.comparators[0].value is None:
                inner = e.left
                if isinstance(inner, ast.Call) and isinstance(inner.func, ast.Attribute) and inner.func.attr == "_check_aggregation":
                    a = A("INNER_FAILS:" + norm(inner))
                    return a if isinstance(e.ops[0], ast.IsNot) else f_not(a)
            raise AnalysisError("%s: condition outside the abstraction: %s" % (fn.qualname, s))

        forms = [(p, path_formula(p, atomize), _classify_return(fn, p, agg) if p.kind == "return" else p.kind.upper()) for p in paths]
        kinds = sorted({k for _, _, k in forms})
        atoms: List[str] = []
        for _, f, _ in forms:
            from ..decide import f_atoms

            for a in f_atoms(f):
                if a not in atoms:
                    atoms.append(a)
        detail: List[Any] = []
        good = True
        if c is root:
            # failure <=> self.deprecated and not aggregate.deprecated ; otherwise None
            for val in valuations(atoms):
                taken = [k for p, f, k in forms if f_eval(f, val)]
                ctx.count()
                if len(taken) != 1:
                    raise AnalysisError("%s: %d feasible paths" % (fn.qualname, len(taken)))
                want = "FAIL" if (val.get("SELF_DEPR") and not val.get("AGG_DEPR")) else "NONE"
                if taken[0] != want:
                    good = False
                    detail.append({"state": val, "found": taken[0], "expected": want})
            if set(atoms) != {"SELF_DEPR", "AGG_DEPR"}:
                good = False
                detail.append({"atoms": atoms})
            ctx.check(good, fn.short, "deprecation rule", "a deprecated type nested in a non-deprecated aggregate must be reported, nothing else", fn.where(), detail[:4])
            continue
        # the specification's own atoms take part in the valuation even if the code forgot to test them
        exp0 = expect_guard.get(c.name)
        if exp0 == "VOID":
            spec_atoms = ["IS[%s]:CompositeType" % agg, "IS[%s.inner_type]:StructureType" % agg]
        elif isinstance(exp0, tuple):
            spec_atoms = ["IS[%s]:%s" % (agg, exp0[0])]
        else:
            spec_atoms = []
        for a in spec_atoms:
            if a not in atoms:
                atoms.append(a)
        # overrides: never return a bare None, success path defers to super with the same aggregate
        bad_kinds = [k for k in kinds if k in ("NONE", "SUPER_WRONG_ARG", "FALL") or k.startswith("OTHER")]
        has_super = "SUPER" in kinds
        for val in valuations(atoms):
            taken = [k for p, f, k in forms if f_eval(f, val)]
            ctx.count()
            if len(taken) != 1:
                raise AnalysisError("%s: %d feasible paths for %s" % (fn.qualname, len(taken), val))
            k = taken[0]
            exp = expect_guard.get(c.name)
            if exp == "VOID":
                is_comp = val.get("IS[%s]:CompositeType" % agg)
                is_struct = val.get("IS[%s.inner_type]:StructureType" % agg)
                want = "SUPER" if (is_comp and is_struct) else "FAIL"
            elif isinstance(exp, tuple):
                key = "IS[%s]:%s" % (agg, exp[0])
                want = "SUPER" if val[key] else "FAIL"
            else:
                inner_atoms = [a for a in atoms if a.startswith("INNER_FAILS:")]
                if inner_atoms:
                    fails = any(val[a] for a in inner_atoms)
                    want = "FAILISH" if fails else "SUPER"
                else:
                    want = "SUPER"
            if want == "FAILISH":
                okk = k == "FAIL" or k.startswith("INNER:")
            else:
                okk = k == want
            if not okk:
                good = False
                detail.append({"state": val, "found": k, "expected": want})
        ctx.check(good and not bad_kinds and has_super, fn.short, "aggregation verdict", "override must apply its placement rule and return super()'s verdict on the success path", fn.where(), {"paths": kinds, "mismatch": detail[:4]})
        # specific inner calls
        if c.name == "ArrayType":
            inner = [a for a in atoms if a.startswith("INNER_FAILS:")]
            ctx.check(inner == ["INNER_FAILS:self.element_type._check_aggregation(self)"], fn.short, "element checked against the array", "the element type's placement must be checked with the array itself as the aggregate", fn.where(), inner)
        if c.name == "DelimitedType":
            inner = [a for a in atoms if a.startswith("INNER_FAILS:")]
            ctx.check(inner == ["INNER_FAILS:self.inner_type._check_aggregation(%s)" % agg], fn.short, "inner type checked against the same aggregate", "a delimited wrapper forwards the inner type's verdict", fn.where(), inner)
    for must in ("ByteType", "UTF8Type", "VoidType", "ArrayType", "DelimitedType", "SerializableType"):
        ctx.check(must in names, SER + must, "_check_aggregation defined", "%s must define its aggregation rule" % must, "", names, nontrivial=False)

    # deprecation propagation sources
    arr = ctx.cls(SER + "_array.ArrayType")
    dep = arr.methods.get("deprecated")
    from ..regions import trivial_property_expr

    e = trivial_property_expr(repo, arr, "deprecated")
    ctx.check(e is not None and norm(e) in ("self.element_type.deprecated", "self._element_type.deprecated"), arr.short + ".deprecated", norm(e) if e is not None else "?", "an array is deprecated iff its element type is", dep.where() if dep else "")
    comp = ctx.cls(SER + "_composite.CompositeType")
    e = trivial_property_expr(repo, comp, "deprecated")
    ctx.check(e is not None and norm(e) == "self._deprecated", comp.short + ".deprecated", norm(e) if e is not None else "?", "a composite reports its own deprecation flag", comp.module.relpath)
    for cname in ("_primitive.PrimitiveType", "_void.VoidType"):
        k = ctx.cls(SER + cname)
        e = trivial_property_expr(repo, k, "deprecated")
        ctx.check(e is not None and norm(e) == "False", k.short + ".deprecated", norm(e) if e is not None else "?", "primitives and voids are never deprecated", k.module.relpath, nontrivial=False)
    for sub in repo.subclasses(comp, strict=True) + repo.subclasses(arr, strict=True):
        if "deprecated" in sub.methods:
            ctx.fail(sub.short + ".deprecated", "override", "deprecation must not be overridden in subclasses", where=sub.module.relpath)

    # CompositeType.__init__: every attribute is checked, failure raises - observed on constructed composites whose attribute
    # types record the question and answer it with a failure for one of them
    from ..absint import Recorder
    from ..fold import Sym
    from . import c05 as M

    init = comp.methods.get("__init__")
    bad = []
    for n_attrs in (1, 3):
        for failing in [None] + list(range(n_attrs)):
            attrs = []
            for i in range(n_attrs):
                a = M.attribute_sym(ctx, "Field" if i != 1 else "Constant", "a%d" % i)
                a.data_type._check_aggregation = Recorder("check%d" % i, Sym(message="not here", _kind_="AggregationFailure") if i == failing else None)
                attrs.append(a)
            o = M.structure(ctx, attributes=attrs)
            ctx.count()
            asked = [len(a.data_type._check_aggregation.log) for a in attrs]
            asked_with_self = all((not isinstance(o, str) and args and args[0] is o) or isinstance(o, str) for a in attrs for _, args, _ in a.data_type._check_aggregation.log)
            if failing is None:
                okk = not isinstance(o, str) and asked == [1] * n_attrs and asked_with_self
            else:
                okk = o == "AggregationError" and asked[failing] == 1 and all(x == 1 for x in asked[:failing])
            if not okk:
                bad.append({"attributes": n_attrs, "the type that objects": failing, "outcome": o if isinstance(o, str) else "accepted", "times each type was asked": asked})
    ctx.check(not bad and M._ide_name(ctx, "AggregationError"), comp.short + ".__init__", "aggregation check over all attributes", "every attribute's type must be checked for placement and a failure must reject the definition", init.where() if init else comp.module.relpath, bad[:3])


# ---------------------------------------------------------------------------------------------------- R7
def rule_r7_union_extent(ctx: Ctx) -> None:
    """constructor outcomes over abstract arguments (C05.build_model): which unions / delimited wrappers come into being"""
    from ..absint import make_obj
    from ..codec import isa_of
    from ..fold import Sym, Unfoldable as _Unf
    from . import c05 as M
    from .c15 import _prop

    repo = ctx.repo
    ctx.rule("C05.R7", "UnionType needs >= 2 variants; DelimitedType extent accepted iff multiple of the alignment and >= the inner type's extent", min_instances=3)
    u = ctx.cls(SER + "_composite.UnionType")
    init = u.methods.get("__init__")
    where_u = init.where() if init else u.module.relpath
    rejected: Set[str] = set()
    bad = []
    for n in range(0, 6):
        for n_const in (0, 2):
            attrs = [M.attribute_sym(ctx, "Field", "f%d" % i) for i in range(n)] + [M.attribute_sym(ctx, "Constant", "K%d" % i) for i in range(n_const)]
            o = M.structure(ctx, attributes=attrs, kind="UnionType")
            acc = not isinstance(o, str)
            ctx.count()
            if not acc:
                rejected.add(o)
            if acc != (n >= spec.UNION_MIN_VARIANTS):
                bad.append({"variants": n, "constants": n_const, "found": "accepted" if acc else "rejected (%s)" % o})
    ctx.check(not bad, u.short + ".__init__", "variant count region", "a union must have at least two variants (constants are not variants)", where_u, bad)
    nonide = sorted(x for x in rejected if not M._ide_name(ctx, x))
    ctx.check(not nonide, u.short + ".__init__", "rejection class", "rejections must be InvalidDefinitionError subclasses", where_u, nonide)

    # which attributes count as fields / variants: asked of a structure and a union built by their own constructors over an
    # abstract attribute list (fields, a padding field, constants)
    comp = ctx.cls(SER + "_composite.CompositeType")
    s_attrs = [M.attribute_sym(ctx, "Field", "a"), M.attribute_sym(ctx, "Constant", "K"), M.attribute_sym(ctx, "PaddingField", ""), M.attribute_sym(ctx, "Field", "b"), M.attribute_sym(ctx, "Constant", "L")]
    u_attrs = [M.attribute_sym(ctx, "Field", "a"), M.attribute_sym(ctx, "Constant", "K"), M.attribute_sym(ctx, "Field", "b"), M.attribute_sym(ctx, "Field", "c"), M.attribute_sym(ctx, "Constant", "L")]
    s_obj = M.structure(ctx, attributes=s_attrs)
    u_obj = M.structure(ctx, attributes=u_attrs, kind="UnionType")
    if isinstance(s_obj, str) or isinstance(u_obj, str):
        raise AnalysisError("a structure / union over an abstract attribute list was rejected: %s / %s" % (s_obj if isinstance(s_obj, str) else "ok", u_obj if isinstance(u_obj, str) else "ok"))
    for cls_, me, attrs, prop, want_names in ((comp, s_obj, s_attrs, "fields", ["a", "", "b"]), (comp, s_obj, s_attrs, "fields_except_padding", ["a", "b"]), (comp, s_obj, s_attrs, "constants", ["K", "L"]), (comp, s_obj, s_attrs, "attributes", ["a", "K", "", "b", "L"]), (u, u_obj, u_attrs, "fields", ["a", "b", "c"]), (u, u_obj, u_attrs, "number_of_variants", 3)):
        try:
            got = _prop(ctx, me, prop)
        except _Unf as ex:
            raise AnalysisError("%s.%s: cannot evaluate over an abstract attribute list: %s" % (cls_.name, prop, ex))
        ctx.count()
        shown = [getattr(x, "name", "?") for x in got] if isinstance(got, list) else got
        ctx.check(shown == want_names and (not isinstance(got, list) or all(any(x is a for a in attrs) for x in got)), cls_.short + "." + prop, str(shown), "fields are exactly the attributes that are Field instances, in order (padding included); variants are the fields", cls_.module.relpath)

    # delimited wrapper: extent region against inner types of known extent (a structure of one field of 0 / 8 / 16 / 24 bits)
    d = ctx.cls(SER + "_composite.DelimitedType")
    dinit = d.methods.get("__init__")
    where_d = dinit.where() if dinit else d.module.relpath
    rejected = set()
    bad = []
    declared = {}
    for e in (0, 8, 16, 24):
        inner = M.structure(ctx, attributes=[M.attribute_sym(ctx, "Field", "x", bits=e)] if e else [])
        if isinstance(inner, str):
            raise AnalysisError("a structure with one %d-bit field cannot be constructed over abstract arguments: %s" % (e, inner))
        ie = _prop(ctx, inner, "extent")
        if ie != e:
            raise AnalysisError("the abstract inner structure reports extent %r, expected %d" % (ie, e))
        for x in (-8, 0, 1, 7, 8, 9, 15, 16, 17, 24, 64):
            o = M.build_model(ctx, SER + "_composite.DelimitedType", inner=inner, extent=x)
            acc = not isinstance(o, str)
            ctx.count()
            if not acc:
                rejected.add(o)
            else:
                declared[(x, e)] = _prop(ctx, o, "extent")
            if acc != (x % 8 == 0 and x >= e):
                bad.append({"extent": x, "inner_extent": e, "found": "accepted" if acc else "rejected (%s)" % o})
    ctx.check(not bad, d.short + ".__init__", "extent region", "extent accepted iff a multiple of the alignment (8) and not smaller than the inner type's extent", where_d, bad[:6])
    nonide = sorted(x for x in rejected if not M._ide_name(ctx, x))
    ctx.check(not nonide, d.short + ".__init__", "rejection class", "rejections must be InvalidDefinitionError subclasses", where_d, nonide)
    wrong = {k: v for k, v in declared.items() if v != k[0]}
    ctx.check(not wrong, d.short + ".extent", "declared extent reported for %d accepted wrappers" % len(declared), "a delimited type reports the declared extent", d.module.relpath, wrong)
    # a sealed composite's extent is its longest representation
    two = M.structure(ctx, attributes=[M.attribute_sym(ctx, "Field", "a", bits=8), M.attribute_sym(ctx, "Field", "b", bits=24)])
    got = None if isinstance(two, str) else (_prop(ctx, two, "extent"), _prop(ctx, two, "bit_length_set"))
    ctx.check(got is not None and got[0] == 32 and got[0] == getattr(got[1], "max", None), comp.short + ".extent", "extent of {uint8, uint24} = %s" % (got[0] if got else two), "a sealed composite's extent is its longest representation", comp.module.relpath)


# ---------------------------------------------------------------------------------------------------- R8 directives
def rule_r8_directives(ctx: Ctx, rid: str = "C05.R8") -> None:
    """the statement stream processor driven through its public callbacks (builder_common): which sequences of directives,
    attributes and markers are accepted, and what the accepted ones make of the definition"""
    from .parser_common import Line, ParserModel, read_lines, text_of

    ctx.rule(
        rid,
        "directive / marker handlers: exactly one of @sealed/@extent per schema, @extent after the last attribute, @union/@deprecated "
        "before the first attribute and not duplicated, @deprecated not in the response, one `---`, @assert needs a true boolean; "
        "unknown directives rejected; serialization mode required",
        min_instances=9,
    )
    b = ctx.cls("_data_type_builder.DataTypeBuilder")
    where = b.module.relpath
    pm = ParserModel(ctx)
    F = lambda n="a": Line("F", n)  # noqa: E731
    K = lambda n="K": Line("K", n)  # noqa: E731
    P = Line("P")
    M = Line("M")

    def D(name: str, value: Any = None) -> Any:
        return Line("D", directive=name) if value is None else Line("X", directive=name, value=value)

    R = lambda v: ("Rational", v)  # noqa: E731
    Bo = lambda v: ("Boolean", v)  # noqa: E731
    St = lambda v: ("String", v)  # noqa: E731
    S, U, DEP = D("sealed"), D("union"), D("deprecated")
    E = lambda v=64: D("extent", R(v))  # noqa: E731
    rejected_classes: Set[str] = set()

    def outcome(script: List[Any]) -> Any:
        r = read_lines(pm, script, True)
        ctx.count()
        if r.raised:
            rejected_classes.add(r.raised)
            return "reject"
        kinds = [k for k, _ in r.ctor_log]
        leafs = [kw for k, kw in r.ctor_log if k in ("StructureType", "UnionType")]
        return {
            "kinds": kinds,
            "deprecated": [bool(kw.get("deprecated")) for kw in leafs],
            "extents": [kw.get("extent") for k, kw in r.ctor_log if k == "DelimitedType"],
            "attrs": [[getattr(a, "name", "?") for a in (kw.get("attributes") or [])] for kw in leafs],
            "prints": r.prints,
        }

    def table(name: str, cases: List[Tuple[str, List[Any], Any]], message: str) -> None:
        """cases: (label, lines, expected: "reject" | predicate over the accepted outcome)"""
        bad = []
        for label, script, want in cases:
            got = outcome(script)
            okk = (got == "reject") if want == "reject" else (got != "reject" and bool(want(got)))
            if not okk:
                bad.append({"text": text_of(script, True), "found": got if got == "reject" else {k: v for k, v in got.items() if v}, "expected": "rejected" if want == "reject" else "accepted with the stated effect"})
        ctx.check(not bad, "_parser._ParseTreeProcessor x " + b.short, name, message, where, bad[:4])

    acc = lambda o: True  # noqa: E731
    plain = lambda o: o["kinds"] == ["StructureType"]  # noqa: E731
    table("@sealed", [
        ("@sealed", [S], plain), ("field, @sealed", [F(), S], plain), ("@sealed, field", [S, F()], plain),
        ("@sealed, @sealed", [S, S], "reject"), ("@extent, @sealed", [E(), S], "reject"), ("@sealed, @extent", [S, E()], "reject"),
        ("@sealed <expression>", [D("sealed", R(1))], "reject"), ("@sealed true", [D("sealed", Bo(True))], "reject"),
    ], "@sealed: rejected iff a mode is already set or an expression is given; otherwise the schema is sealed (no delimiter)")
    delim = lambda n: (lambda o: o["kinds"] == ["StructureType", "DelimitedType"] and o["extents"] == [n])  # noqa: E731
    table("@extent", [
        ("@extent 64", [E(64)], delim(64)), ("field, @extent 128", [F(), E(128)], delim(128)), ("@extent 0", [E(0)], delim(0)),
        ("@extent", [D("extent", None)], "reject"), ("@extent true", [D("extent", Bo(True))], "reject"), ("@extent 'x'", [D("extent", St("x"))], "reject"),
        ("@extent, @extent", [E(), E()], "reject"), ("@sealed, @extent", [S, E()], "reject"),
        ("@extent, field", [E(), F()], "reject"), ("@extent, constant", [E(), K()], "reject"), ("@extent, padding", [E(), P], "reject"),
        # the smallest admissible extent is an extent like any other
        ("@extent 0, field", [E(0), F()], "reject"), ("@extent 0, constant", [E(0), K()], "reject"), ("@extent 0, padding", [E(0), P], "reject"),
        ("@extent 0, @extent", [E(0), E()], "reject"), ("@extent 0, @sealed", [E(0), S], "reject"), ("@sealed, @extent 0", [S, E(0)], "reject"),
        ("response: @extent 0, constant", [S, M, E(0), K()], "reject"), ("response: @extent 0", [F(), S, M, E(0)], lambda o: o["kinds"] == ["StructureType", "StructureType", "DelimitedType", "ServiceType"] and o["extents"] == [0]),
    ], "@extent: needs a rational expression, at most one mode per schema, no attribute after it; the value becomes the declared extent")
    union = lambda o: o["kinds"] == ["UnionType"]  # noqa: E731
    table("@union", [
        ("@union, a, b, @sealed", [U, F("a"), F("b"), S], union), ("a, @union", [F("a"), U, F("b"), S], "reject"), ("constant, @union", [K(), U, F("a"), F("b"), S], "reject"),
        ("@union, @union", [U, U, F("a"), F("b"), S], "reject"), ("@union <expression>", [D("union", R(1)), F("a"), F("b"), S], "reject"),
        ("response union", [S, M, U, F("a"), F("b"), S], lambda o: o["kinds"] == ["StructureType", "UnionType", "ServiceType"]),
        ("request union only", [U, F("a"), F("b"), S, M, S], lambda o: o["kinds"] == ["UnionType", "StructureType", "ServiceType"]),
    ], "@union: rejected iff an expression is given, duplicated, or placed after an attribute; it applies to its own section")
    table("@deprecated", [
        ("@deprecated, @sealed", [DEP, S], lambda o: o["deprecated"] == [True]), ("@sealed", [S], lambda o: o["deprecated"] == [False]),
        ("a, @deprecated", [F(), DEP, S], "reject"), ("constant, @deprecated", [K(), DEP, S], "reject"), ("@deprecated, @deprecated", [DEP, DEP, S], "reject"),
        ("@deprecated <expression>", [D("deprecated", R(1)), S], "reject"), ("@deprecated in the response", [S, M, DEP, S], "reject"),
        ("deprecated service", [DEP, S, M, S], lambda o: o["deprecated"] == [True, True]),
    ], "@deprecated: rejected iff an expression is given, duplicated, in the response section, or after an attribute; it marks the whole definition")
    table("`---`", [
        ("@sealed --- @sealed", [S, M, S], lambda o: o["kinds"] == ["StructureType", "StructureType", "ServiceType"]),
        ("a --- b", [F("a"), S, M, F("b"), S], lambda o: o["attrs"] == [["a"], ["b"]]),
        ("two markers", [S, M, S, M, S], "reject"), ("marker, no response mode", [S, M], "reject"), ("no request mode", [M, S], "reject"),
    ], "a second `---` is rejected; the first starts a fresh response schema; each section needs its own serialization mode")
    table("@assert", [
        ("@assert true", [D("assert", Bo(True)), S], acc), ("@assert false", [D("assert", Bo(False)), S], "reject"), ("@assert", [D("assert", None), S], "reject"),
        ("@assert 1", [D("assert", R(1)), S], "reject"), ("@assert 'true'", [D("assert", St("true")), S], "reject"),
    ], "@assert passes iff its expression is the boolean true")
    table("@print and unknown directives", [
        ("@print 7 on line 3", [Line("B"), Line("C", comment=" c"), D("print", R(7)), S], lambda o: len(o["prints"]) == 1 and o["prints"][0][0] == 3),
        ("@print on line 2", [F(), D("print", None), S], lambda o: len(o["prints"]) == 1 and o["prints"][0][0] == 2),
        ("@bogus", [D("bogus"), S], "reject"), ("@Sealed", [D("Sealed")], "reject"), ("@", [D("")], "reject"),
    ], "@print delivers once with the directive's line; an unknown directive name is rejected")
    table("serialization mode required", [
        ("(empty)", [], "reject"), ("a", [F()], "reject"), ("@union a b", [U, F("a"), F("b")], "reject"), ("a, @sealed", [F(), S], acc),
    ], "a definition without @sealed / @extent is rejected")
    nonide = sorted(x for x in rejected_classes if not _ide_name5(ctx, x))
    ctx.check(not nonide, b.short, "rejection classes: %s" % sorted(rejected_classes), "rejections must be InvalidDefinitionError subclasses", where, nonide)


def _ide_name5(ctx: Ctx, name: str) -> bool:
    k = next((k for k in ctx.repo.all_classes().values() if k.name == name), None)
    return k is not None and ctx.repo.is_subclass(k, IDE)


# ---------------------------------------------------------------------------------------------------- R9
WHITELIST_NON_IDE = {
    # (function short name suffix, exception) : reason
    ("ServiceType.__init__", "ValueError"): "internal consistency of request/response halves built by finalize from one definition",
    ("ServiceType.bit_length_set", "TypeError"): "documented API contract: service types are not serializable (reachability from definitions is C13's rule)",
    ("ServiceType.iterate_fields_with_offsets", "TypeError"): "documented API contract: service types have no serializable fields",
    ("SerializationMode.__str__", "NotImplementedError"): "abstract base",
}


def rule_r9_exception_classes(ctx: Ctx) -> None:
    repo = ctx.repo
    ctx.rule("C05.R9", "every exception class raised at the rule sites (type model, builders, name check) derives from InvalidDefinitionError (whitelist: abstract methods and documented API misuse)", min_instances=40)
    mods = [m for n, m in repo.modules.items() if n.startswith("pydsdl._serializable.") or n in ("pydsdl._data_type_builder", "pydsdl._data_schema_builder")]
    n_raise = 0
    for m in mods:
        for fn in repo.all_functions().values():
            if fn.module is not m:
                continue
            for r in walk_no_nested(fn.node):
                if not isinstance(r, ast.Raise) or r.exc is None:
                    continue
                k = exc_class_of(repo, fn.module, fn.cls, r.exc)
                n_raise += 1
                if isinstance(k, ClassInfo):
                    good = repo.is_subclass(k, IDE)
                    name = k.name
                elif isinstance(k, External):
                    name = k.dotted.split(".")[-1]
                    good = False
                else:
                    # re-raise of a caught object / local variable
                    continue
                if not good:
                    overridden_everywhere = False
                    if name == "NotImplementedError":
                        from .c13 import abstract_never_runs

                        try:
                            overridden_everywhere = bool(abstract_never_runs(ctx.repo, fn))
                        except Exception:
                            overridden_everywhere = False
                    if name == "NotImplementedError" and (fn.is_abstract or overridden_everywhere or fn.name in ("bit_length_set", "iterate_fields_with_offsets", "__str__")):
                        continue
                    wl = [reason for (suffix, exn), reason in WHITELIST_NON_IDE.items() if fn.qualname.endswith(suffix) and exn == name]
                    if wl:
                        continue
                ctx.check(good, fn.short, "raise " + name, "a rule site must reject with an InvalidDefinitionError subclass", fn.where(r), nontrivial=False)
    ctx.analysed["C05.R9.raise_sites"] = n_raise


def rule_r10_policy_reaches_dependencies(ctx: Ctx) -> None:
    """the static rules hold for every definition that is read, also for one read as somebody's dependency: the reference
    resolver hands the referrer's own port-ID policy (`allow_unregulated_fixed_port_id`) to the read of the dependency -
    observed on the reader model, for dependencies in the referrer's root namespace and in a foreign one"""
    from . import reader_common as R

    ctx.rule("C05.R10", "a dependency is read under the same fixed port-ID policy as its referrer (same root namespace or another one, policy on or off): no definition is accepted merely because it was first reached through a reference", min_instances=1)
    fn = ctx.func("_data_type_builder.DataTypeBuilder.resolve_versioned_data_type")
    bad = []
    for allow in (False, True):
        for dep_name in ("ns.sub.B", "other.B", "Ns2.B"):
            w = R.World()
            A = R.ADef(w, "ns.sub.A", 1, 0)
            B = R.ADef(w, dep_name, 1, 0)
            o = R.resolve(ctx, A, [A, B], dep_name, 1, 0, allow_unregulated=allow)
            ctx.count()
            reads = [e for e in w.log if e[0] == "read"]
            if o["raised"] or len(reads) != 1:
                raise AnalysisError("%s: the reference %s.1.0 was not resolved by one read (%s)" % (fn.short, dep_name, o["raised"]))
            _, _, _lk, _vs, _handler, allow_seen, _kw = reads[0]
            if allow_seen is not allow:
                bad.append({"referrer": "ns.sub.A", "dependency": dep_name, "policy of the read": allow, "policy handed to the dependency's read": allow_seen})
    ctx.check(not bad, fn.short, "the dependency's read gets the referrer's port-ID policy (6 cases)", "a definition with an unregulated fixed port-ID is rejected unless explicitly allowed - however it is reached", fn.where(), bad[:3])


def run(ctx: Ctx) -> None:
    ctx.attempt(rule_r10_policy_reaches_dependencies, ctx)
    rule_r5_names(ctx)
    rule_r6_aggregation(ctx)
    rule_r7_union_extent(ctx)
    rule_r8_directives(ctx)
    rule_r9_exception_classes(ctx)
    ctx.assume("alignment_requirement of composites is 8 (decided by C02.R4)")
    ctx.assume("expression values passed to directive handlers are instances of expression.Any (typed lifters assert it)")
    ctx.undecided("completeness of rule invocation along construction paths other than the listed must-call obligations")
    ctx.analysed["modules"] = ["_serializable/*", "_data_type_builder", "_data_schema_builder", "_port_id_ranges", "_parser (array forms)"]
