"""
Texts for the concrete front-end world (rules/frontend.py): a small generator of definition texts from *descriptions* - what
each statement is meant to say, in the Specification's terms - and the formatting mutations the Specification calls
insignificant.  A rule reads the generated text with the repository's front end (evaluated from the source) and compares the
digest of the model with the description the text was generated from: the description is the oracle, independent of the
repository.

A description of a definition:

    Def(name="M1", version=(1, 0), port=None, deprecated=False, sections=[Section(...)] (two sections = a service))
    Section(doc="...", union=False, attrs=[...], seal=("sealed",) | ("extent", "<expression text>", <bits>))
    F(spelling, canon, name, doc="")          a field:    `<spelling> <name>`      whose type reads back as `canon`
    P(bits, doc="")                           a padding:  `void<bits>`
    C(spelling, canon, name, expr, value, doc="")   a constant: `<spelling> <name> = <expr>` with the value (kind, native)

Formatting mutations work on the parse tree of the text under the repository's grammar (sa/pegrun): every node of the
whitespace rule `_` and every empty optional `_?` is a place where blanks may be changed, every end_of_line a place where the
line-end style may change.
"""
from __future__ import annotations

from fractions import Fraction
from typing import Any, Callable, Dict, List, Optional, Sequence, Tuple

from ..pegrun import Matcher, PNode


class F:
    def __init__(self, spelling: str, canon: str, name: str, doc: str = ""):
        self.spelling, self.canon, self.name, self.doc = spelling, canon, name, doc


class P:
    def __init__(self, bits: int, doc: str = ""):
        self.bits, self.doc = bits, doc


class C:
    def __init__(self, spelling: str, canon: str, name: str, expr: str, value: Tuple[str, Any], doc: str = ""):
        self.spelling, self.canon, self.name, self.expr, self.value, self.doc = spelling, canon, name, expr, value, doc


class Section:
    def __init__(self, attrs: Sequence[Any], seal: Tuple[Any, ...] = ("sealed",), union: bool = False, doc: str = "", extra: Sequence[str] = ()):
        self.attrs, self.seal, self.union, self.doc, self.extra = list(attrs), seal, union, doc, list(extra)


class Def:
    def __init__(self, name: str, sections: Sequence[Section], version: Tuple[int, int] = (1, 0), port: Optional[int] = None, deprecated: bool = False, ns: str = "ns"):
        self.name, self.sections, self.version, self.port, self.deprecated, self.ns = name, list(sections), version, port, deprecated, ns

    @property
    def file_name(self) -> str:
        parts = self.ns.split(".")[1:]
        base = "%s%s.%d.%d.dsdl" % ("%d." % self.port if self.port is not None else "", self.name, self.version[0], self.version[1])
        return "/".join(parts + [base])

    @property
    def full_name(self) -> str:
        return self.ns + "." + self.name


def _comment_lines(doc: str) -> List[str]:
    return ["# " + l if l else "#" for l in doc.split("\n")] if doc else []


def render(d: Def) -> str:
    """the text of the definition, one statement per line, single blanks, LF, final newline"""
    out: List[str] = []
    for i, s in enumerate(d.sections):
        if i:
            out.append("---")
        out.extend(_comment_lines(s.doc))
        if s.doc:
            out.append("")  # the header comment block ends at an empty line
        if d.deprecated and i == 0:
            out.append("@deprecated")
        if s.union:
            out.append("@union")
        for a in s.attrs:
            if isinstance(a, F):
                line = "%s %s" % (a.spelling, a.name)
            elif isinstance(a, P):
                line = "void%d" % a.bits
            else:
                line = "%s %s = %s" % (a.spelling, a.name, a.expr)
            cl = _comment_lines(a.doc)
            if cl:
                line += " " + cl[0]
            out.append(line)
            out.extend(cl[1:])
        out.extend(s.extra)
        out.append("@sealed" if s.seal[0] == "sealed" else "@extent %s" % s.seal[1])
    return "\n".join(out) + "\n"


def expected(d: Def, root: str) -> Dict[str, Any]:
    """what the model of the definition must say (the fields of FrontEnd.digest that the description determines)"""

    def section(s: Section, name: str, parent: bool) -> Dict[str, Any]:
        rows = []
        for a in s.attrs:
            if isinstance(a, F):
                rows.append({"kind": "Field", "type": a.canon, "name": a.name, "doc": a.doc})
            elif isinstance(a, P):
                rows.append({"kind": "PaddingField", "type": "void%d" % a.bits, "name": "", "doc": a.doc})
            else:
                rows.append({"kind": "Constant", "type": a.canon, "name": a.name, "doc": a.doc, "value": a.value})
        # (fields and paddings in source order, constants in source order: how the two groups are merged into `attributes` is
        # not prescribed, so the expectation is stated per group)
        inner = {"fields": [r["name"] for r in rows if r["kind"] != "Constant"], "constants": [r["name"] for r in rows if r["kind"] == "Constant"], "field_rows": [r for r in rows if r["kind"] != "Constant"], "constant_rows": [r for r in rows if r["kind"] == "Constant"], "kind": "UnionType" if s.union else "StructureType", "full_name": name, "version": d.version, "deprecated": d.deprecated, "fixed_port_id": None if parent else d.port, "has_parent_service": parent, "doc": s.doc, "text": "%s.%d.%d" % (name, d.version[0], d.version[1]), "source_file_path": root + "/" + d.file_name}
        if s.seal[0] == "extent":
            outer = dict(inner)
            outer["kind"] = "DelimitedType"
            outer["extent"] = s.seal[2]
            outer["inner"] = inner
            return outer
        return inner

    if len(d.sections) == 1:
        return section(d.sections[0], d.full_name, False)
    return {"kind": "ServiceType", "full_name": d.full_name, "version": d.version, "deprecated": d.deprecated, "fixed_port_id": d.port, "has_parent_service": False, "text": "%s.%d.%d" % (d.full_name, d.version[0], d.version[1]), "source_file_path": root + "/" + d.file_name, "request": section(d.sections[0], d.full_name + ".Request", True), "response": section(d.sections[1], d.full_name + ".Response", True)}


def compare(exp: Any, got: Any, path: str = "") -> List[str]:
    """differences between an expectation and a digest: only what the expectation mentions is compared"""
    out: List[str] = []
    if isinstance(exp, dict):
        if not isinstance(got, dict):
            return ["%s: expected %r, got %r" % (path, exp, got)]
        for k, v in exp.items():
            out.extend(compare(v, got.get(k, "<absent>"), path + "." + k if path else k))
        return out
    if isinstance(exp, list):
        if not isinstance(got, list) or len(got) != len(exp):
            return ["%s: expected %d entries %s, got %s" % (path, len(exp), [e.get("name") if isinstance(e, dict) else e for e in exp], [g.get("name") if isinstance(g, dict) else g for g in got] if isinstance(got, list) else got)]
        for i, (e, g) in enumerate(zip(exp, got)):
            out.extend(compare(e, g, "%s[%d]" % (path, i)))
        return out
    if isinstance(exp, tuple) and isinstance(got, (tuple, list)):
        exp, got = list(exp), list(got)
        if len(exp) == len(got) == 2 and isinstance(exp[0], str) and exp[0] in ("Rational", "Boolean", "String", "Set"):
            same = exp[0] == got[0] and exp[1] == got[1] and type(exp[1]) is type(got[1]) if exp[0] != "Rational" else (exp[0] == got[0] and Fraction(exp[1]) == got[1])
            return [] if same else ["%s: expected %r, got %r" % (path, tuple(exp), tuple(got))]
    if exp != got or (isinstance(exp, bool) != isinstance(got, bool)):
        return ["%s: expected %r, got %r" % (path, exp, got)]
    return []


def strip_docs(d: Any) -> Any:
    if isinstance(d, dict):
        return {k: strip_docs(v) for k, v in d.items() if k != "doc"}
    if isinstance(d, list):
        return [strip_docs(x) for x in d]
    return d


# ---------------------------------------------------------------------------------------------------- formatting mutations
class Sites:
    """the places of a text where formatting may change, from its parse tree under the repository's grammar"""

    def __init__(self, m: Matcher, text: str, ws_rule: str = "_", eol_rule: str = "end_of_line", comment_rule: str = "comment", line_rule: str = "line"):
        self.text = text
        tree = m.parse(text)
        self.blanks: List[Tuple[int, int]] = []  # non-empty whitespace between tokens
        self.gaps: List[int] = []  # empty optional whitespace
        self.eols: List[Tuple[int, int]] = []
        self.lines: List[Tuple[int, int, bool, bool]] = []  # start, end, has statement, has comment
        self._walk(tree, ws_rule, eol_rule, comment_rule, line_rule, False)

    def _walk(self, n: PNode, ws: str, eol: str, com: str, line: str, in_str: bool) -> None:
        if n.expr_name == ws and n.end > n.start:
            self.blanks.append((n.start, n.end))
            return
        if n.kind == "opt:" + ws and n.end == n.start:
            self.gaps.append(n.start)
            return
        if n.expr_name == eol:
            self.eols.append((n.start, n.end))
            return
        if n.expr_name == line:
            has_stmt = bool(n.children and n.children[0].children)
            has_com = bool(n.children and n.children[-1].children)
            self.lines.append((n.start, n.end, has_stmt, has_com))
        for c in n.children:
            self._walk(c, ws, eol, com, line, in_str)

    def _apply(self, edits: List[Tuple[int, int, str]]) -> str:
        t = self.text
        for s, e, r in sorted(edits, reverse=True):
            t = t[:s] + r + t[e:]
        return t

    # every mutation returns (label, text)
    def blanks_as(self, ws: str) -> str:
        return self._apply([(s, e, ws) for s, e in self.blanks])

    def one_blank_as(self, i: int, ws: str) -> str:
        s, e = self.blanks[i]
        return self._apply([(s, e, ws)])

    def gaps_as(self, ws: str, inner_only: bool = False) -> str:
        line_ends = {e for _, e, _, _ in self.lines}
        return self._apply([(p, p, ws) for p in self.gaps if not (inner_only and p in line_ends)])

    def one_gap_as(self, i: int, ws: str) -> str:
        p = self.gaps[i]
        return self._apply([(p, p, ws)])

    def eols_as(self, style: Callable[[int], str]) -> str:
        return self._apply([(s, e, style(i)) for i, (s, e) in enumerate(self.eols)])

    def trailing(self, ws: str) -> str:
        return self._apply([(e, e, ws) for _, e, st, co in self.lines if not co])

    def final_newline(self, present: bool) -> str:
        t = self.text.rstrip("\r\n")
        return t + "\n" if present else t

    def blank_lines(self, filler: str = "") -> str:
        """an empty line (or a line of blanks) before every line that holds a statement, and at the end"""
        edits = [(s, s, filler + "\n") for s, _, st, _ in self.lines if st and s > 0]
        return self._apply(edits) + filler + "\n\n"

    def extra_comments(self) -> str:
        """a comment at the end of every line that has none and holds a statement, and a comment line at the very end;
        comments are documentation, so only the model without its documentation may be compared afterwards"""
        edits = [(e, e, " # extra") for _, e, st, co in self.lines if st and not co]
        return self._apply(edits) + "# the end\n"


def mutants(m: Matcher, text: str, thorough: bool) -> List[Tuple[str, str, bool]]:
    """(label, mutated text, documentation comparable) - all of them formatting changes the Specification calls insignificant"""
    try:
        s = Sites(m, text)
    except Exception as ex:  # the grammar does not accept this text (any more): there is nothing to derive from its tree
        if type(ex).__name__ != "ParseFailure":
            raise
        return []
    out: List[Tuple[str, str, bool]] = [
        ("every blank run a TAB", s.blanks_as("\t"), True),
        ("every blank run TAB+blank", s.blanks_as("\t "), True),
        ("every blank run blank+TAB+blank", s.blanks_as(" \t "), True),
        ("every blank run three blanks", s.blanks_as("   "), True),
        ("a blank in every optional gap", s.gaps_as(" "), True),
        ("a TAB in every optional gap inside statements", s.gaps_as("\t", inner_only=True), True),
        ("CRLF line ends", s.eols_as(lambda i: "\r\n"), True),
        ("alternating LF / CRLF line ends", s.eols_as(lambda i: "\r\n" if i % 2 else "\n"), True),
        ("no final newline", s.final_newline(False), True),
        ("trailing blanks and tabs", s.trailing(" \t "), True),
        ("empty lines before statements", s.blank_lines(""), True),
        ("lines of blanks before statements", s.blank_lines(" \t"), True),
        ("extra comments", s.extra_comments(), False),
    ]
    if thorough:
        for i in range(len(s.blanks)):
            out.append(("blank run %d a TAB" % i, s.one_blank_as(i, "\t"), True))
        for i in range(len(s.gaps)):
            out.append(("a TAB in optional gap %d" % i, s.one_gap_as(i, "\t"), True))
    return [(l, t, d) for l, t, d in out if t != text]
