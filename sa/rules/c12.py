"""
C12 -- Constants are always compliant with their declared type.

R1  acceptance table of Constant.__init__ over (type kind x value kind x range position), extracted as path
    conditions (E5) and compared with the Specification on the complete abstract domain.
R2  inclusive_value_range tables folded (E6) for every width / float format, compared exactly (Fractions).
R3  the range guard is the closed interval (part of R1's domain: at-min / at-max positions are accepted).
R4  value identity: the stored value is the initializer object itself or Rational(ord(<1 byte>)); no float(),
    round(), int() conversion reaches `_value`.
"""
from __future__ import annotations

import ast
from fractions import Fraction
from typing import Any, Dict, List, Optional, Tuple

from ..core import AnalysisError, ClassInfo, Ctx, calls_in, dotted, norm, unparse, walk_no_nested
from ..decide import A, Path, f_eval, path_formula, paths_of, substitute, to_formula
from ..fold import FoldKeyError, Folder, Unfoldable

ATTR = "_serializable._attribute"
PRIM = "_serializable._primitive"


# ------------------------------------------------------------------------------------------------ R2 tables
def _value_range_hook(e: ast.expr, f: Folder) -> Any:
    if isinstance(e, ast.Call):
        name = dotted(e.func) or ""
        if name.split(".")[-1] == "ValueRange":
            kw = {k.arg: f.fold(k.value) for k in e.keywords}
            pos = [f.fold(a) for a in e.args]
            if pos and not kw and len(pos) == 2:
                return (pos[0], pos[1])
            if set(kw) == {"min", "max"} and not pos:
                return (kw["min"], kw["max"])
            raise Unfoldable("ValueRange call shape")
    return NotImplemented


def _single_return(ctx: Ctx, fn: Any) -> ast.expr:
    ps = [p for p in paths_of(fn.node) if p.kind == "return"]
    other = [p for p in paths_of(fn.node) if p.kind != "return"]
    if len(ps) != 1 or other or ps[0].value is None:
        raise AnalysisError("%s: expected a single unconditional return" % fn.qualname)
    return ps[0].value


def rule_r2(ctx: Ctx) -> None:
    repo = ctx.repo
    ctx.rule(
        "C12.R2",
        "inclusive_value_range folds to (-2**(n-1), 2**(n-1)-1) for int n=2..64, (0, 2**n-1) for uint n=1..64, "
        "+-(2-2**-p)*2**emax for float16/32/64; FloatType accepts exactly the keys {16,32,64}",
        min_instances=3,
    )
    # signed
    sc = ctx.cls(PRIM + ".SignedIntegerType")
    fn = repo.lookup_method(sc, "inclusive_value_range")
    if fn is None or fn.cls is not sc:
        raise AnalysisError("SignedIntegerType.inclusive_value_range not found")
    expr = _single_return(ctx, fn)
    bad: List[Any] = []
    for n in range(2, 65):
        f = Folder({"self.bit_length": n, "self._bit_length": n}, repo, fn.module, sc, _value_range_hook)
        try:
            got = f.fold(expr)
        except Unfoldable as ex:
            raise AnalysisError("cannot fold %s: %s" % (fn.qualname, ex))
        want = (Fraction(-(2 ** (n - 1))), Fraction(2 ** (n - 1) - 1))
        ctx.count()
        if tuple(map(Fraction, got)) != want or not all(isinstance(x, (int, Fraction)) and not isinstance(x, bool) for x in got):
            bad.append({"n": n, "found": [str(x) for x in got], "expected": [str(x) for x in want]})
    ctx.check(not bad, fn.short, norm(expr), "signed range table (63 widths) must equal two's complement limits", fn.where(), bad[:4])
    ctx.sample({"rule": "C12.R2", "site": fn.short, "expr": norm(expr), "rows": 63, "e.g.": {"n=8": "(-128, 127)"}})

    # unsigned
    uc = ctx.cls(PRIM + ".UnsignedIntegerType")
    fn = repo.lookup_method(uc, "inclusive_value_range")
    if fn is None or fn.cls is not uc:
        raise AnalysisError("UnsignedIntegerType.inclusive_value_range not found")
    expr = _single_return(ctx, fn)
    bad = []
    for n in range(1, 65):
        f = Folder({"self.bit_length": n, "self._bit_length": n}, repo, fn.module, uc, _value_range_hook)
        try:
            got = f.fold(expr)
        except Unfoldable as ex:
            raise AnalysisError("cannot fold %s: %s" % (fn.qualname, ex))
        want = (Fraction(0), Fraction(2**n - 1))
        ctx.count()
        if tuple(map(Fraction, got)) != want:
            bad.append({"n": n, "found": [str(x) for x in got], "expected": [str(x) for x in want]})
    ctx.check(not bad, fn.short, norm(expr), "unsigned range table (64 widths) must equal (0, 2**n-1)", fn.where(), bad[:4])
    # subclasses must not override the range (ByteType/UTF8Type inherit it)
    for sub in repo.subclasses(uc, strict=True) + repo.subclasses(sc, strict=True):
        if "inclusive_value_range" in sub.methods:
            ctx.fail(sub.short, "inclusive_value_range override", "an integer subclass overrides the range table", where=sub.module.relpath)

    # float
    fc = ctx.cls(PRIM + ".FloatType")
    init = fc.methods.get("__init__")
    rng = fc.methods.get("inclusive_value_range")
    if init is None or rng is None:
        raise AnalysisError("FloatType.__init__/inclusive_value_range not found")
    # locate the single store to the attribute returned (negated / plain) by inclusive_value_range
    rexpr = _single_return(ctx, rng)
    mag_attrs = sorted({dotted(n) for n in ast.walk(rexpr) if isinstance(n, ast.Attribute) and dotted(n) and dotted(n).startswith("self._")})  # type: ignore
    if len(mag_attrs) != 1:
        raise AnalysisError("FloatType.inclusive_value_range: expected exactly one instance attribute, got %s" % mag_attrs)
    mag = mag_attrs[0]
    stores = []
    local_env: Dict[str, ast.AST] = {}
    for st in walk_no_nested(init.node):
        if isinstance(st, ast.Assign) and len(st.targets) == 1:
            d = dotted(st.targets[0])
            if d == mag:
                stores.append(st)
            elif isinstance(st.targets[0], ast.Name):
                local_env[st.targets[0].id] = st.value
    if len(stores) != 1:
        raise AnalysisError("FloatType.__init__: expected one store to %s, got %d" % (mag, len(stores)))
    mexpr = substitute(stores[0].value, local_env)
    accepted: Dict[int, Fraction] = {}
    for n in range(1, 65):
        f = Folder({"self.bit_length": n, "self._bit_length": n, "bit_length": n}, repo, init.module, fc)
        ctx.count()
        try:
            v = f.fold(mexpr)  # type: ignore
        except FoldKeyError:
            continue
        except Unfoldable as ex:
            raise AnalysisError("cannot fold FloatType magnitude: %s" % ex)
        accepted[n] = v
    spec = {16: (10, 15), 32: (23, 127), 64: (52, 1023)}
    want_mag = {n: (2 - Fraction(1, 2**p)) * 2**emax for n, (p, emax) in spec.items()}
    detail = []
    if set(accepted) != set(want_mag):
        detail.append({"accepted_widths": sorted(accepted), "expected": sorted(want_mag)})
    for n in sorted(set(accepted) & set(want_mag)):
        if not isinstance(accepted[n], (int, Fraction)) or Fraction(accepted[n]) != want_mag[n]:
            detail.append({"n": n, "found": str(accepted[n]), "expected": str(want_mag[n])})
    ctx.check(not detail, fc.short + ".__init__", norm(stores[0]), "float magnitude table must be the IEEE 754 largest finite values for exactly {16,32,64}", init.where(stores[0]), detail)
    # the lookup failure must be translated to InvalidBitLengthError (⊂ InvalidDefinitionError)
    translated = False
    for st in walk_no_nested(init.node):
        if isinstance(st, ast.Try) and any(s is stores[0] for b in [st.body] for s in ast.walk(ast.Module(body=b, type_ignores=[]))):
            for h in st.handlers:
                hn = dotted(h.type) if h.type is not None else None
                if hn in ("KeyError", "LookupError", "Exception"):
                    for r in ast.walk(ast.Module(body=h.body, type_ignores=[])):
                        if isinstance(r, ast.Raise) and r.exc is not None:
                            target = r.exc.func if isinstance(r.exc, ast.Call) else r.exc
                            k = repo.resolve_expr(init.module, target, fc)
                            if isinstance(k, ClassInfo) and repo.is_subclass(k, "_error.InvalidDefinitionError"):
                                translated = True
    ctx.check(translated, fc.short + ".__init__", "KeyError -> InvalidBitLengthError", "an unsupported float width must be rejected with an InvalidDefinitionError", init.where())
    # the range is symmetric: (-m, +m)
    for sign, m in ((+1, Fraction(7)),):
        f = Folder({mag: m}, repo, rng.module, fc, _value_range_hook)
        try:
            got = f.fold(rexpr)
        except Unfoldable as ex:
            raise AnalysisError("cannot fold FloatType.inclusive_value_range: %s" % ex)
        ctx.check(tuple(got) == (-m, m), rng.short, norm(rexpr), "float range must be (-magnitude, +magnitude)", rng.where(), {"found": [str(x) for x in got]})
    ctx.sample({"rule": "C12.R2", "site": fc.short, "accepted_widths": sorted(accepted), "float16_max": str(accepted.get(16))})


# ------------------------------------------------------------------------------------------------ R1 / R3 / R4
TYPE_KINDS = ["BOOL", "UINT8", "UINT_OTHER", "SINT8", "SINT_OTHER", "FLOAT", "OTHER"]
# one-character strings are represented by boundary code points (ASCII / Latin-1 / wider / lone surrogate)
STR1_CODES = [0x00, 0x41, 0x7F, 0x80, 0xFF, 0x100, 0x7FF, 0x800, 0xD800, 0xFFFF, 0x10FFFF]
VALUE_KINDS = ["BOOLEAN", "RAT_INT", "RAT_FRAC"] + ["STR1_%X" % c for c in STR1_CODES] + ["STR_EMPTY", "STR_MULTI", "NONPRIM"]
STRING_KINDS = {k for k in VALUE_KINDS if k.startswith("STR")}
POSITIONS = ["BELOW", "AT_MIN", "INSIDE", "AT_MAX", "ABOVE"]

_TYPE_IS = {
    "BooleanType": {"BOOL"},
    "IntegerType": {"UINT8", "UINT_OTHER", "SINT8", "SINT_OTHER"},
    "UnsignedIntegerType": {"UINT8", "UINT_OTHER"},
    "SignedIntegerType": {"SINT8", "SINT_OTHER"},
    "FloatType": {"FLOAT"},
    "ArithmeticType": {"UINT8", "UINT_OTHER", "SINT8", "SINT_OTHER", "FLOAT"},
    "PrimitiveType": {"BOOL", "UINT8", "UINT_OTHER", "SINT8", "SINT_OTHER", "FLOAT"},
    "VoidType": set(),
    "SerializableType": set(TYPE_KINDS),
}
_VALUE_IS = {
    "Primitive": {"BOOLEAN", "RAT_INT", "RAT_FRAC"} | STRING_KINDS,
    "Boolean": {"BOOLEAN"},
    "Rational": {"RAT_INT", "RAT_FRAC"},
    "String": set(STRING_KINDS),
    "Any": set(VALUE_KINDS),
    "Set": set(),
    "Container": set(),
}


class _State:
    def __init__(self, tk: str, vk: str, pos: str):
        self.tk, self.vk, self.pos = tk, vk, pos
        self.code = int(vk.split("_")[1], 16) if vk.startswith("STR1_") else None

    @property
    def chars(self) -> int:
        return 1 if self.code is not None else (0 if self.vk == "STR_EMPTY" else 2)

    @property
    def encodable(self) -> bool:
        return self.code is None or not (0xD800 <= self.code <= 0xDFFF)

    @property
    def utf8_len(self) -> int:
        if self.code is None:
            return 0 if self.vk == "STR_EMPTY" else 2
        c = self.code
        return 1 if c < 0x80 else 2 if c < 0x800 else 3 if c < 0x10000 else 4


def rule_r1(ctx: Ctx) -> None:
    repo = ctx.repo
    ctx.rule(
        "C12.R1",
        "Constant.__init__ accepts exactly (bool,Boolean), (integer, integer Rational in closed range), (uint8, 1-byte "
        "String -> code point, in range), (float, Rational in closed range); every rejection is an InvalidDefinitionError",
        min_instances=1,
    )
    cc = ctx.cls(ATTR + ".Constant")
    init = cc.methods.get("__init__")
    if init is None:
        raise AnalysisError("Constant.__init__ not found")
    params = init.params
    need_params = {"data_type", "value"}
    if not need_params <= set(params):
        raise AnalysisError("Constant.__init__ parameters changed: %s" % params)
    paths = paths_of(init.node)
    ctx.analysed["C12.R1.paths"] = len(paths)

    converted_marker = "CONVERTED"

    def classify_is(e: ast.Call) -> Any:
        """isinstance(X, K) -> ('T', kinds) / ('V', kinds) / constant bool"""
        if len(e.args) != 2:
            raise AnalysisError("isinstance arity")
        x, k = e.args
        klasses = k.elts if isinstance(k, ast.Tuple) else [k]
        names = []
        for kk in klasses:
            r = repo.resolve_expr(init.module, kk, cc)
            if not isinstance(r, ClassInfo):
                raise AnalysisError("isinstance against unresolved class %s" % unparse(kk))
            names.append(r)
        xs = norm(x)
        if xs in ("data_type", "self.data_type", "self._data_type"):
            kinds: set = set()
            for r in names:
                if r.name not in _TYPE_IS:
                    raise AnalysisError("type test against %s is outside the C12 abstraction" % r.name)
                kinds |= _TYPE_IS[r.name]
            return ("T", frozenset(kinds))
        if xs == "value":
            kinds = set()
            for r in names:
                if r.name not in _VALUE_IS:
                    raise AnalysisError("value test against %s is outside the C12 abstraction" % r.name)
                kinds |= _VALUE_IS[r.name]
            return ("V", frozenset(kinds))
        if isinstance(x, ast.Call):
            c = repo.resolve_expr(init.module, x.func, cc)
            if isinstance(c, ClassInfo):
                return any(repo.is_subclass(c, r) for r in names)
        raise AnalysisError("isinstance on %s is outside the C12 abstraction" % xs)

    def is_value_native(e: ast.expr) -> Optional[str]:
        """the Fraction being range-checked: value.native_value, or the converted code point"""
        s = norm(e)
        if s == "value.native_value":
            return "orig"
        if isinstance(e, ast.Attribute) and e.attr == "native_value" and isinstance(e.value, ast.Call):
            c = repo.resolve_expr(init.module, e.value.func, cc)
            if isinstance(c, ClassInfo) and c.name == "Rational":
                return "converted"
        return None

    def atomize(e: Any) -> Any:
        if isinstance(e, tuple):
            if e[0] == "except" and e[1].split(".")[-1] in ("UnicodeEncodeError", "UnicodeError", "ValueError"):
                body = " ".join(norm(x) for x in e[3])
                if "value.native_value.encode(" in body:
                    return A("ENC_FAIL")  # the string cannot be encoded (lone surrogate)
            raise AnalysisError("unexpected control marker %r in Constant.__init__" % (e[0],))
        if isinstance(e, ast.Call) and dotted(e.func) == "isinstance":
            r = classify_is(e)
            if isinstance(r, bool):
                return r
            return A("IS:%s:%s" % (r[0], ",".join(sorted(r[1]))))
        if isinstance(e, ast.Call) and isinstance(e.func, ast.Attribute) and e.func.attr == "is_integer" and norm(e.func.value) == "value":
            return A("IS_INTEGER")
        if isinstance(e, ast.Compare) and len(e.ops) == 1:
            l, op, r = e.left, e.ops[0], e.comparators[0]
            ls, rs = norm(l), norm(r)
            # len(<utf8 bytes of the string>) ? 1
            if ls.startswith("len(") and "encode(" in ls and isinstance(r, ast.Constant) and isinstance(r.value, int):
                if "value.native_value.encode" not in ls:
                    raise AnalysisError("length test on something else than the string's bytes: %s" % ls)
                return A("LENB:%s:%d" % (type(op).__name__, r.value))
            if ls == "len(value.native_value)" and isinstance(r, ast.Constant) and isinstance(r.value, int):
                return A("LENC:%s:%d" % (type(op).__name__, r.value))
            if ls in ("ord(value.native_value)", "ord(value.native_value.encode('utf8'))") and isinstance(r, ast.Constant) and isinstance(r.value, int):
                return A("ORD:%s:%d" % (type(op).__name__, r.value))
            if ls in ("data_type.bit_length", "self.data_type.bit_length") and isinstance(r, ast.Constant) and isinstance(r.value, int):
                return A("BITLEN:%s:%d" % (type(op).__name__, r.value))
            # range comparisons
            for side, other, flip in ((l, r, False), (r, l, True)):
                ss = norm(side)
                if ss in ("data_type.inclusive_value_range.min", "data_type.inclusive_value_range.max"):
                    which = ss.rsplit(".", 1)[1]
                    if is_value_native(other) is None:
                        raise AnalysisError("range bound compared with %s" % norm(other))
                    opn = type(op).__name__
                    if flip:  # value OP bound  ->  bound OP' value
                        opn = {"Lt": "Gt", "LtE": "GtE", "Gt": "Lt", "GtE": "LtE", "Eq": "Eq", "NotEq": "NotEq"}[opn]
                    return A("RNG:%s:%s:%s" % (which, opn, is_value_native(other)))
        raise AnalysisError("condition outside the C12 abstraction: %s" % norm(e))

    def interp(name: str, st: _State) -> bool:
        parts = name.split(":")
        if parts[0] == "IS":
            kinds = set(parts[2].split(",")) if parts[2] else set()
            return (st.tk if parts[1] == "T" else st.vk) in kinds
        if parts[0] == "IS_INTEGER":
            return st.vk == "RAT_INT"
        if parts[0] == "ENC_FAIL":
            return not st.encodable
        if parts[0] in ("LENB", "LENC", "ORD"):
            import operator as _op

            if parts[0] == "ORD" and st.code is None:
                return False  # ord() of a non-single-character string is never reached on a feasible path
            lhs = st.utf8_len if parts[0] == "LENB" else st.chars if parts[0] == "LENC" else st.code
            f = {"Eq": _op.eq, "NotEq": _op.ne, "Lt": _op.lt, "LtE": _op.le, "Gt": _op.gt, "GtE": _op.ge}.get(parts[1])
            if f is None:
                _bad(name)
            return f(lhs, int(parts[2]))
        if parts[0] == "BITLEN":
            if int(parts[2]) != 8:
                _bad(name)
            is8 = st.tk in ("UINT8", "SINT8")
            if parts[1] == "Eq":
                return is8
            if parts[1] == "NotEq":
                return not is8
            _bad(name)
        if parts[0] == "RNG":
            which, op = parts[1], parts[2]
            # position of the value relative to bound `which`: cmp(bound, value)
            order = POSITIONS.index(st.pos)
            if len(parts) > 3 and parts[3] == "converted":
                # the value is the code point of the character; the type (on accepting paths) is uint8: [0, 255]
                c = st.code if st.code is not None else 0
                order = 1 if c == 0 else 3 if c == 255 else 2 if c < 255 else 4
            b = 1 if which == "min" else 3
            # bound ? value
            if op == "LtE":
                return b <= order
            if op == "Lt":
                return b < order
            if op == "GtE":
                return b >= order
            if op == "Gt":
                return b > order
            if op == "Eq":
                return b == order
            if op == "NotEq":
                return b != order
        _bad(name)
        return False

    def _bad(name: str) -> Any:
        raise AnalysisError("atom %s has no interpretation in the C12 domain" % name)

    # formulas per path
    pf = []
    for p in paths:
        if p.kind not in ("raise", "fall", "return"):
            raise AnalysisError("unexpected path kind %s in Constant.__init__" % p.kind)
        pf.append((p, path_formula(p, atomize)))

    def spec_accept(st: _State) -> bool:
        in_range = st.pos in ("AT_MIN", "INSIDE", "AT_MAX")
        if st.tk == "BOOL":
            return st.vk == "BOOLEAN"
        if st.tk in ("UINT8", "UINT_OTHER", "SINT8", "SINT_OTHER"):
            if st.vk == "RAT_INT":
                return in_range
            if st.code is not None and st.tk == "UINT8":
                return st.code <= 0x7F  # exactly one ASCII character
            return False
        if st.tk == "FLOAT":
            return st.vk in ("RAT_INT", "RAT_FRAC") and in_range
        return False

    mismatches = []
    stored_ok = True
    stored_detail = []
    exc_bad = []
    n_states = 0
    for tk in TYPE_KINDS:
        for vk in VALUE_KINDS:
            for pos in POSITIONS:
                st = _State(tk, vk, pos)
                n_states += 1
                atoms_cache: Dict[str, bool] = {}

                class V(dict):
                    def __contains__(self, k: object) -> bool:
                        return True

                    def __getitem__(self, k: str) -> bool:
                        if k not in atoms_cache:
                            atoms_cache[k] = interp(k, st)
                        return atoms_cache[k]

                taken = [p for p, f in pf if f_eval(f, V())]
                ctx.count()
                if len(taken) != 1:
                    raise AnalysisError("Constant.__init__: %d paths feasible for abstract state %s/%s/%s (extractor not deterministic)" % (len(taken), tk, vk, pos))
                p = taken[0]
                accepted = p.kind != "raise"
                if accepted != spec_accept(st):
                    mismatches.append({"type": tk, "value": vk, "range_position": pos, "found": "accept" if accepted else "reject", "expected": "accept" if spec_accept(st) else "reject"})
                if not accepted:
                    target = p.value.func if isinstance(p.value, ast.Call) else p.value
                    k = repo.resolve_expr(init.module, target, cc) if target is not None else None
                    if not (isinstance(k, ClassInfo) and repo.is_subclass(k, "_error.InvalidDefinitionError")):
                        exc_bad.append({"state": [tk, vk, pos], "raises": unparse(p.value)})
                else:
                    sv = p.env.get("self._value")
                    svs = norm(sv) if sv is not None else "<unset>"
                    if vk.startswith("STR"):
                        good = isinstance(sv, ast.Call) and (norm(sv).replace(" ", "").endswith("Rational(ord(value.native_value.encode('utf8')))") or norm(sv).replace(" ", "").endswith("Rational(ord(value.native_value))"))
                    else:
                        good = svs == "value"
                    if not good:
                        stored_ok = False
                        stored_detail.append({"state": [tk, vk, pos], "stored": svs})
    ctx.analysed["C12.R1.abstract_states"] = n_states
    ctx.check(not mismatches, init.short, "acceptance table", "acceptance must equal the Specification on all %d abstract states" % n_states, init.where(), mismatches[:6])
    ctx.check(not exc_bad, init.short, "rejection class", "every rejection must be an InvalidDefinitionError subclass", init.where(), exc_bad[:4], rule="C12.R1")
    ctx.rule("C12.R4", "the stored value is the initializer itself or Rational(ord(<the single byte>)) - never converted/rounded")
    ctx.check(stored_ok, init.short, "self._value provenance", "stored constant value must be the initializer object or the code point of the 1-byte string", init.where(), stored_detail[:4])
    # no lossy conversion anywhere in the constructor or the accessor
    lossy = []
    for fn in (init, cc.methods.get("value")):
        if fn is None:
            raise AnalysisError("Constant.value accessor not found")
        for c in calls_in(fn.node):
            n = dotted(c.func)
            if n in ("float", "round", "int", "math.floor", "math.ceil", "math.trunc"):
                lossy.append("%s in %s" % (norm(c), fn.short))
    ctx.check(not lossy, init.short, "no float()/round()/int()", "no lossy numeric conversion may touch a constant's value", init.where(), lossy)
    acc = cc.methods.get("value")
    rex = _single_return(ctx, acc)
    ctx.check(norm(rex) == "self._value", acc.short, norm(rex), "Constant.value must return the stored value", acc.where())
    ctx.sample({"rule": "C12.R1", "paths": len(paths), "abstract_states": n_states, "example": "UINT8 x STR1_7F -> accept, stored Rational(ord(bytes)); UINT8 x STR1_80 -> reject"})


def run(ctx: Ctx) -> None:
    ctx.attempt(rule_r2, ctx)
    ctx.attempt(rule_r1, ctx)
    ctx.assume("fractions.Fraction arithmetic is exact (trusted stdlib)")
    ctx.assume("assert statements in Constant.__init__ are beliefs, not guards (python -O removes them)")
    ctx.analysed["modules"] = [ATTR, PRIM]
