"""
C12 -- Constants are always compliant with their declared type.

The constructors involved (the primitive types, the expression values, Constant) are *abstractly evaluated* from their own
source over a finite family of representatives that covers every combination the Specification distinguishes:

R1  acceptance table of Constant.__init__ over (type kind x value kind x position relative to the type's range, strings by
    boundary code points); every rejection is an InvalidDefinitionError.
R2  inclusive_value_range of every integer width and of the three float formats, compared exactly (Fractions); FloatType
    accepts exactly the widths {16, 32, 64}.
R3  the range guard is the closed interval (part of R1's domain: at-min / at-max positions are accepted).
R4  value identity: the stored value is the initializer object itself or Rational(code point of the single character).
"""
from __future__ import annotations

import ast
from fractions import Fraction
from typing import Any, Dict, List, Optional, Tuple

from ..absint import AObj, Raised, construct, ctor_hook, module_call_hook
from ..core import AnalysisError, ClassInfo, Ctx, norm
from ..fold import Folder, Sym, Unfoldable
from .c05 import enum_hook

ATTR = "_serializable._attribute"
PRIM = "_serializable._primitive"
EXPR = "_expression._primitive"
SAT = "CastMode.SATURATED"


def _hook(ctx: Ctx, mod: Any) -> Any:
    log: List[Any] = []
    return ctor_hook(ctx, module_call_hook(ctx, mod, [], log, results={"check_name": None}, record=["check_name"], base_hook=enum_hook(ctx, mod, None)))


def _new(ctx: Ctx, cls: ClassInfo, *args: Any) -> Any:
    """the abstract instance, or the name of the exception its constructor raises"""
    try:
        return construct(ctx, cls, *args, hook=_hook(ctx, cls.module))
    except Raised as r:
        return r.cls_name
    except Unfoldable as ex:
        raise AnalysisError("cannot evaluate the constructor of %s over abstract arguments: %s" % (cls.name, ex))


def _get(ctx: Ctx, obj: Any, attr: str) -> Any:
    try:
        return Folder({"o": obj}, ctx.repo, obj._cls_.module, obj._cls_, _hook(ctx, obj._cls_.module)).fold(ast.parse("o." + attr, mode="eval").body)
    except Raised as r:
        return "raise " + r.cls_name
    except Unfoldable as ex:
        raise AnalysisError("cannot evaluate %s.%s: %s" % (obj._cls_.name, attr, ex))


def _is_ide(ctx: Ctx, name: str) -> bool:
    k = next((c for c in ctx.repo.all_classes().values() if c.name == name), None)
    return k is not None and ctx.repo.is_subclass(k, "_error.InvalidDefinitionError")


def rule_r2(ctx: Ctx) -> None:
    ctx.rule("C12.R2", "inclusive_value_range is (-2**(n-1), 2**(n-1)-1) for int n=2..64, (0, 2**n-1) for uint n=1..64, +-(2-2**-p)*2**emax for float16/32/64; FloatType accepts exactly the widths {16,32,64}", min_instances=3)
    sc, uc, fc = (ctx.cls(PRIM + "." + n) for n in ("SignedIntegerType", "UnsignedIntegerType", "FloatType"))
    for c, lo_n, want_f in ((sc, 2, lambda n: (Fraction(-(2 ** (n - 1))), Fraction(2 ** (n - 1) - 1))), (uc, 1, lambda n: (Fraction(0), Fraction(2**n - 1)))):
        bad = []
        for n in range(lo_n, 65):
            t = _new(ctx, c, n, SAT)
            ctx.count()
            if not isinstance(t, AObj):
                bad.append({"n": n, "found": "constructor raised %s" % t})
                continue
            got = _get(ctx, t, "inclusive_value_range")
            want = want_f(n)
            if not (isinstance(got, tuple) and len(got) == 2 and all(isinstance(x, (int, Fraction)) and not isinstance(x, bool) for x in got) and tuple(map(Fraction, got)) == want):
                bad.append({"n": n, "found": [str(x) for x in got] if isinstance(got, tuple) else str(got), "expected": [str(x) for x in want]})
        fn = ctx.repo.lookup_method(c, "inclusive_value_range")
        ctx.check(not bad, c.short + ".inclusive_value_range", "%d widths" % (65 - lo_n), "the range table must equal the two's complement / unsigned limits for every width", fn.where() if fn else c.module.relpath, bad[:4])
    for sub in ctx.repo.subclasses(uc, strict=True) + ctx.repo.subclasses(sc, strict=True):
        if "inclusive_value_range" in sub.methods:
            ctx.fail(sub.short, "inclusive_value_range override", "an integer subclass overrides the range table", where=sub.module.relpath)
    # float
    spec = {16: (10, 15), 32: (23, 127), 64: (52, 1023)}
    want_mag = {n: (2 - Fraction(1, 2**p)) * 2**emax for n, (p, emax) in spec.items()}
    accepted: Dict[int, Any] = {}
    rejected: Dict[int, str] = {}
    for n in range(1, 65):
        t = _new(ctx, fc, n, SAT)
        ctx.count()
        if isinstance(t, AObj):
            accepted[n] = _get(ctx, t, "inclusive_value_range")
        else:
            rejected[n] = t
    detail: List[Any] = []
    if set(accepted) != set(want_mag):
        detail.append({"accepted_widths": sorted(accepted), "expected": sorted(want_mag)})
    for n in sorted(set(accepted) & set(want_mag)):
        got = accepted[n]
        if not (isinstance(got, tuple) and len(got) == 2 and all(isinstance(x, (int, Fraction)) for x in got) and tuple(map(Fraction, got)) == (-want_mag[n], want_mag[n])):
            detail.append({"n": n, "found": str(got), "expected": "+-" + str(want_mag[n])})
    init = fc.methods.get("__init__")
    where = init.where() if init else fc.module.relpath
    ctx.check(not detail, fc.short, "float range table", "the float range must be +-(the IEEE 754 largest finite value) for exactly {16,32,64}", where, detail)
    not_ide = sorted({v for v in rejected.values() if not _is_ide(ctx, v)})
    ctx.check(not not_ide and bool(rejected), fc.short + ".__init__", "unsupported widths -> %s" % sorted(set(rejected.values())), "an unsupported float width must be rejected with an InvalidDefinitionError", where, not_ide)
    ctx.sample({"rule": "C12.R2", "accepted_float_widths": sorted(accepted), "float16": str(accepted.get(16))})


# ------------------------------------------------------------------------------------------------ R1 / R3 / R4
# ... and single characters outside ASCII whose canonical / compatibility normal form is an ASCII character (KELVIN SIGN -> K,
# GREEK QUESTION MARK -> ;, GREEK VARIA -> `, FULLWIDTH A -> A, ROMAN NUMERAL ONE -> I): not ASCII, whatever they normalise to
STR1_CODES = [0x00, 0x41, 0x7F, 0x80, 0xFF, 0x100, 0x7FF, 0x800, 0xD800, 0xFFFF, 0x10FFFF, 0x212A, 0x037E, 0x1FEF, 0xFF21, 0x2160]


def rule_r1(ctx: Ctx) -> None:
    repo = ctx.repo
    ctx.rule("C12.R1", "Constant.__init__ accepts exactly (bool,Boolean), (integer, integer Rational in closed range), (uint8, 1-character ASCII String -> code point), (float, Rational in closed range); every rejection is an InvalidDefinitionError", min_instances=1)
    ctx.rule("C12.R4", "the stored value is the initializer itself or Rational(code point of the single character) - never converted/rounded")
    cc = ctx.cls(ATTR + ".Constant")
    init = cc.methods.get("__init__")
    if init is None:
        raise AnalysisError("Constant.__init__ not found")
    P = lambda n: ctx.cls(PRIM + "." + n)  # noqa: E731
    E = lambda n: ctx.cls(EXPR + "." + n)  # noqa: E731
    types: Dict[str, Any] = {
        "BOOL": _new(ctx, P("BooleanType")),
        "UINT8": _new(ctx, P("UnsignedIntegerType"), 8, SAT),
        "UINT_OTHER": _new(ctx, P("UnsignedIntegerType"), 16, SAT),
        "SINT8": _new(ctx, P("SignedIntegerType"), 8, SAT),
        "SINT_OTHER": _new(ctx, P("SignedIntegerType"), 16, SAT),
        "FLOAT": _new(ctx, P("FloatType"), 16, SAT),
        "OTHER": _new(ctx, ctx.cls("_serializable._void.VoidType"), 8),
    }
    for k, t in types.items():
        if not isinstance(t, AObj):
            raise AnalysisError("cannot build the abstract type %s: constructor raised %s" % (k, t))
    ranges = {k: (_get(ctx, t, "inclusive_value_range") if k not in ("BOOL", "OTHER") else None) for k, t in types.items()}

    def rational(v: Any) -> Any:
        return _new(ctx, E("Rational"), v)

    def values_for(tk: str) -> List[Tuple[str, str, Any]]:
        """(value kind, position, abstract value)"""
        out: List[Tuple[str, str, Any]] = [("BOOLEAN", "-", _new(ctx, E("Boolean"), True))]
        lo, hi = ranges[tk] if ranges.get(tk) else (Fraction(0), Fraction(255))
        for pos, v in (("BELOW", lo - 1), ("AT_MIN", lo), ("INSIDE", (lo + hi) // 2 if (lo + hi) % 2 == 0 else (lo + hi - 1) // 2), ("AT_MAX", hi), ("ABOVE", hi + 1)):
            out.append(("RAT_INT", pos, rational(Fraction(v))))
        for pos, v in (("BELOW", lo - Fraction(1, 2)), ("INSIDE", lo + Fraction(1, 2)), ("INSIDE", hi - Fraction(1, 2)), ("ABOVE", hi + Fraction(1, 2))):
            out.append(("RAT_FRAC", pos, rational(v)))
        for c in STR1_CODES:
            out.append(("STR1_%X" % c, "-", _new(ctx, E("String"), chr(c))))
        out.append(("STR_EMPTY", "-", _new(ctx, E("String"), "")))
        out.append(("STR_MULTI", "-", _new(ctx, E("String"), "ab")))
        out.append(("NONPRIM", "-", Sym(_isa_=frozenset({"Set", "Container", "Any"}), _kind_="Set")))
        return out

    def spec_accept(tk: str, vk: str, pos: str) -> bool:
        in_range = pos in ("AT_MIN", "INSIDE", "AT_MAX")
        if tk == "BOOL":
            return vk == "BOOLEAN"
        if tk in ("UINT8", "UINT_OTHER", "SINT8", "SINT_OTHER"):
            if vk == "RAT_INT":
                return in_range
            if vk.startswith("STR1_") and tk == "UINT8":
                return int(vk.split("_")[1], 16) <= 0x7F  # exactly one ASCII character
            return False
        if tk == "FLOAT":
            return vk in ("RAT_INT", "RAT_FRAC") and in_range
        return False

    mismatches, exc_bad, stored_bad = [], [], []
    n_states = 0
    for tk, t in types.items():
        for vk, pos, v in values_for(tk):
            if not isinstance(v, (AObj, Sym)):
                raise AnalysisError("cannot build the abstract value %s: constructor raised %s" % (vk, v))
            n_states += 1
            ctx.count()
            c = _new(ctx, cc, t, "X", v)
            accepted = isinstance(c, AObj)
            want = spec_accept(tk, vk, pos)
            if accepted != want:
                mismatches.append({"type": tk, "value": vk, "range_position": pos, "found": "accept" if accepted else "reject (%s)" % c, "expected": "accept" if want else "reject"})
                continue
            if not accepted:
                if not _is_ide(ctx, c):
                    exc_bad.append({"state": [tk, vk, pos], "raises": c})
                continue
            stored = _get(ctx, c, "value")
            if vk.startswith("STR1_"):
                code = int(vk.split("_")[1], 16)
                good = isinstance(stored, AObj) and stored._cls_.name == "Rational" and _get(ctx, stored, "native_value") == code
            else:
                good = stored is v
            if not good:
                stored_bad.append({"state": [tk, vk, pos], "stored": repr(stored)[:80]})
    ctx.analysed["C12.R1.abstract_states"] = n_states
    ctx.check(not mismatches, init.short, "acceptance table", "acceptance must equal the Specification on all %d abstract states" % n_states, init.where(), mismatches[:6], rule="C12.R1")
    ctx.check(not exc_bad, init.short, "rejection class", "every rejection must be an InvalidDefinitionError subclass", init.where(), exc_bad[:4], rule="C12.R1")
    ctx.check(not stored_bad, init.short, "self._value provenance", "the stored constant value must be the initializer object or the code point of the single character", init.where(), stored_bad[:4], rule="C12.R4")
    ctx.sample({"rule": "C12.R1", "abstract_states": n_states, "example": "UINT8 x STR1_7F -> accept, stored Rational(0x7F); UINT8 x STR1_80 -> reject"})


def rule_r5_concrete(ctx: Ctx) -> None:
    """R1 / R4 decide the acceptance predicate over abstract states.  This rule constructs concrete constants - real type
    objects, real expression values, the real constructor, all evaluated from the source - on both sides of every boundary
    and compares acceptance and the stored value with the rule written down independently here."""
    from fractions import Fraction

    from ..absint import Raised, construct
    from ..fold import Folder, Unfoldable
    from . import concrete as C

    ctx.rule("C12.R5", "concrete constants built by evaluation of Constant.__init__ over real type objects and expression values, on both sides of every range boundary (all widths 1..64 for the bounds, a sample for the rest): accepted exactly when compliant, rejected with an InvalidDefinitionError, and the stored value is the initializer (the code point for a character) [bounded grid]", min_instances=3)
    T = C.Types(ctx)
    E = "_expression._primitive."
    const = ctx.cls("_serializable._attribute.Constant")
    ide = ctx.cls("_error.InvalidDefinitionError")

    def val(kind: str, v: Any) -> Any:
        k = ctx.cls(E + kind)
        try:
            return construct(ctx, k, v, hook=T.hook_for(k))
        except (Raised, Unfoldable) as ex:
            raise AnalysisError("%s(%r) cannot be constructed: %s" % (kind, v, ex))

    def native(x: Any) -> Any:
        try:
            return Folder({"x": x}, ctx.repo, const.module, None, T.hook_for(const)).fold(ast.parse("x.native_value", mode="eval").body)
        except (Raised, Unfoldable) as ex:
            raise AnalysisError("native_value of a constructed %s cannot be evaluated: %s" % (x._cls_.name, ex))

    FMAX = {16: Fraction(65504), 32: (2 - Fraction(1, 2**23)) * 2**127, 64: (2 - Fraction(1, 2**52)) * 2**1023}
    cases: List[Tuple[str, Any, Any, Any]] = []  # (label, type, value object, expected stored native value or None for rejection)
    R = lambda q: val("Rational", Fraction(q))  # noqa: E731
    full = ctx.tier == "thorough"
    widths = range(1, 65) if full else (1, 2, 3, 7, 8, 9, 16, 31, 32, 33, 63, 64)
    for n in widths:
        for sat in (False, True):
            t = T.uint(n, sat)
            for q in (-1, 0, 1, 2**n - 1, 2**n, Fraction(1, 2)):
                ok = q == int(q) and 0 <= q <= 2**n - 1
                cases.append(("%s = %s" % (t.label, q), t, R(q), Fraction(q) if ok else None))
        if n >= 2:
            t = T.sint(n)
            for q in (-(2 ** (n - 1)) - 1, -(2 ** (n - 1)), -1, 0, 2 ** (n - 1) - 1, 2 ** (n - 1), Fraction(-3, 2)):
                ok = q == int(q) and -(2 ** (n - 1)) <= q <= 2 ** (n - 1) - 1
                cases.append(("%s = %s" % (t.label, q), t, R(q), Fraction(q) if ok else None))
    for n in (16, 32, 64):
        t = T.float_(n)
        for q in (0, Fraction(1, 3), FMAX[n], -FMAX[n], FMAX[n] + Fraction(1, 10**6), -FMAX[n] - 1, FMAX[n] * 2):
            cases.append(("%s = %s" % (t.label, "%s%s" % ("" if abs(q) < 10**6 else "about ", float(q) if n < 64 or abs(q) < FMAX[64] else "2*max")), t, R(q), Fraction(q) if abs(q) <= FMAX[n] else None))
        cases.append(("%s = true" % t.label, t, val("Boolean", True), None))
        cases.append(("%s = 'a'" % t.label, t, val("String", "a"), None))
    b = T.boolean()
    cases += [("bool = true", b, val("Boolean", True), True), ("bool = false", b, val("Boolean", False), False), ("bool = 1", b, R(1), None), ("bool = 'a'", b, val("String", "a"), None)]
    u8, u8s, u7, u16, i8 = T.uint(8), T.uint(8, True), T.uint(7), T.uint(16), T.sint(8)
    for t in (u8, u8s):
        cases += [("%s = 'a'" % t.label, t, val("String", "a"), Fraction(97)), ("%s = '~'" % t.label, t, val("String", "~"), Fraction(126)), ("%s = ''" % t.label, t, val("String", ""), None),
                  ("%s = 'ab'" % t.label, t, val("String", "ab"), None), ("%s = 'e-acute'" % t.label, t, val("String", "\u00e9"), None), ("%s = NUL" % t.label, t, val("String", "\x00"), Fraction(0)),
                  ("%s = true" % t.label, t, val("Boolean", True), None)]
    for t in (u7, u16, i8):
        cases.append(("%s = 'a'" % t.label, t, val("String", "a"), None))
    inner = T.struct("Inner {uint8 p}", [("p", u8)])
    for t in (T.void(8), T.varr(u8, 2), T.farr(u8, 2), inner):
        cases.append(("%s = 1" % t.label, t, R(1), None))
    bad_acc, bad_cls, bad_val = [], [], []
    for label, t, v, want in cases:
        got: Any
        try:
            o = construct(ctx, const, t.obj, "K", v, hook=T.hook_for(const))
            got = native(Folder({"o": o}, ctx.repo, const.module, None, T.hook_for(const)).fold(ast.parse("o.value", mode="eval").body))
            accepted = True
        except Raised as r:
            accepted, got = False, r.cls_name
        except Unfoldable as ex:
            raise AnalysisError("Constant(%s) cannot be evaluated: %s" % (label, ex))
        ctx.count()
        if accepted != (want is not None):
            bad_acc.append({"constant": label, "found": "accepted" if accepted else "rejected (%s)" % got, "expected": "accepted" if want is not None else "rejected"})
        elif accepted and not (got == want and type(got) is type(want) or (isinstance(want, Fraction) and isinstance(got, (int, Fraction)) and not isinstance(got, bool) and got == want)):
            bad_val.append({"constant": label, "stored": repr(got), "expected": repr(want)})
        elif not accepted:
            k = next((k for k in ctx.repo.all_classes().values() if k.name == got), None)
            if k is None or not ctx.repo.is_subclass(k, ide):
                bad_cls.append({"constant": label, "raised": got})
    where = const.methods["__init__"].where() if "__init__" in const.methods else const.module.relpath
    ctx.check(not bad_acc, const.short + ".__init__", "%d concrete (type, initializer) pairs: accepted exactly when compliant" % len(cases), "a constant initializer is accepted if and only if it complies with its type", where, bad_acc[:5])
    ctx.check(not bad_val, const.short + ".value", "stored values of the accepted ones", "the stored value is the initializer, exactly (the code point for a character)", where, bad_val[:5])
    ctx.check(not bad_cls, const.short + ".__init__", "rejection classes", "every rejection is an InvalidDefinitionError", where, bad_cls[:5])


def run(ctx: Ctx) -> None:
    ctx.attempt(rule_r2, ctx)
    ctx.attempt(rule_r1, ctx)
    ctx.attempt(rule_r5_concrete, ctx)
    from . import c12text

    c12text.run(ctx)
    ctx.assume("fractions.Fraction arithmetic is exact (trusted stdlib)")
    ctx.assume("assert statements in Constant.__init__ are beliefs, not guards (python -O removes them)")
    ctx.analysed["modules"] = [ATTR, PRIM]
