"""
C10 -- Namespace reading is complete, ordered and deterministic.

R1  order taint: values of unordered kind (sets, set comprehensions, rglob results) pass through sorted()/file_sort before
    they flow into a return value or drive an order-sensitive loop; order-insensitive consumers are sanitisers.
R2  ordering key: (full_name ascending, major descending, minor descending), no reverse flag.
R3  enumeration scope: read_namespace targets come from a recursive glob of both suffixes over exactly the root namespace
    directory, and only `.direct` is returned; read_files returns (direct, transitive).
R4  direct/transitive automaton extracted from the reader loop: sets stay disjoint, a requested file ends direct
    (promotion), nothing is demoted, everything read at level > 0 and not requested ends transitive.
R5  path normalisation: directory arguments are resolved before de-duplication and comparison.
R6  nested / colliding roots: FAIL <=> not SAMEFILE and ((not ALLOW and NAME_CI_EQ) or IS_RELATIVE) over all ordered pairs;
    both failures are InvalidDefinitionErrors.
"""
from __future__ import annotations

import ast
from typing import Any, Dict, List, Optional, Set, Tuple

from ..core import AnalysisError, ClassInfo, Ctx, FuncInfo, body_without_docstring, calls_in, dotted, norm, parents_map, walk_no_nested
from ..decide import A, PathEnumerator, f_and, f_atoms, f_eval, f_not, f_or, path_formula, paths_of, valuations
from ..fold import Folder
from ..regions import exc_class_of

MODS = ("pydsdl._namespace", "pydsdl._namespace_reader", "pydsdl._dsdl", "pydsdl._dsdl_definition")
SORTERS = {"sorted", "dsdl_file_sort", "file_sort"}
INSENSITIVE = {"set", "frozenset", "len", "min", "max", "any", "all", "sum", "bool", "isinstance"}
COMMUTATIVE_METHODS = {"add", "discard", "update", "remove"}
LOG_PREFIXES = ("_logger.", "logging.")
# existence tests over an unordered collection whose *outcome* (raise or not) is order-independent; which of several
# failures is reported first is not part of the property
EXISTENCE_OK = {
    ("_namespace._ensure_no_namespace_name_collisions_or_nested_root_namespaces", "directories"): "next(filter(check, pairs), None) only decides whether some pair fails; rejection itself does not depend on the order",
}


UNORDERED_HELPERS: Set[str] = set()
PURE_PATH_METHODS = {"relative_to", "samefile", "is_relative_to", "resolve", "exists", "is_dir", "is_file", "lower", "upper", "startswith", "endswith"}


def _is_unordered_expr(e: ast.AST, tainted: Set[str]) -> bool:
    if isinstance(e, (ast.Set, ast.SetComp)):
        return True
    if isinstance(e, ast.Call):
        n = dotted(e.func) or ""
        if n in ("set", "frozenset"):
            return True
        if n.split(".")[-1] in UNORDERED_HELPERS:
            return True  # a private helper that hands back an unordered collection: the caller has to sort
        if isinstance(e.func, ast.Attribute) and e.func.attr in ("rglob", "glob", "iterdir"):
            return True
        if n in ("list", "tuple", "iter", "reversed", "itertools.chain", "chain", "filter", "map", "enumerate", "zip", "product", "itertools.product") and e.args:
            return any(_is_unordered_expr(a, tainted) for a in e.args)
        if isinstance(e.func, ast.Attribute) and e.func.attr in ("values", "keys", "items"):
            return False
    if isinstance(e, (ast.ListComp, ast.GeneratorExp)):
        return any(_is_unordered_expr(g.iter, tainted) for g in e.generators)
    if isinstance(e, ast.Name):
        return e.id in tainted
    if isinstance(e, ast.BinOp) and isinstance(e.op, ast.Add):
        return _is_unordered_expr(e.left, tainted) or _is_unordered_expr(e.right, tainted)
    if isinstance(e, ast.Subscript):
        return _is_unordered_expr(e.value, tainted)
    return False


def _annot_is_set(a: Optional[ast.AST]) -> bool:
    if a is None:
        return False
    s = norm(a)
    return s.startswith("set[") or s.startswith("Set[") or s.startswith("typing.Set[") or s == "set"


def rule_r1(ctx: Ctx) -> None:
    repo = ctx.repo
    ctx.rule("C10.R1", "order taint: unordered collections (sets, rglob results) are sorted before they are returned or drive an order-sensitive loop", min_instances=4)
    _LOG_ONLY.clear()
    _LOG_ONLY.update(_find_log_only(ctx.repo))
    UNORDERED_HELPERS.clear()
    scope = set(repo.with_satellites(MODS))
    funcs = [_loops_normalised(f) for f in repo.all_functions().values() if f.module.name in scope]
    # interprocedural seed: parameters that receive unordered arguments
    tainted_params: Dict[str, Set[str]] = {}
    results: List[Tuple[FuncInfo, str, bool, str, ast.AST]] = []
    n_sources = 0
    for _ in range(3):
        results = []
        n_sources = 0
        for fn in funcs:
            if fn.name in _LOG_ONLY and fn.cls is None:
                continue  # computes log text only: no result depends on it
            tainted: Set[str] = set(tainted_params.get(fn.qualname, set()))
            for a in fn.node.args.args + fn.node.args.kwonlyargs:
                if _annot_is_set(a.annotation):
                    tainted.add(a.arg)
            # nested functions see the taint of their definer's locals
            if fn.parent is not None:
                tainted |= {t for t in _locals_tainted(fn.parent, tainted_params)}
            tainted |= _locals_tainted(fn, tainted_params, seed=tainted)
            n_sources += len(tainted)
            pm = parents_map(fn.node)
            for n in walk_no_nested(fn.node):
                # uses of unordered values
                if isinstance(n, ast.Return) and n.value is not None:
                    vals = [n.value]
                    if isinstance(n.value, ast.Call) and not (dotted(n.value.func) in SORTERS):
                        vals = list(n.value.args) + [k.value for k in n.value.keywords] if (dotted(n.value.func) or "").split(".")[-1][:1].isupper() or dotted(n.value.func) in ("list", "tuple") else [n.value]
                    if isinstance(n.value, ast.Tuple):
                        vals = list(n.value.elts)
                    for v in vals:
                        if _is_unordered_expr(v, tainted) and not _sorted_wrapped(v):
                            if fn.name.startswith("_") and not fn.name.startswith("__") and fn.cls is None and len(vals) == 1:
                                # a private helper: its callers are judged instead (the call is an unordered expression)
                                if fn.name not in UNORDERED_HELPERS:
                                    UNORDERED_HELPERS.add(fn.name)
                                results.append((fn, "return %s" % norm(v)[:60], True, "private helper returning an unordered collection: every caller is checked for sorting", n))
                            else:
                                results.append((fn, "return %s" % norm(v)[:60], False, "an unordered collection is returned without sorting", n))
                        elif _is_unordered_expr(_strip_sort(v), tainted):
                            results.append((fn, "return %s" % norm(v)[:60], True, "sorted before being returned", n))
                if isinstance(n, ast.For) and _is_unordered_expr(n.iter, tainted) and not _sorted_wrapped(n.iter):
                    ok, why = _loop_is_commutative(n, search_result=_is_rejection_search(repo, fn), generator_consumers_unordered=_generator_feeds_unordered_consumers(repo, fn))
                    key = (fn.short, norm(n.iter))
                    results.append((fn, "for %s in %s" % (norm(n.target), norm(n.iter)[:50]), ok, why, n))
                if isinstance(n, ast.Call):
                    name = dotted(n.func) or ""
                    # passing an unordered value to a repository function taints that parameter
                    r = repo.resolve_expr(fn.module, n.func, fn.cls) if isinstance(n.func, (ast.Name, ast.Attribute)) else None
                    if isinstance(r, FuncInfo):
                        params = r.params[1:] if (r.cls is not None and not r.is_static) else r.params
                        for i, a in enumerate(n.args):
                            if i < len(params) and _is_unordered_expr(a, tainted) and not _sorted_wrapped(a):
                                tainted_params.setdefault(r.qualname, set()).add(params[i])
                        for k in n.keywords:
                            if k.arg and _is_unordered_expr(k.value, tainted) and not _sorted_wrapped(k.value):
                                tainted_params.setdefault(r.qualname, set()).add(k.arg)
                    # first element of an unordered collection
                    if name == "next" and n.args and _is_unordered_expr(n.args[0], tainted):
                        ex = [why for (suffix, var), why in EXISTENCE_OK.items() if fn.short.endswith(suffix.split(".", 1)[1]) or fn.short == suffix]
                        results.append((fn, norm(n)[:70], bool(ex), ex[0] if ex else "the first element of an unordered collection is order dependent", n))
                if isinstance(n, ast.Subscript) and isinstance(n.slice, ast.Constant) and _is_unordered_expr(n.value, tainted) and not _in_logging(n, pm):
                    results.append((fn, norm(n)[:70], False, "indexing into an unordered collection is order dependent", n))
    seen = set()
    for fn, key, ok, why, node in results:
        k = (fn.short, key)
        if k in seen:
            continue
        seen.add(k)
        ctx.check(ok, fn.short, key, why if ok else "results must not depend on set / file-system enumeration order: " + why, fn.where(node))
    ctx.analysed["C10.R1.tainted_names"] = n_sources


def _call_sites_of(repo: Any, fn: FuncInfo) -> List[Tuple[FuncInfo, ast.Call]]:
    out = []
    for other in repo.all_functions().values():
        for c in ast.walk(other.node):
            if isinstance(c, ast.Call) and isinstance(c.func, (ast.Name, ast.Attribute)) and (dotted(c.func) or "").split(".")[-1] == fn.name:
                try:
                    r = repo.resolve_expr(other.module, c.func, other.cls)
                except Exception:
                    r = None
                if r is fn or (r is None and isinstance(c.func, ast.Attribute) and isinstance(c.func.value, ast.Name) and c.func.value.id in ("self", "cls") and other.cls is not None and repo.lookup_method(other.cls, fn.name) is fn):
                    out.append((other, c))
    return out


def _is_rejection_search(repo: Any, fn: FuncInfo) -> bool:
    """fn is a private helper that looks for an offending element and returns it (or None); every caller turns a hit into a
    raise: the outcome - rejected or not - does not depend on the order in which the elements are visited"""
    if not fn.name.startswith("_") or fn.name.startswith("__"):
        return False
    from ..core import parents_map

    sites = _call_sites_of(repo, fn)
    if not sites:
        return False
    for other, c in sites:
        pm = parents_map(other.node)
        par = pm.get(c)
        # x = helper(...); if x is None: return ...; raise ...   |   if helper(...) ...: raise
        name = None
        if isinstance(par, ast.Assign) and len(par.targets) == 1 and isinstance(par.targets[0], ast.Name):
            name = par.targets[0].id
        elif isinstance(par, ast.NamedExpr) and isinstance(par.target, ast.Name):
            name = par.target.id
        if name is None:
            return False
        raises = [r for r in ast.walk(other.node) if isinstance(r, ast.Raise)]
        uses_ok = all(True for _ in [0])
        if not raises:
            return False
        # the value is only tested against None and used to build the error
        for u in ast.walk(other.node):
            if isinstance(u, ast.Return) and u.value is not None and any(isinstance(x, ast.Name) and x.id == name for x in ast.walk(u.value)):
                return False
        if not uses_ok:
            return False
    return True


def _generator_feeds_unordered_consumers(repo: Any, fn: FuncInfo) -> bool:
    """fn is a generator and every call of it is the argument of set(...) / frozenset(...) / sorted(...) / a set comprehension or is
    iterated by a loop that only adds to a set"""
    if not any(isinstance(n, (ast.Yield, ast.YieldFrom)) for n in walk_no_nested(fn.node)):
        return False
    from ..core import parents_map

    sites = list(_call_sites_of(repo, fn))
    # the generator handed to map() as a function: the map expression stands for (a sequence of) its calls
    for other in repo.all_functions().values():
        for m_ in ast.walk(other.node):
            if isinstance(m_, ast.Call) and dotted(m_.func) == "map" and m_.args and isinstance(m_.args[0], (ast.Name, ast.Attribute)) and (dotted(m_.args[0]) or "").split(".")[-1] == fn.name:
                try:
                    r_ = repo.resolve_expr(other.module, m_.args[0], other.cls)
                except Exception:
                    r_ = None
                if r_ is fn:
                    sites.append((other, m_))
    # any other reference to the function (stored, passed on) is a use this rule cannot follow
    if not sites:
        return False
    for other, c in sites:
        pm = parents_map(other.node)
        # wrappers that hand the elements on in the order they come
        for _ in range(4):
            up = pm.get(c)
            if isinstance(up, ast.Call) and c in up.args and (dotted(up.func) or "") in ("itertools.chain.from_iterable", "chain.from_iterable", "itertools.chain", "chain", "iter", "filter", "itertools.filterfalse", "filterfalse"):
                c = up
            elif isinstance(up, ast.Starred) and isinstance(pm.get(up), ast.Call) and (dotted(pm[up].func) or "") in ("itertools.chain", "chain"):
                c = pm[up]
            else:
                break
        par = pm.get(c)
        if isinstance(par, ast.Call) and (dotted(par.func) in ("set", "frozenset") or dotted(par.func) in SORTERS) and c in par.args:
            continue
        if isinstance(par, ast.Call) and c in par.args and isinstance(par.func, ast.Attribute) and par.func.attr in ("update", "union", "intersection_update", "difference_update", "symmetric_difference_update", "issubset", "issuperset", "isdisjoint") and isinstance(par.func.value, ast.Name):
            # poured into a local that is a set (bound to set() / a set display / a set comprehension, or annotated as one)
            nm = par.func.value.id
            binds = [st for st in ast.walk(other.node) if (isinstance(st, ast.Assign) and any(isinstance(t, ast.Name) and t.id == nm for t in st.targets)) or (isinstance(st, ast.AnnAssign) and isinstance(st.target, ast.Name) and st.target.id == nm)]

            def is_set(st: ast.AST) -> bool:
                v = getattr(st, "value", None)
                ann = norm(st.annotation) if isinstance(st, ast.AnnAssign) else ""
                return isinstance(v, (ast.Set, ast.SetComp)) or (isinstance(v, ast.Call) and dotted(v.func) in ("set", "frozenset")) or "set[" in ann.lower() or ann.lower() in ("set", "typing.set")

            if binds and all(is_set(st) for st in binds):
                continue
        if isinstance(par, ast.comprehension):
            comp = pm.get(par)
            if isinstance(comp, ast.SetComp):
                continue
            if isinstance(comp, (ast.GeneratorExp, ast.ListComp)):
                outer = pm.get(comp)
                if isinstance(outer, ast.Call) and (dotted(outer.func) in ("set", "frozenset") or dotted(outer.func) in SORTERS):
                    continue
        if isinstance(par, ast.For) and par.iter is c:
            if all(isinstance(s_, ast.Expr) and isinstance(s_.value, ast.Call) and isinstance(s_.value.func, ast.Attribute) and s_.value.func.attr in ("add", "update", "discard") for s_ in par.body):
                continue
            ok, _why = _loop_is_commutative(par)
            if ok:
                continue
        return False
    return True


def _locals_tainted(fn: FuncInfo, tainted_params: Dict[str, Set[str]], seed: Optional[Set[str]] = None) -> Set[str]:
    tainted: Set[str] = set(seed or set()) | set(tainted_params.get(fn.qualname, set()))
    for _ in range(3):
        for st in walk_no_nested(fn.node):
            tgt = val = ann = None
            if isinstance(st, ast.Assign) and len(st.targets) == 1 and isinstance(st.targets[0], ast.Name):
                tgt, val = st.targets[0].id, st.value
            elif isinstance(st, ast.AnnAssign) and isinstance(st.target, ast.Name):
                tgt, val, ann = st.target.id, st.value, st.annotation
            if isinstance(st, ast.For) and _is_unordered_expr(st.iter, tainted) and not _sorted_wrapped(st.iter):
                # a local list filled while walking an unordered collection holds its elements in that (arbitrary) order
                for c in ast.walk(st):
                    if isinstance(c, ast.Call) and isinstance(c.func, ast.Attribute) and c.func.attr in ("append", "extend") and isinstance(c.func.value, ast.Name):
                        tainted.add(c.func.value.id)
            if tgt is None:
                continue
            if _annot_is_set(ann) or (val is not None and _is_unordered_expr(val, tainted) and not _sorted_wrapped(val)):
                tainted.add(tgt)
            elif val is not None and _sorted_wrapped(val) and tgt in tainted and sum(1 for s2 in walk_no_nested(fn.node) if isinstance(s2, ast.Assign) and any(isinstance(t, ast.Name) and t.id == tgt for t in s2.targets)) == 1:
                tainted.discard(tgt)
    return tainted


def _strip_sort(e: ast.AST) -> ast.AST:
    while isinstance(e, ast.Call) and (dotted(e.func) in SORTERS or dotted(e.func) in ("list",)) and e.args:
        e = e.args[0]
    return e


def _sorted_wrapped(e: ast.AST) -> bool:
    cur = e
    while isinstance(cur, ast.Call) and dotted(cur.func) in ("list", "tuple") and cur.args:
        cur = cur.args[0]
    return isinstance(cur, ast.Call) and dotted(cur.func) in SORTERS


def _in_logging(n: ast.AST, pm: Dict[ast.AST, ast.AST]) -> bool:
    cur = n
    while cur in pm:
        cur = pm[cur]
        if isinstance(cur, ast.Call) and (dotted(cur.func) or "").startswith(LOG_PREFIXES):
            return True
    return False


_LOG_ONLY: Set[str] = set()  # functions of the repository whose whole body is logging calls (filled by rule_r1 for the tree analysed)


def _find_log_only(repo: Any) -> Set[str]:
    out = set()
    for fn in repo.all_functions().values():
        body = body_without_docstring(fn.node)
        if body and all(isinstance(st, ast.Expr) and isinstance(st.value, ast.Call) and (dotted(st.value.func) or "").startswith(LOG_PREFIXES) for st in body):
            out.add(fn.name)
    # a private function every call of which is (part of) an argument of a logging call computes log text only
    sites: Dict[str, List[bool]] = {}
    for fn in repo.all_functions().values():
        if fn.name.startswith("_unittest"):
            continue
        pm = parents_map(fn.node)
        for n in ast.walk(fn.node):
            if isinstance(n, ast.Call) and isinstance(n.func, ast.Name) and n.func.id.startswith("_") and not n.func.id.startswith("__"):
                cur: Any = n
                in_log = False
                while cur in pm:
                    cur = pm[cur]
                    if isinstance(cur, ast.Call) and (dotted(cur.func) or "").startswith(LOG_PREFIXES):
                        in_log = True
                        break
                    if isinstance(cur, ast.stmt):
                        break
                sites.setdefault(n.func.id, []).append(in_log)
    for name, flags in sites.items():
        if flags and all(flags) and any(f.name == name and f.cls is None for f in repo.all_functions().values()):
            out.add(name)
    return out


def _loop_is_commutative(loop: ast.For, search_result: bool = False, generator_consumers_unordered: bool = False) -> Tuple[bool, str]:
    def ok_stmt(s: ast.stmt) -> bool:
        if isinstance(s, ast.Pass):
            return True
        if isinstance(s, ast.Expr) and isinstance(s.value, ast.Call):
            f = s.value.func
            name = dotted(f) or ""
            if name.startswith(LOG_PREFIXES) or name.split(".")[-1] in _LOG_ONLY:
                return True
            if isinstance(f, ast.Attribute) and f.attr in COMMUTATIVE_METHODS:
                return True
            if isinstance(f, ast.Attribute) and f.attr in PURE_PATH_METHODS:
                return True  # a question asked for its exception / value only
            if isinstance(f, ast.Attribute) and f.attr in ("append", "extend") and isinstance(f.value, ast.Name):
                return True  # collects into a local list, which thereby becomes unordered itself (see _locals_tainted)
            return False
        if isinstance(s, ast.If):
            return all(ok_stmt(x) for x in s.body + s.orelse)
        if isinstance(s, ast.For):
            return all(ok_stmt(x) for x in s.body)
        if isinstance(s, ast.Return) and search_result:
            # a search for an offending element that leaves with the first one met: whether something is found does not depend
            # on the order (which element it is does; what the caller makes of it is a rejection either way - see below)
            return True
        if isinstance(s, ast.Expr) and isinstance(s.value, (ast.Yield, ast.YieldFrom)) and generator_consumers_unordered:
            return True  # a generator every consumer of which treats what it yields as an unordered collection
        if isinstance(s, (ast.Raise, ast.Continue)):
            # rejecting as soon as an offending element is met: whether the loop raises does not depend on the order (which
            # element is named in the message does; the property speaks about results)
            return True
        if isinstance(s, ast.Try):
            return all(ok_stmt(x) for x in s.body + s.orelse + s.finalbody) and all(all(ok_stmt(x) for x in h.body) for h in s.handlers)
        if isinstance(s, ast.Assign) and all(isinstance(t, ast.Name) for t in s.targets):
            return True  # a loop-local temporary
        return False

    if all(ok_stmt(s) for s in loop.body):
        return True, "the loop body only adds to sets / logs / rejects (order-insensitive)"
    return False, "the loop body has order-sensitive effects"


def rule_r2(ctx: Ctx) -> None:
    ctx.rule("C10.R2", "ordering key: (full_name ascending, major descending, minor descending); the sort has no reverse flag", min_instances=2)
    rank = ctx.func("_dsdl.get_definition_ordering_rank")
    p = rank.params[0]
    rets = [r.value for r in walk_no_nested(rank.node) if isinstance(r, ast.Return)]
    good = len(rets) == 1 and isinstance(rets[0], ast.Tuple) and len(rets[0].elts) == 3
    signs = []
    if good:
        for el, path in zip(rets[0].elts, ("full_name", "version.major", "version.minor")):
            neg = isinstance(el, ast.UnaryOp) and isinstance(el.op, ast.USub)
            inner = el.operand if neg else el
            alt = {"%s.%s" % (p, path), "%s.version[%d]" % (p, 0 if path.endswith("major") else 1)}
            signs.append((norm(inner) in alt, neg))
        good = [s[0] for s in signs] == [True, True, True] and [s[1] for s in signs] == [False, True, True]
    ctx.check(good, rank.short, norm(rets[0]) if rets else "?", "sorted by full name, then newest major first, then newest minor first", rank.where())
    fs = ctx.func("_dsdl.file_sort")
    calls = [c for c in calls_in(fs.node) if dotted(c.func) == "sorted"]
    good = len(calls) == 1 and norm(calls[0].args[0]) == fs.params[0] and any(k.arg == "key" and norm(k.value) == "get_definition_ordering_rank" for k in calls[0].keywords) and not any(k.arg == "reverse" for k in calls[0].keywords)
    ctx.check(good, fs.short, norm(calls[0]) if calls else "?", "file_sort sorts its whole argument by the ordering rank", fs.where())


def rule_r3(ctx: Ctx) -> None:
    """what the entry points enumerate and return, observed over an abstract file system (syntactic paths, APath.FS)"""
    from ..absint import APath, Raised, call_fn
    from ..fold import Sym, Unfoldable
    from . import reader_common as R

    ctx.rule("C10.R3", "read_namespace enumerates *.dsdl and *.uavcan recursively under exactly the root directory and returns only the direct types; read_files returns (direct, transitive)", min_instances=3)
    cons = ctx.func("_namespace._construct_dsdl_definitions_from_namespaces")
    mod = cons.module
    files = [
        "/w/ns/A.1.0.dsdl", "/w/ns/B.1.0.uavcan", "/w/ns/sub/deep/er/C.2.3.dsdl", "/w/ns/sub/D.1.0.dsdl", "/w/ns/sub/deep/L.1.0.uavcan", "/w/ns/readme.txt", "/w/ns/sub/E.1.0.dsdl.bak",
        "/w/other/X.1.0.dsdl", "/w/nsx/Y.1.0.dsdl", "/w/ns2/Z.1.0.dsdl",
        "/elsewhere/ns/Q.1.0.dsdl", "/elsewhere/ns/sub/R.1.0.dsdl",  # a lookup directory named like the root (name collisions are allowed by default)
        "/w/ns/B.1.0.dsdl", "/w/ns/sub/77.D.1.0.dsdl",  # files that spell the name and version of another file of the same directory: one composite per *file*
    ]
    saved = list(APath.FS)
    APath.FS = list(files)
    try:
        log: List[Any] = []
        hook = R._hook(ctx, mod, log, record=["_complete_read_function", "_construct_lookup_directories_path_list", "normalize_paths_argument_to_list"], results={
            "dsdl_file_sort": lambda xs: list(xs), "file_sort": lambda xs: list(xs),  # the order is C10.R2's question
            "_complete_read_function": lambda *a, **k: Sym(direct=["DIRECT-TYPES"], transitive=["TRANSITIVE-TYPES"]),
            "_construct_lookup_directories_path_list": lambda roots, lookups, *a, **k: list(roots) + [x for x in lookups if x not in list(roots)],
            "normalize_paths_argument_to_list": lambda x=None: [] if x is None else list(x) if isinstance(x, (list, tuple)) else [x],
        })
        try:
            got = call_fn(ctx, cons, [[APath("/w/ns"), APath("/w/ns2")]], hook=hook, keep=tuple(mod.functions))
        except (Raised, Unfoldable) as ex:
            raise AnalysisError("%s: cannot evaluate over the abstract file system: %s" % (cons.short, ex))
        paths = sorted(str(d.file_path if hasattr(d, "file_path") else d._file_path) for d in got)
        want = sorted(["/w/ns/A.1.0.dsdl", "/w/ns/B.1.0.uavcan", "/w/ns/B.1.0.dsdl", "/w/ns/sub/deep/er/C.2.3.dsdl", "/w/ns/sub/D.1.0.dsdl", "/w/ns/sub/77.D.1.0.dsdl", "/w/ns/sub/deep/L.1.0.uavcan", "/w/ns2/Z.1.0.dsdl"])
        ctx.count()
        ctx.check(paths == want, cons.short, "lists %s" % paths, "every definition file (both suffixes) at any depth under each given root is listed - and nothing else", cons.where(), {"expected": want})
        # read_namespace: the targets are the definitions under the root, the result is the direct part of what was read
        rn = ctx.func("_namespace.read_namespace")
        del log[:]
        try:
            res = call_fn(ctx, rn, [APath("/w/ns"), [APath("/w/other"), APath("/elsewhere/ns")]], hook=hook, keep=tuple(mod.functions))
        except (Raised, Unfoldable) as ex:
            raise AnalysisError("%s: cannot evaluate over the abstract file system: %s" % (rn.short, ex))
        crf = [(a, k) for name, a, k in log if name == "_complete_read_function"]
        tpaths = sorted(str(d._file_path if hasattr(d, "_file_path") else d.file_path) for d in (crf[0][0][0] if crf else []))
        ctx.count()
        ctx.check(len(crf) == 1 and tpaths == [p_ for p_ in want if p_.startswith("/w/ns/")] and res == ["DIRECT-TYPES"], rn.short, "targets = definitions under [root]; returns <read>.direct", "exactly the definitions under the root namespace directory are returned - nothing from lookup directories", rn.where(), {"targets": tpaths, "returned": repr(res)[:80]})
        # an empty namespace yields an empty list without reading anything
        APath.FS = ["/w/other/X.1.0.dsdl"]
        del log[:]
        res = call_fn(ctx, rn, [APath("/w/ns")], hook=hook, keep=tuple(mod.functions))
        ctx.check(res == [] and not [1 for name, a, k in log if name == "_complete_read_function"], rn.short, "empty namespace -> []", "an empty namespace is not an error", rn.where(), nontrivial=False)
    finally:
        APath.FS = saved
    rf = ctx.func("_namespace.read_files")
    rets = [norm(r.value) for r in walk_no_nested(ctx.inl(rf)) if isinstance(r, ast.Return) and r.value is not None]
    ctx.check(any(x.replace(" ", "") in ("(definitions.direct,definitions.transitive)",) for x in rets), rf.short, str(rets), "read_files returns the requested types and the rest of their dependency closure", rf.where())


def rule_r4(ctx: Ctx) -> None:
    """the reader's bookkeeping, observed on abstract worlds of definition files (reader_common)"""
    from . import reader_common as R

    ctx.rule("C10.R4", "direct/transitive bookkeeping: requested => direct (also when met earlier as a dependency), read as a dependency and not requested => transitive, the sets are disjoint, every definition of the closure is read and nothing else, whatever the order of the targets", min_instances=1)
    fn = ctx.func("_namespace_reader.read_definitions")

    def world() -> Any:
        w = R.World()
        C = R.ADef(w, "ns.C", 1, 0)
        B = R.ADef(w, "ns.B", 1, 0, deps=[C])
        E = R.ADef(w, "ns.E", 1, 0, deps=[C])
        A = R.ADef(w, "ns.A", 1, 0, deps=[B, E])
        D = R.ADef(w, "ns.D", 1, 0)
        Z = R.ADef(w, "zz.Z", 1, 0, deps=[A])
        return w, {"A": A, "B": B, "C": C, "D": D, "E": E, "Z": Z}

    def closure(ds: List[Any]) -> List[Any]:
        out: List[Any] = []
        work = list(ds)
        while work:
            d = work.pop(0)
            if d not in out:
                out.append(d)
                work.extend(d.deps)
        return out

    bad = []
    cases = [["A"], ["A", "E"], ["E", "A"], ["B", "A"], ["Z", "C"], ["C", "Z"], ["D"], [], ["A", "A"], ["E", "B", "C"]]
    for names in cases:
        w, d = world()
        targets = [d[n] for n in names]
        out = R.run_reader(ctx, targets, list(d.values()))
        ctx.count()
        if out["raised"]:
            raise AnalysisError("read_definitions over the abstract world raised %s" % out["raised"])
        res = out["result"]
        got_d, got_t = R.names_of(res.direct), R.names_of(res.transitive)
        want_d = sorted({t.label for t in targets})
        want_t = sorted({x.label for x in closure(targets)} - set(want_d))
        read = sorted(set(w.reads()))
        want_read = sorted({x.label for x in closure(targets)})
        others = [(e[1].label, e[0]) for e in w.log if e[0] in ("text", "other")]
        if got_d != want_d or got_t != want_t or read != want_read or others or set(got_d) & set(got_t):
            bad.append({"targets": names, "direct": got_d, "transitive": got_t, "read": read, "expected direct": want_d, "expected transitive": want_t, "other accesses": others})
        # what is returned are the very objects the reads produced
        produced = {id(x.composite_type) for x in w.defs if x.composite_type is not None}
        if any(id(t) not in produced for t in list(res.direct) + list(res.transitive)):
            bad.append({"targets": names, "note": "a returned type was not produced by a read"})
    ctx.check(not bad, fn.short, "direct / transitive over %d target lists" % len(cases), "requested definitions are direct, their dependencies transitive, the two are disjoint, and exactly the closure is read", fn.where(), bad[:3])


def rule_r5(ctx: Ctx) -> None:
    """resolution before comparison, observed: the entry points are evaluated over directory arguments one of which is another
    spelling (a symbolic link) of a real directory; the abstract `resolve()` maps the alias to the real path"""
    from ..absint import APath, Raised, call_fn, construct
    from ..fold import Sym, Unfoldable
    from . import reader_common as R

    ctx.rule("C10.R5", "directory arguments are resolved (symlinks, relative spelling) before de-duplication / comparison / listing: an alias of a directory behaves exactly like the directory", min_instances=3)
    saved_alias, saved_fs = dict(APath.ALIASES), list(APath.FS)
    APath.ALIASES = {"/link/ns": "/w/ns"}
    APath.FS = ["/w/ns/A.1.0.dsdl", "/w/ns/sub/B.1.0.dsdl", "/w/other/X.1.0.dsdl"]
    try:
        # the pairwise check: an alias and a directory inside the real one are nested roots; an alias and the real directory are
        # one directory
        f3 = ctx.func("_namespace._ensure_no_namespace_name_collisions_or_nested_root_namespaces")
        mod = f3.module
        hook = R._hook(ctx, mod, [])
        outcomes = {}
        for label, dirs, allow in (("alias + directory inside the real one", ["/link/ns", "/w/ns/sub"], True), ("directory inside the real one + alias", ["/w/ns/sub", "/link/ns"], True), ("alias + the real directory", ["/link/ns", "/w/ns"], False)):
            try:
                call_fn(ctx, f3, [[APath(d) for d in dirs], allow], hook=hook, keep=tuple(mod.functions))
                outcomes[label] = "accepted"
            except Raised as r:
                outcomes[label] = r.cls_name
            except Unfoldable as ex:
                raise AnalysisError("%s: cannot evaluate over syntactic paths: %s" % (f3.short, ex))
            ctx.count()
        want = {"alias + directory inside the real one": "NestedRootNamespaceError", "directory inside the real one + alias": "NestedRootNamespaceError", "alias + the real directory": "accepted"}
        ctx.check(outcomes == want, f3.short, str(outcomes), "directories are resolved before they are compared pairwise", f3.where(), {"expected": want})
        # the lookup list: root + lookups merged, resolved, de-duplicated
        f1 = ctx.func("_namespace._construct_lookup_directories_path_list")
        try:
            lst = call_fn(ctx, f1, [[APath("/w/ns")], [APath("/link/ns"), APath("/w/other")], True], hook=hook, keep=tuple(mod.functions))
        except (Raised, Unfoldable) as ex:
            raise AnalysisError("%s: cannot evaluate over syntactic paths: %s" % (f1.short, ex))
        got = sorted(str(x) for x in lst)
        ctx.count()
        ctx.check(got == ["/w/ns", "/w/other"], f1.short, "root + [alias of the root, another directory] -> %s" % got, "lookup and root directories are merged, resolved and de-duplicated (so equivalent spellings collapse)", f1.where())
        # read_namespace given an alias lists the real directory
        rn = ctx.func("_namespace.read_namespace")
        log: List[Any] = []
        hook2 = R._hook(ctx, mod, log, record=["_complete_read_function", "_construct_lookup_directories_path_list", "normalize_paths_argument_to_list"], results={
            "dsdl_file_sort": lambda xs: list(xs), "file_sort": lambda xs: list(xs),
            "_complete_read_function": lambda *a, **k: Sym(direct=["DIRECT-TYPES"], transitive=["TRANSITIVE-TYPES"]),
            "_construct_lookup_directories_path_list": lambda roots, lookups, *a, **k: list(roots) + [x for x in lookups if x not in list(roots)],
            "normalize_paths_argument_to_list": lambda x=None: [] if x is None else list(x) if isinstance(x, (list, tuple)) else [x],
        })
        try:
            res = call_fn(ctx, rn, [APath("/link/ns")], hook=hook2, keep=tuple(mod.functions))
        except (Raised, Unfoldable) as ex:
            raise AnalysisError("%s: cannot evaluate over the abstract file system: %s" % (rn.short, ex))
        crf = [a for name, a, k in log if name == "_complete_read_function"]
        tp = sorted(str(d._file_path if hasattr(d, "_file_path") else d.file_path) for d in (crf[0][0] if crf else []))
        ctx.count()
        ctx.check(res == ["DIRECT-TYPES"] and tp == ["/w/ns/A.1.0.dsdl", "/w/ns/sub/B.1.0.dsdl"], rn.short, "read_namespace(alias of ns) lists %s" % tp, "the root namespace directory is resolved before use", rn.where())
        # the caller's directory list is the caller's: reading does not change it, and a second read with the same list (and
        # another root) is given exactly the directories the caller listed
        hook3 = R._hook(ctx, mod, log, record=["_complete_read_function"], results={
            "dsdl_file_sort": lambda xs: list(xs), "file_sort": lambda xs: list(xs),
            "_complete_read_function": lambda *a, **k: Sym(direct=["DIRECT-TYPES"], transitive=["TRANSITIVE-TYPES"]),
        })
        mine = [APath("/w/other")]
        seen = []
        for root in ("/w/ns", "/w/other"):
            del log[:]
            try:
                call_fn(ctx, rn, [APath(root), mine], hook=hook3, keep=tuple(mod.functions))
            except (Raised, Unfoldable) as ex:
                raise AnalysisError("%s: cannot evaluate with the real argument normalisation: %s" % (rn.short, ex))
            crf2 = [a for name, a, k in log if name == "_complete_read_function"]
            seen.append(sorted(str(x) for x in (crf2[0][1] if crf2 and len(crf2[0]) > 1 else [])))
            ctx.count()
        ctx.check([str(x) for x in mine] == ["/w/other"] and seen == [["/w/ns", "/w/other"], ["/w/other"]], rn.short, "the caller's lookup list after two reads: %s; directories searched: %s" % ([str(x) for x in mine], seen), "the result does not depend on earlier calls: the directory list passed by the caller is not modified and each read searches the root plus exactly the directories listed", rn.where())
        # a definition built from an alias spelling has the real paths
        dd = ctx.cls("_dsdl_definition.DSDLDefinition")
        try:
            d = construct(ctx, dd, APath("/link/ns/sub/B.1.0.dsdl"), APath("/link/ns"), hook=R._hook(ctx, dd.module, []))
            f = Folder({"d": d}, ctx.repo, dd.module, None, R._hook(ctx, dd.module, []))
            paths = (str(f.fold(ast.parse("d.file_path", mode="eval").body)), str(f.fold(ast.parse("d.root_namespace_path", mode="eval").body)))
        except (Raised, Unfoldable) as ex:
            raise AnalysisError("DSDLDefinition(...) over an alias spelling: %s" % ex)
        ctx.count()
        init = ctx.func("_dsdl_definition.DSDLDefinition.__init__")
        ctx.check(paths == ("/w/ns/sub/B.1.0.dsdl", "/w/ns"), init.short, "file and root paths resolved: %s" % (paths,), "a definition's identity is computed from resolved paths", init.where())
    finally:
        APath.ALIASES, APath.FS = saved_alias, saved_fs


def rule_r6(ctx: Ctx) -> None:
    """the directory-set check abstractly evaluated over sets of syntactic paths"""
    from ..absint import APath, Raised, call_fn
    from ..fold import Unfoldable
    from . import reader_common as R

    repo = ctx.repo
    ctx.rule("C10.R6", "root / lookup directory sets are rejected exactly when one lies inside another (at any depth) or (collisions disallowed) two distinct ones share a name ignoring case", min_instances=2)
    fn = ctx.func("_namespace._ensure_no_namespace_name_collisions_or_nested_root_namespaces")
    cases = [
        (["/w/a"], None),
        (["/w/a", "/w/b"], None),
        (["/w/a", "/w/a"], None),  # the same directory twice is one directory
        (["/w/a", "/w/a/b"], "NestedRootNamespaceError"),
        (["/w/a/b", "/w/a"], "NestedRootNamespaceError"),
        (["/w/a", "/w/a/x/y/z"], "NestedRootNamespaceError"),
        (["/w/a/x/y/z", "/w/q", "/w/a"], "NestedRootNamespaceError"),
        (["/w/a", "/v/a"], "name"),
        (["/w/a", "/v/A"], "name"),
        (["/w/Sensors", "/v/SENSORS"], "name"),  # neither spelling is the lower-case one
        (["/w/aB", "/v/Ab"], "name"),
        (["/w/AB", "/v/AB"], "name"),
        (["/w/Ab", "/v/Ac"], None),
        (["/w/ab", "/w/a"], None),  # a name that merely starts like another is not nested
        (["/w/a", "/v/b", "/u/c"], None),
    ]
    bad = []
    classes = set()
    for dirs, want in cases:
        for allow in (False, True):
            for order in (dirs, list(reversed(dirs))):
                try:
                    call_fn(ctx, fn, [[APath(d) for d in order], allow], hook=R._hook(ctx, fn.module, []), keep=tuple(fn.module.functions))
                    got = None
                except Raised as r:
                    got = r.cls_name
                    classes.add(got)
                except Unfoldable as ex:
                    raise AnalysisError("%s: cannot evaluate over syntactic paths: %s" % (fn.short, ex))
                ctx.count()
                exp = want if want != "name" else (None if allow else "RootNamespaceNameCollisionError")
                if got != exp:
                    bad.append({"directories": order, "allow_name_collisions": allow, "found": got or "accepted", "expected": exp or "accepted"})
    ctx.check(not bad, fn.short, "decision over %d directory sets x {allow, disallow} x 2 orders" % len(cases), "rejection must happen exactly for nested roots (at any depth) and, if disallowed, for equal names ignoring case", fn.where(), bad[:4])
    not_ide = sorted(c for c in classes if not (next((k for k in repo.all_classes().values() if k.name == c), None) is not None and repo.is_subclass(next(k for k in repo.all_classes().values() if k.name == c), "_error.InvalidDefinitionError")))
    ctx.check(not not_ide and len(classes) >= 2, fn.short, "rejections: %s" % sorted(classes), "every ordered pair of directories is examined and each failure kind is an InvalidDefinitionError", fn.where(), not_ide)
    # the merged, resolved directory list is what gets checked
    caller = ctx.func("_namespace._construct_lookup_directories_path_list")
    log: List[Any] = []
    hook = R._hook(ctx, caller.module, log, record=[fn.name], results={fn.name: None})
    try:
        res = call_fn(ctx, caller, [[APath("/w/root")], [APath("/w/look1"), APath("/w/look2")], True], hook=hook, keep=tuple(caller.module.functions))
    except (Raised, Unfoldable) as ex:
        raise AnalysisError("%s: cannot evaluate over syntactic paths: %s" % (caller.short, ex))
    checked = [a for name, a, k in log if name == fn.name]
    good = len(checked) == 1 and sorted(str(x) for x in checked[0][0]) == ["/w/look1", "/w/look2", "/w/root"] and sorted(str(x) for x in res) == ["/w/look1", "/w/look2", "/w/root"]
    ctx.check(good, caller.short, "checks and returns root + lookup directories: %s" % sorted(str(x) for x in (checked[0][0] if checked else [])), "the merged, resolved directory list is what gets checked", caller.where(), nontrivial=False)


def rule_r7_requested_files(ctx: Ctx) -> None:
    """what read_files makes of its file arguments, over an abstract file system: one definition object per requested file -
    the objects are built by their own constructor and the containers of the evaluated program compare / hash them by the
    class's own __eq__ / __hash__ (name and version), so a container that identifies files by that drops a requested file"""
    from ..absint import APath, Raised, call_fn
    from ..fold import Unfoldable
    from . import reader_common as R

    ctx.rule("C10.R7", "read_files turns the requested files into exactly one definition per file (a file named twice counts once): no requested file is dropped because another one spells the same name and version", min_instances=2)
    cons = ctx.func("_namespace._construct_dsdl_definitions_from_files")
    mod = cons.module
    files = ["/w/ns/A.1.0.dsdl", "/w/ns/sub/Foo.1.0.dsdl", "/w/ns/sub/7509.Foo.1.0.dsdl", "/w/ns/sub/Foo.1.0.uavcan", "/w/ns/sub/Foo.1.1.dsdl", "/w/ns2/Z.1.0.dsdl"]
    cases = {
        "distinct names": ["/w/ns/A.1.0.dsdl", "/w/ns/sub/Foo.1.1.dsdl", "/w/ns2/Z.1.0.dsdl"],
        "one file named twice": ["/w/ns/A.1.0.dsdl", "/w/ns/sub/Foo.1.1.dsdl", "/w/ns/A.1.0.dsdl"],
        "two files spelling ns.sub.Foo.1.0 (port-ID prefix)": ["/w/ns/sub/Foo.1.0.dsdl", "/w/ns/sub/7509.Foo.1.0.dsdl", "/w/ns/A.1.0.dsdl"],
        "two files spelling ns.sub.Foo.1.0 (legacy suffix), other order": ["/w/ns/sub/Foo.1.0.uavcan", "/w/ns/sub/Foo.1.0.dsdl"],
    }
    saved = list(APath.FS)
    APath.FS = list(files)
    try:
        for label, req in cases.items():
            hook = R._hook(ctx, mod, [], record=[], results={"dsdl_file_sort": lambda xs: list(xs), "file_sort": lambda xs: list(xs)})
            try:
                got = call_fn(ctx, cons, [[APath(p_) for p_ in req], [APath("/w/ns"), APath("/w/ns2")]], hook=hook, keep=tuple(mod.functions))
                paths: Any = sorted(str(d.file_path if hasattr(d, "file_path") else d._file_path) for d in got)
            except Raised as r:
                paths = "raise " + r.cls_name
            except Unfoldable as ex:
                raise AnalysisError("%s: cannot evaluate over the abstract file system: %s" % (cons.short, ex))
            ctx.count()
            want = sorted(set(req))
            # rejecting files that cannot be told apart is an answer too; silently reading one of them is not
            k = next((k for k in ctx.repo.all_classes().values() if isinstance(paths, str) and k.name == paths[6:]), None)
            rejected = k is not None and ctx.repo.is_subclass(k, ctx.cls("_error.InvalidDefinitionError")) and "spelling" in label
            ctx.check(paths == want or rejected, cons.short, label, "every requested file becomes a target (or the request is rejected): none is dropped in favour of another file of the same name and version", cons.where(), {"requested": req, "definitions constructed": paths})
    finally:
        APath.FS = saved


def rule_r8_normalize(ctx: Ctx) -> None:
    """the one function every path-list argument of the entry points goes through, evaluated on every shape the signatures
    admit (`None | Path | str | Iterable[Path | str]`): the result is the list of the paths given, first occurrences, in order
    - whatever kind of iterable carries them (a list, a tuple, a one-shot iterator, a generator)"""
    from ..absint import APath, Raised, call_fn, path_hook
    from ..fold import Unfoldable

    ctx.rule("C10.R8", "normalize_paths_argument_to_list: None -> []; one path or string -> [path]; any iterable of paths / strings (list, tuple, one-shot iterator) -> the paths in order of first occurrence, duplicates dropped; the caller's list is not modified", min_instances=1)
    fn = ctx.func("_dsdl.normalize_paths_argument_to_list")
    a, b, c = "/w/ns", "/w/other", "/w/third"
    items = [APath(a), b, APath(b), a, APath(c), APath(a)]
    want = [a, b, c]

    def run(arg: Any) -> Any:
        try:
            r = call_fn(ctx, fn, [arg], hook=path_hook(None), keep=())
        except Raised as ex:
            return "raise " + ex.cls_name
        except Unfoldable as ex:
            raise AnalysisError("%s: cannot evaluate over abstract paths: %s" % (fn.short, ex))
        return [str(x) for x in r] if isinstance(r, list) else repr(r)

    caller_list = list(items)
    cases = [
        ("None", None, []), ("a path", APath(a), [a]), ("a string", a, [a]), ("an empty list", [], []),
        ("a list", caller_list, want), ("a tuple", tuple(items), want), ("a one-shot iterator", iter(list(items)), want),
        ("a generator", (x for x in list(items)), want), ("a list of strings", [a, b, a], [a, b]),
        ("a list with a number", [APath(a), 5], "raise TypeError"),
    ]
    bad = []
    for label, arg, w in cases:
        got = run(arg)
        ctx.count()
        if got != w:
            bad.append({"argument": label, "found": got, "expected": w})
    if [str(x) for x in caller_list] != [str(x) for x in items] or len(caller_list) != len(items):
        bad.append({"argument": "a list", "found": "the caller's list was modified: %r" % caller_list})
    ctx.check(not bad, fn.short, "%d argument shapes" % len(cases), "the result depends on the paths given - not on the kind of iterable, on duplicates or on str / Path spelling", fn.where(), bad[:4])


_NORMALISED: Dict[str, Any] = {}


def _loops_normalised(fn: Any) -> Any:
    """the function with hand-written walks over a collection (index / iterator / sentinel loops) spelled as `for` loops, which
    is the form the order analysis reads (see sa/loopnorm.py; the relaxed form also reads `next(it, None)` loops)"""
    import copy as _copy

    from ..loopnorm import normalize_loops

    k = fn.qualname + "@" + str(id(fn.node))
    if k not in _NORMALISED:
        node = _copy.deepcopy(fn.node)
        if normalize_loops(node, relaxed=True):
            f2 = _copy.copy(fn)
            f2.node = node
            _NORMALISED[k] = f2
        else:
            _NORMALISED[k] = fn
    return _NORMALISED[k]


def rule_r9_ambient(ctx: Ctx) -> None:
    from . import ambient

    ctx.rule("C10.R9", "the result depends on the arguments and the file system as they are when the call is made: no memoised function of the package reaches the working directory, the file system, the environment or the clock (an earlier call cannot change what a later one returns)", min_instances=1)
    ambient.rule(ctx, "C10.R9", "a listing, an existence test or a resolved path kept from an earlier call answers for another state of the file system / another working directory: the same arguments would give different results depending on what was read before")


def run(ctx: Ctx) -> None:
    ctx.attempt(rule_r1, ctx)
    ctx.attempt(rule_r2, ctx)
    ctx.attempt(rule_r3, ctx)
    ctx.attempt(rule_r4, ctx)
    ctx.attempt(rule_r5, ctx)
    ctx.attempt(rule_r6, ctx)
    ctx.attempt(rule_r7_requested_files, ctx)
    ctx.attempt(rule_r8_normalize, ctx)
    ctx.attempt(rule_r9_ambient, ctx)
    from . import c10text

    c10text.run(ctx)
    ctx.assume("dict iteration order is insertion order (language guarantee), so dicts filled in a deterministic order are deterministic")
    ctx.assume("which of several simultaneous directory faults is reported first may depend on set order; the rejection itself does not")
    ctx.undecided("read_files == read_namespace type equality; case-insensitive file systems; symlink semantics of the OS; tie order of colliding (same name+version) lookup definitions")
