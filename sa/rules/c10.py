"""
C10 -- Namespace reading is complete, ordered and deterministic.

R1  order taint: values of unordered kind (sets, set comprehensions, rglob results) pass through sorted()/file_sort before
    they flow into a return value or drive an order-sensitive loop; order-insensitive consumers are sanitisers.
R2  ordering key: (full_name ascending, major descending, minor descending), no reverse flag.
R3  enumeration scope: read_namespace targets come from a recursive glob of both suffixes over exactly the root namespace
    directory, and only `.direct` is returned; read_files returns (direct, transitive).
R4  direct/transitive automaton extracted from the reader loop: sets stay disjoint, a requested file ends direct
    (promotion), nothing is demoted, everything read at level > 0 and not requested ends transitive.
R5  path normalisation: directory arguments are resolved before de-duplication and comparison.
R6  nested / colliding roots: FAIL <=> not SAMEFILE and ((not ALLOW and NAME_CI_EQ) or IS_RELATIVE) over all ordered pairs;
    both failures are InvalidDefinitionErrors.
"""
from __future__ import annotations

import ast
from typing import Any, Dict, List, Optional, Set, Tuple

from ..core import AnalysisError, ClassInfo, Ctx, FuncInfo, body_without_docstring, calls_in, dotted, norm, parents_map, walk_no_nested
from ..decide import A, PathEnumerator, f_and, f_atoms, f_eval, f_not, f_or, path_formula, paths_of, valuations
from ..regions import exc_class_of

MODS = ("pydsdl._namespace", "pydsdl._namespace_reader", "pydsdl._dsdl", "pydsdl._dsdl_definition")
SORTERS = {"sorted", "dsdl_file_sort", "file_sort"}
INSENSITIVE = {"set", "frozenset", "len", "min", "max", "any", "all", "sum", "bool", "isinstance"}
COMMUTATIVE_METHODS = {"add", "discard", "update", "remove"}
LOG_PREFIXES = ("_logger.", "logging.")
# existence tests over an unordered collection whose *outcome* (raise or not) is order-independent; which of several
# failures is reported first is not part of the property
EXISTENCE_OK = {
    ("_namespace._ensure_no_namespace_name_collisions_or_nested_root_namespaces", "directories"): "next(filter(check, pairs), None) only decides whether some pair fails; rejection itself does not depend on the order",
}


def _is_unordered_expr(e: ast.AST, tainted: Set[str]) -> bool:
    if isinstance(e, (ast.Set, ast.SetComp)):
        return True
    if isinstance(e, ast.Call):
        n = dotted(e.func) or ""
        if n in ("set", "frozenset"):
            return True
        if isinstance(e.func, ast.Attribute) and e.func.attr in ("rglob", "glob", "iterdir"):
            return True
        if n in ("list", "tuple", "iter", "reversed", "itertools.chain", "chain", "filter", "map", "enumerate", "zip", "product", "itertools.product") and e.args:
            return any(_is_unordered_expr(a, tainted) for a in e.args)
        if isinstance(e.func, ast.Attribute) and e.func.attr in ("values", "keys", "items"):
            return False
    if isinstance(e, (ast.ListComp, ast.GeneratorExp)):
        return any(_is_unordered_expr(g.iter, tainted) for g in e.generators)
    if isinstance(e, ast.Name):
        return e.id in tainted
    if isinstance(e, ast.BinOp) and isinstance(e.op, ast.Add):
        return _is_unordered_expr(e.left, tainted) or _is_unordered_expr(e.right, tainted)
    if isinstance(e, ast.Subscript):
        return _is_unordered_expr(e.value, tainted)
    return False


def _annot_is_set(a: Optional[ast.AST]) -> bool:
    if a is None:
        return False
    s = norm(a)
    return s.startswith("set[") or s.startswith("Set[") or s.startswith("typing.Set[") or s == "set"


def rule_r1(ctx: Ctx) -> None:
    repo = ctx.repo
    ctx.rule("C10.R1", "order taint: unordered collections (sets, rglob results) are sorted before they are returned or drive an order-sensitive loop", min_instances=6)
    funcs = [f for f in repo.all_functions().values() if f.module.name in MODS]
    # interprocedural seed: parameters that receive unordered arguments
    tainted_params: Dict[str, Set[str]] = {}
    results: List[Tuple[FuncInfo, str, bool, str, ast.AST]] = []
    n_sources = 0
    for _ in range(3):
        results = []
        n_sources = 0
        for fn in funcs:
            tainted: Set[str] = set(tainted_params.get(fn.qualname, set()))
            for a in fn.node.args.args + fn.node.args.kwonlyargs:
                if _annot_is_set(a.annotation):
                    tainted.add(a.arg)
            # nested functions see the taint of their definer's locals
            if fn.parent is not None:
                tainted |= {t for t in _locals_tainted(fn.parent, tainted_params)}
            tainted |= _locals_tainted(fn, tainted_params, seed=tainted)
            n_sources += len(tainted)
            pm = parents_map(fn.node)
            for n in walk_no_nested(fn.node):
                # uses of unordered values
                if isinstance(n, ast.Return) and n.value is not None:
                    vals = [n.value]
                    if isinstance(n.value, ast.Call) and not (dotted(n.value.func) in SORTERS):
                        vals = list(n.value.args) + [k.value for k in n.value.keywords] if (dotted(n.value.func) or "").split(".")[-1][:1].isupper() or dotted(n.value.func) in ("list", "tuple") else [n.value]
                    if isinstance(n.value, ast.Tuple):
                        vals = list(n.value.elts)
                    for v in vals:
                        if _is_unordered_expr(v, tainted) and not _sorted_wrapped(v):
                            results.append((fn, "return %s" % norm(v)[:60], False, "an unordered collection is returned without sorting", n))
                        elif _is_unordered_expr(_strip_sort(v), tainted):
                            results.append((fn, "return %s" % norm(v)[:60], True, "sorted before being returned", n))
                if isinstance(n, ast.For) and _is_unordered_expr(n.iter, tainted) and not _sorted_wrapped(n.iter):
                    ok, why = _loop_is_commutative(n)
                    key = (fn.short, norm(n.iter))
                    results.append((fn, "for %s in %s" % (norm(n.target), norm(n.iter)[:50]), ok, why, n))
                if isinstance(n, ast.Call):
                    name = dotted(n.func) or ""
                    # passing an unordered value to a repository function taints that parameter
                    r = repo.resolve_expr(fn.module, n.func, fn.cls) if isinstance(n.func, (ast.Name, ast.Attribute)) else None
                    if isinstance(r, FuncInfo):
                        params = r.params[1:] if (r.cls is not None and not r.is_static) else r.params
                        for i, a in enumerate(n.args):
                            if i < len(params) and _is_unordered_expr(a, tainted) and not _sorted_wrapped(a):
                                tainted_params.setdefault(r.qualname, set()).add(params[i])
                        for k in n.keywords:
                            if k.arg and _is_unordered_expr(k.value, tainted) and not _sorted_wrapped(k.value):
                                tainted_params.setdefault(r.qualname, set()).add(k.arg)
                    # first element of an unordered collection
                    if name == "next" and n.args and _is_unordered_expr(n.args[0], tainted):
                        ex = [why for (suffix, var), why in EXISTENCE_OK.items() if fn.short.endswith(suffix.split(".", 1)[1]) or fn.short == suffix]
                        results.append((fn, norm(n)[:70], bool(ex), ex[0] if ex else "the first element of an unordered collection is order dependent", n))
                if isinstance(n, ast.Subscript) and isinstance(n.slice, ast.Constant) and _is_unordered_expr(n.value, tainted) and not _in_logging(n, pm):
                    results.append((fn, norm(n)[:70], False, "indexing into an unordered collection is order dependent", n))
    seen = set()
    for fn, key, ok, why, node in results:
        k = (fn.short, key)
        if k in seen:
            continue
        seen.add(k)
        ctx.check(ok, fn.short, key, why if ok else "results must not depend on set / file-system enumeration order: " + why, fn.where(node))
    ctx.analysed["C10.R1.tainted_names"] = n_sources


def _locals_tainted(fn: FuncInfo, tainted_params: Dict[str, Set[str]], seed: Optional[Set[str]] = None) -> Set[str]:
    tainted: Set[str] = set(seed or set()) | set(tainted_params.get(fn.qualname, set()))
    for _ in range(3):
        for st in walk_no_nested(fn.node):
            tgt = val = ann = None
            if isinstance(st, ast.Assign) and len(st.targets) == 1 and isinstance(st.targets[0], ast.Name):
                tgt, val = st.targets[0].id, st.value
            elif isinstance(st, ast.AnnAssign) and isinstance(st.target, ast.Name):
                tgt, val, ann = st.target.id, st.value, st.annotation
            if tgt is None:
                continue
            if _annot_is_set(ann) or (val is not None and _is_unordered_expr(val, tainted) and not _sorted_wrapped(val)):
                tainted.add(tgt)
            elif val is not None and _sorted_wrapped(val) and tgt in tainted and sum(1 for s2 in walk_no_nested(fn.node) if isinstance(s2, ast.Assign) and any(isinstance(t, ast.Name) and t.id == tgt for t in s2.targets)) == 1:
                tainted.discard(tgt)
    return tainted


def _strip_sort(e: ast.AST) -> ast.AST:
    while isinstance(e, ast.Call) and (dotted(e.func) in SORTERS or dotted(e.func) in ("list",)) and e.args:
        e = e.args[0]
    return e


def _sorted_wrapped(e: ast.AST) -> bool:
    cur = e
    while isinstance(cur, ast.Call) and dotted(cur.func) in ("list", "tuple") and cur.args:
        cur = cur.args[0]
    return isinstance(cur, ast.Call) and dotted(cur.func) in SORTERS


def _in_logging(n: ast.AST, pm: Dict[ast.AST, ast.AST]) -> bool:
    cur = n
    while cur in pm:
        cur = pm[cur]
        if isinstance(cur, ast.Call) and (dotted(cur.func) or "").startswith(LOG_PREFIXES):
            return True
    return False


def _loop_is_commutative(loop: ast.For) -> Tuple[bool, str]:
    def ok_stmt(s: ast.stmt) -> bool:
        if isinstance(s, ast.Pass):
            return True
        if isinstance(s, ast.Expr) and isinstance(s.value, ast.Call):
            f = s.value.func
            name = dotted(f) or ""
            if name.startswith(LOG_PREFIXES):
                return True
            if isinstance(f, ast.Attribute) and f.attr in COMMUTATIVE_METHODS:
                return True
            return False
        if isinstance(s, ast.If):
            return all(ok_stmt(x) for x in s.body + s.orelse)
        if isinstance(s, ast.For):
            return all(ok_stmt(x) for x in s.body)
        return False

    if all(ok_stmt(s) for s in loop.body):
        return True, "the loop body only adds to sets / logs (order-insensitive)"
    return False, "the loop body has order-sensitive effects"


def rule_r2(ctx: Ctx) -> None:
    ctx.rule("C10.R2", "ordering key: (full_name ascending, major descending, minor descending); the sort has no reverse flag", min_instances=2)
    rank = ctx.func("_dsdl.get_definition_ordering_rank")
    p = rank.params[0]
    rets = [r.value for r in walk_no_nested(rank.node) if isinstance(r, ast.Return)]
    good = len(rets) == 1 and isinstance(rets[0], ast.Tuple) and len(rets[0].elts) == 3
    signs = []
    if good:
        for el, path in zip(rets[0].elts, ("full_name", "version.major", "version.minor")):
            neg = isinstance(el, ast.UnaryOp) and isinstance(el.op, ast.USub)
            inner = el.operand if neg else el
            alt = {"%s.%s" % (p, path), "%s.version[%d]" % (p, 0 if path.endswith("major") else 1)}
            signs.append((norm(inner) in alt, neg))
        good = [s[0] for s in signs] == [True, True, True] and [s[1] for s in signs] == [False, True, True]
    ctx.check(good, rank.short, norm(rets[0]) if rets else "?", "sorted by full name, then newest major first, then newest minor first", rank.where())
    fs = ctx.func("_dsdl.file_sort")
    calls = [c for c in calls_in(fs.node) if dotted(c.func) == "sorted"]
    good = len(calls) == 1 and norm(calls[0].args[0]) == fs.params[0] and any(k.arg == "key" and norm(k.value) == "get_definition_ordering_rank" for k in calls[0].keywords) and not any(k.arg == "reverse" for k in calls[0].keywords)
    ctx.check(good, fs.short, norm(calls[0]) if calls else "?", "file_sort sorts its whole argument by the ordering rank", fs.where())


def rule_r3(ctx: Ctx) -> None:
    repo = ctx.repo
    ctx.rule("C10.R3", "read_namespace enumerates *.dsdl and *.uavcan recursively under exactly the root directory and returns only the direct types; read_files returns (direct, transitive)", min_instances=3)
    cons = ctx.func("_namespace._construct_dsdl_definitions_from_namespaces")
    mod = cons.module
    globs = []
    for c in calls_in(cons.node):
        if isinstance(c.func, ast.Attribute) and c.func.attr in ("rglob", "glob"):
            arg = c.args[0] if c.args else None
            val = None
            if arg is not None:
                from ..fold import Folder, Unfoldable

                try:
                    val = Folder({}, repo, mod).fold(arg)
                except Unfoldable:
                    val = norm(arg)
                if val == "<fstring>":
                    # f"*{SUFFIX}" constants
                    e = mod.assigns.get(norm(arg))
                    if isinstance(e, ast.JoinedStr):
                        parts = []
                        for v in e.values:
                            if isinstance(v, ast.Constant):
                                parts.append(v.value)
                            elif isinstance(v, ast.FormattedValue):
                                try:
                                    parts.append(str(Folder({}, repo, mod).fold(v.value)))
                                except Unfoldable:
                                    parts.append("?")
                        val = "".join(parts)
            globs.append((c.func.attr, val, norm(c.func.value)))
    loopvars = {norm(st.target): norm(st.iter) for st in walk_no_nested(cons.node) if isinstance(st, ast.For)}
    want = {("rglob", "*.dsdl"), ("rglob", "*.uavcan")}
    roots_ok = all(loopvars.get(g[2]) == cons.params[0] for g in globs)
    ctx.check({(g[0], g[1]) for g in globs} == want and roots_ok, cons.short, "globs: %s over %s" % (sorted((g[0], g[1]) for g in globs), sorted(set(g[2] for g in globs))), "every definition file (both suffixes) at any depth under each given root is listed", cons.where())
    rn = ctx.func("_namespace.read_namespace")
    tcalls = [c for c in calls_in(rn.node) if dotted(c.func) == "_construct_dsdl_definitions_from_namespaces"]
    good = len(tcalls) == 1 and norm(tcalls[0].args[0]) == "[%s]" % rn.params[0]
    rets = [r for r in walk_no_nested(rn.node) if isinstance(r, ast.Return) and r.value is not None and norm(r.value) != "[]"]
    good = good and len(rets) == 1 and isinstance(rets[0].value, ast.Attribute) and rets[0].value.attr == "direct" and isinstance(rets[0].value.value, ast.Call) and dotted(rets[0].value.value.func) == "_complete_read_function" and norm(rets[0].value.value.args[0]) in [norm(st.targets[0]) for st in walk_no_nested(rn.node) if isinstance(st, ast.Assign) and st.value in tcalls]
    ctx.check(good, rn.short, "targets = definitions under [root]; returns <read>.direct", "exactly the definitions under the root namespace directory are returned - nothing from lookup directories", rn.where())
    rf = ctx.func("_namespace.read_files")
    rets = [norm(r.value) for r in walk_no_nested(rf.node) if isinstance(r, ast.Return) and r.value is not None]
    ctx.check("(definitions.direct, definitions.transitive)" in rets, rf.short, str(rets), "read_files returns the requested types and the rest of their dependency closure", rf.where())


def rule_r4(ctx: Ctx) -> None:
    ctx.rule("C10.R4", "direct/transitive bookkeeping: disjoint sets, requested => direct (promotion), never demoted, read at level > 0 and not requested => transitive", min_instances=1)
    fn = ctx.func("_namespace_reader._read_definitions")
    loops = [st for st in body_without_docstring(fn.node) if isinstance(st, ast.For) and norm(st.iter) == fn.params[0]]
    if len(loops) != 1:
        raise AnalysisError("_read_definitions: target loop not found")
    body = loops[0].body
    paths = PathEnumerator().run(body)
    read_var = None
    for st in ast.walk(loops[0]):
        if isinstance(st, ast.Assign) and isinstance(st.value, ast.Call) and isinstance(st.value.func, ast.Attribute) and st.value.func.attr == "read":
            read_var = norm(st.targets[0])
    tvar = norm(loops[0].target)

    def atom(e: Any) -> Any:
        if isinstance(e, tuple):
            if e[0] == "except":
                return A("EXC:" + e[1])
            raise AnalysisError("_read_definitions: unexpected marker %s" % e[0])
        s = norm(e)
        s = s.replace("file_pool.setdefault(%s.file_path, %s)" % (tvar, tvar), tvar)
        table = {
            "%s.composite_type is not None" % tvar: A("CACHED"),
            "%s.composite_type in direct" % tvar: A("IN_D"),
            "%s.composite_type in transitive" % tvar: A("IN_T"),
            "level == 0": A("LEVEL0"),
            "len(_pending_definitions) > 0": A("PENDING"),
            "isinstance(%s, ReadableDSDLFile)" % tvar: f_not(A("BADARG")),
        }
        if s in table:
            return table[s]
        raise AnalysisError("_read_definitions: condition outside the abstraction: %s" % s)

    forms = [(p, path_formula(p, atom)) for p in paths]
    bad = []
    n = 0
    for v in valuations(["CACHED", "IN_D", "IN_T", "LEVEL0", "PENDING"], lambda v: not (v["IN_D"] and v["IN_T"]) and ((v["IN_D"] or v["IN_T"]) <= v["CACHED"])):
        for keyerr in (False, True):
            vv = dict(v)
            vv["BADARG"] = False
            vv["EXC:KeyError"] = keyerr
            vv["EXC:Error"] = False
            vv["EXC:Exception"] = False
            taken = [p for p, f in forms if f_eval(f, vv)]
            if not taken:
                continue
            n += 1
            for p in taken:
                d, t = v["IN_D"], v["IN_T"]
                revisit = v["CACHED"] and (d or t)
                consistent = True
                for ev in p.events:
                    if isinstance(ev, ast.Call) and isinstance(ev.func, ast.Attribute) and norm(ev.func.value) in ("direct", "transitive") and ev.func.attr in ("add", "remove", "discard"):
                        which = norm(ev.func.value)
                        if ev.func.attr == "add":
                            if which == "direct":
                                d = True
                            else:
                                t = True
                        else:
                            if which == "transitive":
                                if not t and ev.func.attr == "remove" and not keyerr and not revisit:
                                    consistent = False  # remove on an absent element raises KeyError: this path is the handler's
                                if t and keyerr:
                                    consistent = False
                                t = False
                            else:
                                d = False
                if not consistent:
                    continue
                # for a first visit the type read is new: it is in neither set unless the same type was read before
                want_d = v["IN_D"] or v["LEVEL0"]
                want_t = (v["IN_T"] and not v["LEVEL0"]) or (not revisit and not v["LEVEL0"] and not v["IN_D"])
                if p.kind in ("raise",):
                    continue
                if (d, t) != (want_d, want_t) or (d and t):
                    bad.append({"before": {"direct": v["IN_D"], "transitive": v["IN_T"], "cached": v["CACHED"], "level0": v["LEVEL0"]}, "after": {"direct": d, "transitive": t}, "expected": {"direct": want_d, "transitive": want_t}})
    ctx.count(n)
    ctx.check(not bad and read_var is not None, fn.short, "transition table over (cached, in direct, in transitive, level 0)", "direct and transitive stay disjoint; requested files end direct; nothing is demoted; dependencies end transitive", fn.where(), bad[:4])
    # recursion on the pending dependencies one level deeper, then the pending set is cleared
    rec = [c for c in calls_in(fn.node) if dotted(c.func) == "_read_definitions"]
    good = len(rec) == 1 and any(k.arg == "level" and norm(k.value) == "level + 1" for k in rec[0].keywords) and all(any(k.arg == nm and norm(k.value) == nm for k in rec[0].keywords) for nm in ("direct", "transitive", "file_pool"))
    ctx.check(good, fn.short, "recursion: level + 1, same direct / transitive / file_pool", "dependencies are read one level deeper into the same result sets", fn.where(), nontrivial=False)
    cb = [c for c in ctx.repo.all_classes().values() if c.name == "_Callback" and c.module is fn.module]
    good = False
    if cb:
        od = cb[0].methods.get("on_definition")
        if od is not None:
            src = norm(od.node)
            good = "if %s.file_path not in file_pool" % od.params[2] in src and "_pending_definitions.add(%s)" % od.params[2] in src
    ctx.check(good, fn.short + "._Callback.on_definition", "pending <- dependency unless its file is already pooled", "exactly the referenced definitions are scheduled for the transitive pass", fn.where())


def rule_r5(ctx: Ctx) -> None:
    ctx.rule("C10.R5", "directory arguments are resolved (symlinks, relative spelling) before de-duplication / comparison", min_instances=3)
    f1 = ctx.func("_namespace._construct_lookup_directories_path_list")
    sets = [n for n in ast.walk(f1.node) if isinstance(n, ast.SetComp)]
    good = len(sets) == 1 and norm(sets[0].elt) == "%s.resolve()" % norm(sets[0].generators[0].target) and norm(sets[0].generators[0].iter) == f1.params[1]
    ext = [c for c in calls_in(f1.node) if isinstance(c.func, ast.Attribute) and c.func.attr == "extend" and norm(c.func.value) == f1.params[1] and norm(c.args[0]) == f1.params[0]]
    order_ok = bool(ext) and bool(sets) and ext[0].lineno < sets[0].lineno
    ctx.check(good and order_ok, f1.short, "{x.resolve() for x in lookups + roots}", "lookup and root directories are merged, then resolved, then de-duplicated (so equivalent spellings collapse)", f1.where())
    rn = ctx.func("_namespace.read_namespace")
    stores = [norm(st.value) for st in walk_no_nested(rn.node) if isinstance(st, ast.Assign) and norm(st.targets[0]) == rn.params[0]]
    ctx.check(stores == ["Path(%s).resolve()" % rn.params[0]], rn.short, str(stores), "the root namespace directory is resolved before use", rn.where())
    f3 = ctx.func("_namespace._ensure_no_namespace_name_collisions_or_nested_root_namespaces")
    stores = [norm(st.value) for st in walk_no_nested(f3.node) if isinstance(st, ast.Assign) and norm(st.targets[0]) == f3.params[0]]
    ctx.check(stores == ["{x.resolve() for x in %s}" % f3.params[0]], f3.short, str(stores), "directories are resolved before they are compared pairwise", f3.where())
    init = ctx.func("_dsdl_definition.DSDLDefinition.__init__")
    stores = {norm(st.targets[0]): norm(st.value) for st in walk_no_nested(init.node) if isinstance(st, ast.Assign) and len(st.targets) == 1}
    ctx.check(stores.get("self._file_path") == "Path(%s).resolve()" % init.params[1] and stores.get("self._root_namespace_path") == "Path(%s).resolve()" % init.params[2], init.short, "file and root paths resolved", "a definition's identity is computed from resolved paths", init.where())


def rule_r6(ctx: Ctx) -> None:
    repo = ctx.repo
    ctx.rule("C10.R6", "root / lookup directory sets are rejected exactly when one lies inside another or (collisions disallowed) two distinct ones share a name ignoring case", min_instances=2)
    fn = ctx.func("_namespace._ensure_no_namespace_name_collisions_or_nested_root_namespaces")
    chk = fn.nested.get("check_each")
    if chk is None:
        raise AnalysisError("anchor check_each missing")
    paths = paths_of(chk.node, opaque=["path_tuple"])
    pt = "path_tuple"

    def atom(e: Any) -> Any:
        if isinstance(e, tuple):
            if e[0] == "except" and e[1] == "ValueError" and any("relative_to" in norm(x) for x in e[3]):
                return f_not(A("IS_RELATIVE"))
            raise AnalysisError("check_each: unexpected marker %s %s" % (e[0], e[1]))
        s = norm(e)
        table = {
            "%s[0].samefile(%s[1])" % (pt, pt): A("SAMEFILE"),
            "%s[1].samefile(%s[0])" % (pt, pt): A("SAMEFILE"),
            "%s[0] == %s[1]" % (pt, pt): A("SAMEFILE"),
            fn.params[1]: A("ALLOW"),
            "%s[0].name.lower() == %s[1].name.lower()" % (pt, pt): A("NAME_CI_EQ"),
            "%s[0].name == %s[1].name" % (pt, pt): f_and(A("NAME_CI_EQ"), A("NAME_CS_EQ")),
            "%s[0].is_relative_to(%s[1])" % (pt, pt): A("IS_RELATIVE"),
            "%s[1] in %s[0].parents" % (pt, pt): A("IS_RELATIVE"),
            "%s[0].parent == %s[1]" % (pt, pt): f_and(A("IS_RELATIVE"), A("IS_CHILD")),
        }
        if s in table:
            return table[s]
        raise AnalysisError("check_each: condition outside the abstraction: %s" % s)

    forms = [(p, path_formula(p, atom)) for p in paths]
    used = sorted({a for _, f in forms for a in f_atoms(f)})
    atoms = sorted(set(["SAMEFILE", "ALLOW", "NAME_CI_EQ", "IS_RELATIVE"]) | set(used))
    bad = []
    n = 0
    for v in valuations(atoms, lambda v: not (v["SAMEFILE"] and not v["NAME_CI_EQ"]) and not (v.get("IS_CHILD") and not v["IS_RELATIVE"]) and not (v.get("NAME_CS_EQ") and not v["NAME_CI_EQ"])):
        # distinct directories: SAMEFILE pairs are also relative to each other (trivially)
        if v["SAMEFILE"] and not v["IS_RELATIVE"]:
            continue
        taken = [p for p, f in forms if f_eval(f, v)]
        n += 1
        if len(taken) != 1:
            raise AnalysisError("check_each: %d feasible paths for %s" % (len(taken), v))
        p = taken[0]
        got = norm(p.value) == "True" if p.kind == "return" else False
        want = (not v["SAMEFILE"]) and (((not v["ALLOW"]) and v["NAME_CI_EQ"]) or v["IS_RELATIVE"])
        if got != want:
            bad.append({"state": {k: v[k] for k in atoms}, "found": "rejected" if got else "accepted"})
    ctx.count(n)
    ctx.check(not bad, chk.short, "FAIL <=> !SAMEFILE & ((!ALLOW & NAME_CI_EQ) | IS_RELATIVE)", "rejection must happen exactly for nested roots (at any depth) and, if disallowed, for equal names ignoring case", chk.where(), bad[:4])
    # all ordered pairs; both failures are InvalidDefinitionErrors
    src = norm(fn.node)
    pairs_ok = "product(%s, %s)" % (fn.params[0], fn.params[0]) in src
    raises = [r for r in ast.walk(fn.node) if isinstance(r, ast.Raise)]
    ide_ok = len(raises) >= 2 and all(isinstance(exc_class_of(repo, fn.module, None, r.exc), ClassInfo) and repo.is_subclass(exc_class_of(repo, fn.module, None, r.exc), "_error.InvalidDefinitionError") for r in raises)
    ctx.check(pairs_ok and ide_ok, fn.short, "all ordered pairs; %d InvalidDefinitionError raises" % len(raises), "every ordered pair of directories is examined and each failure kind is an InvalidDefinitionError", fn.where())
    caller = ctx.func("_namespace._construct_lookup_directories_path_list")
    calls = [c for c in calls_in(caller.node) if dotted(c.func) == fn.name]
    ctx.check(len(calls) == 1 and [norm(a) for a in calls[0].args] == [caller.params[1], caller.params[2]], caller.short, norm(calls[0]) if calls else "?", "the merged, resolved directory list is what gets checked", caller.where(), nontrivial=False)


def run(ctx: Ctx) -> None:
    ctx.attempt(rule_r1, ctx)
    ctx.attempt(rule_r2, ctx)
    ctx.attempt(rule_r3, ctx)
    ctx.attempt(rule_r4, ctx)
    ctx.attempt(rule_r5, ctx)
    ctx.attempt(rule_r6, ctx)
    ctx.assume("dict iteration order is insertion order (language guarantee), so dicts filled in a deterministic order are deterministic")
    ctx.assume("which of several simultaneous directory faults is reported first may depend on set order; the rejection itself does not")
    ctx.undecided("read_files == read_namespace type equality; case-insensitive file systems; symlink semantics of the OS; tie order of colliding (same name+version) lookup definitions")
