"""
C13, text level (R7): texts that are nearly definitions - the C03 corpus with one or two tokens deleted, doubled, swapped or
replaced by a token from a pool of operators, brackets, keywords, literals and odd characters, cut off at an arbitrary
position, or with their lines shuffled - are read by the repository's front end (evaluated from the source).  Reading must
end in a model or in an InvalidDefinitionError whose path is the file; any other exception class (one of Python's own, an
InternalError) is a violation.  The mutations come from a fixed pseudo-random sequence: the same texts on every run.
"""
from __future__ import annotations

import random
import re
from typing import Any, Dict, List, Tuple

from ..core import AnalysisError, Ctx
from . import textworld as T
from .c03text import ROOT, corpus, front_end, job_for
from .c04text import is_invalid_definition

POOL = ["@", "@@", "#", "---", "--", "=", "==", "===", "(", ")", "[", "]", "{", "}", "[<=", "<", "<=", ",", ".", "..", "+", "-", "*", "**", "/", "%", "!", "||", "&&", "|", "&", "^", "~", "'", '"', "'a", "\\", "'\\q'", "'\\u12'", "'\\U00110000'", "0x", "0b2", "08", "1e", "1e999", "1e-999", "0.0.0", "1_", "_", "__", "9" * 60, "1" + "0" * 30, "-0", "true", "false", "bool", "void", "void0", "void65", "uint", "uint0", "uint65", "int1", "float", "float7", "truncated", "saturated", "saturated truncated", "utf8", "byte", "@sealed", "@extent", "@union", "@deprecated", "@assert", "@print", "@assert false", "_offset_", "_offset_.min", "{}", "{{}}", "{1,{1}}", "[]", "[0]", "[-1]", "[<1]", "[2**70]", "ns", "ns.", "ns.B", "ns.B.1", "ns.B.1.0", "B.1.0.0", "B.-1.0", "B.1.256", "Nope.1.0", "M1.1.0", "\t", "\x0b", "\x0c", "\x00", "﻿", " ", " ", "é", "١", "１", "\r", "\r\r\n", "\n\n", "(" * 40, "!" * 30, "-" * 3 + "-" * 20, "1 / 0", "1 % 0", "0 ** -1", "2 ** 0.5", "(-8) ** (1/3)", "2 ** 2 ** 2 ** 2 ** 2", "'a' * 3", "{1} + {2}", "{1}.min.min", "true.x", "1 .min"]

TOKEN = re.compile(r"\r?\n|[ \t]+|#[^\r\n]*|'[^'\r\n]*'|\"[^\"\r\n]*\"|[A-Za-z_][A-Za-z0-9_]*|\d[\d_]*|\*\*|<=|>=|==|!=|\|\||&&|---+|.", re.S)


def mutants(text: str, rnd: random.Random, n: int) -> List[str]:
    toks = TOKEN.findall(text)
    out = []
    for _ in range(n):
        t = list(toks)
        for _k in range(rnd.choice((1, 1, 1, 2, 3))):
            if not t:
                break
            i = rnd.randrange(len(t))
            how = rnd.randrange(8)
            if how == 0:
                del t[i]
            elif how == 1:
                t.insert(i, t[i])
            elif how == 2:
                j = rnd.randrange(len(t))
                t[i], t[j] = t[j], t[i]
            elif how in (3, 4):
                t[i] = rnd.choice(POOL)
            elif how == 5:
                t.insert(i, rnd.choice(POOL))
            elif how == 6:
                t = t[: i + 1]
            else:
                lines = "".join(t).split("\n")
                rnd.shuffle(lines)
                t = TOKEN.findall("\n".join(lines))
        out.append("".join(t))
    return out


def rule_r7_garbage(ctx: Ctx) -> None:
    ctx.rule("C13.R7", "nearly valid and garbled definition texts (the C03 corpus with tokens deleted, doubled, swapped, replaced from a pool of operators / brackets / keywords / odd literals / odd characters, cut off, lines shuffled; a fixed pseudo-random sequence) read by the evaluated front end: a model, or an InvalidDefinitionError naming the file - never another exception class", min_instances=2)
    fe = front_end(ctx)
    deps, bases = corpus()
    dep_files = {d.file_name: T.render(d) for d in deps}
    rnd = random.Random(20260925)
    per = 45 if ctx.tier == "thorough" else 9
    plan: List[Tuple[str, str]] = []
    for d in bases:
        for m in mutants(T.render(d), rnd, per):
            plan.append((d.file_name, m))
    # the same pool inside an otherwise valid one-line definition, one token at a time
    for tok in POOL:
        plan.append(("G.1.0.dsdl", "uint8 a\n%s\n@sealed\n" % tok))
        plan.append(("G.1.0.dsdl", "uint8 a\n@assert %s\n@sealed\n" % tok))
        plan.append(("G.1.0.dsdl", "uint8[%s] a\n@sealed\n" % tok))
        if ctx.tier == "thorough":
            plan.append(("G.1.0.dsdl", "%s a\n@sealed\n" % tok))
            plan.append(("G.1.0.dsdl", "uint8 K = %s\n@sealed\n" % tok))
            plan.append(("G.1.0.dsdl", "uint8 a\n@extent %s\n" % tok))
    jobs = []
    for fn, text in plan:
        files = dict(dep_files) if re.search(r"\b(B|D|Old)\.\d", text) else {}
        files[fn] = text
        jobs.append(job_for(files))
    outs = fe.read_many(jobs)
    ctx.count(len(plan))
    crashes, no_path = [], []
    accepted = 0
    limit_hits = 0
    for (fn, text), o in zip(plan, outs):
        if o["raised"] is None:
            accepted += 1
            continue
        if not is_invalid_definition(ctx, o["raised"]) and o.get("int_str_limit"):
            limit_hits += 1  # a value of more than 4300 digits met a text conversion: decided, context by context, by C13.R8
        elif not is_invalid_definition(ctx, o["raised"]):
            crashes.append({"text": text, "raised": o["raised"] + (" (%s)" % o.get("wrapped") if o.get("wrapped") else ""), "line": o["line"]})
        elif not o["path"] or not str(o["path"]).startswith(ROOT + "/"):
            no_path.append({"text": text, "raised": o["raised"], "path": o["path"]})
    where = "pydsdl/_parser.py"
    ctx.check(not crashes, "read_namespace over garbled texts", "%d texts (%d of them still valid)" % (len(plan), accepted), "a text offered as a definition makes the reading end in %s, which is not an InvalidDefinitionError: %r" % (crashes[0]["raised"] if crashes else "", crashes[0]["text"][:200] if crashes else ""), where, crashes[:10])
    ctx.check(not no_path, "read_namespace over garbled texts", "every rejection names the file", "an invalid definition is reported without the path of its file: %r -> %s (path %s)" % (no_path[0]["text"][:120] if no_path else "", no_path[0]["raised"] if no_path else "", no_path[0]["path"] if no_path else ""), where, no_path[:10])
    ctx.analysed["C13.R7.texts"] = {"read": len(plan), "still valid": accepted, "left to C13.R8 (4300-digit conversions)": limit_hits}


HUGE = ["10 ** 5000", "-(10 ** 5000)", "10 ** 5000 / 3", "2 ** 2 ** 2 ** 2 ** 2"]
HUGE_CONTEXTS = [
    ("the initializer of an integer constant", "uint8 K = %s\n@sealed\n"),
    ("the initializer of a float constant", "float64 K = %s\n@sealed\n"),
    ("the initializer of a boolean constant", "bool K = %s\n@sealed\n"),
    ("the capacity of a fixed array", "uint8[%s] a\n@sealed\n"),
    ("the capacity of a variable array", "uint8[<=%s] a\n@sealed\n"),
    ("the operand of @extent", "uint8 a\n@extent %s\n"),
    ("the operand of @extent, plus one", "uint8 a\n@extent %s + 1\n"),
    ("the operand of @print", "uint8 a\n@print %s\n@sealed\n"),
    ("an element of a set given to @print", "uint8 a\n@print {%s}\n@sealed\n"),
    ("the operand of @assert", "uint8 a\n@assert %s\n@sealed\n"),
    ("an operand of a comparison in @assert", "uint8 a\n@assert %s == 1\n@sealed\n"),
    ("an operand of a bitwise operator", "uint8 a\n@assert (%s | 1.5) == 1\n@sealed\n"),
    ("an operand of an attribute access", "uint8 a\n@assert (%s).nothing == 1\n@sealed\n"),
    ("the dividend of a division by zero", "uint8 a\n@assert (%s) / 0 == 1\n@sealed\n"),
    ("the dividend of a modulo by zero", "uint8 a\n@assert (%s) %% 0 == 1\n@sealed\n"),
    ("a variant of a union's tag count", "@union\nuint8 a\nuint8[%s] b\n@sealed\n"),
    ("the operand of @extent, in a service response", "uint8 a\n@sealed\n---\nuint8 b\n@extent %s + 4\n"),
]


def rule_r8_huge(ctx: Ctx) -> None:
    ctx.rule("C13.R8", "expressions whose value has more than 4300 decimal digits (CPython refuses to render such an integer as text: ValueError) in every place an expression can stand: reading ends in a model or an InvalidDefinitionError, also where the value would be quoted in an error message or handed to the print handler", min_instances=len(HUGE_CONTEXTS))
    fe = front_end(ctx)
    plan = [(label, tmpl % h) for label, tmpl in HUGE_CONTEXTS for h in HUGE]
    outs = fe.read_many([job_for({"H.1.0.dsdl": text}, handler=True) for _, text in plan])
    ctx.count(len(plan))
    by_label: Dict[str, List[Dict[str, Any]]] = {}
    for (label, text), o in zip(plan, outs):
        if o["raised"] is not None and not is_invalid_definition(ctx, o["raised"]):
            by_label.setdefault(label, []).append({"text": text, "raised": o["raised"] + (" (%s)" % o.get("wrapped") if o.get("wrapped") else ""), "conversion refused at": o.get("int_str_limit")})
    for label, _ in HUGE_CONTEXTS:
        bad = by_label.get(label, [])
        ctx.check(not bad, "a value of more than 4300 decimal digits", label, "reading ends in %s, not in a model or an InvalidDefinitionError: %r" % (bad[0]["raised"] if bad else "", bad[0]["text"] if bad else ""), "pydsdl/_expression/_primitive.py", bad[:4])


def run(ctx: Ctx) -> None:
    ctx.attempt(rule_r7_garbage, ctx)
    ctx.attempt(rule_r8_huge, ctx)
