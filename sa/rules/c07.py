"""
C07 -- Deserialization is total and obeys implicit truncation / zero extension.

R1  escaping exceptions of `deserialize` (E4) are SerDesError / ValueError subclasses (TypeError only at the explicit
    ServiceType guards); implicit partial operations in the codec are discharged (dominating bounds checks, struct format
    table sizes, byte-valued elements).
R2  validation guards with exact boundaries at every copy: variable array length in [0, capacity], union tag in
    [0, n-1], delimiter header 8*h <= remaining bits (top-level and nested copies agree); rejected, never clamped.
R3  offset accounting: on every path of read_bits / write_bits the bit offset advances by exactly bit_length (inductive
    over the recursive calls; divmod gives bit_length = 8*full_bytes + remaining), including the out-of-limit paths,
    which return zeros and still advance; bounded_subreader(n) advances the parent by exactly n.
R4  no hidden inputs: no module-level mutable state, readers touch only their own buffer.
"""
from __future__ import annotations

import ast
import struct as _struct
from typing import Any, Dict, List, Optional, Set, Tuple

from ..callgraph import CallGraph, Site, Ty
from ..core import AnalysisError, ClassInfo, Ctx, External, FuncInfo, calls_in, dotted, norm, parents_map, walk_no_nested
from ..decide import Path, PathEnumerator, paths_of
from ..excflow import ExcFlow, exc_name
from ..fold import Folder, Unfoldable
from ..regions import evaluate_region, exc_class_of, mentions

SD = "_serdes"


# ---------------------------------------------------------------------------------------------------- R1
def _implicit_serdes(ctx: Ctx, discharged: List[Dict[str, Any]]) -> Any:
    repo = ctx.repo

    def rec(fn: FuncInfo, n: ast.AST, why: str) -> None:
        discharged.append({"site": "%s:%d" % (fn.short, getattr(n, "lineno", 0)), "op": norm(n)[:60], "discharge": why})

    def implicit(fn: FuncInfo, q: str, root: ast.AST, loc: Dict[str, Optional[Ty]]) -> List[Tuple[Any, ast.AST, str]]:
        out: List[Tuple[Any, ast.AST, str]] = []
        if fn.module.name != "pydsdl._serdes":
            return out
        pm = parents_map(fn.node)
        stack = [root]
        first = True
        while stack:
            n = stack.pop()
            if not first and isinstance(n, (ast.FunctionDef, ast.ClassDef, ast.Lambda)):
                continue
            first = False
            stack.extend(ast.iter_child_nodes(n))
            if isinstance(n, ast.Subscript) and isinstance(n.ctx, ast.Load) and not isinstance(n.slice, ast.Slice):
                v, idx = norm(n.value), norm(n.slice)
                if isinstance(n.value, (ast.Dict,)):
                    out.append(("ext:KeyError", n, norm(n)[:50]))
                    continue
                if v.startswith("dict[") or v.startswith("list[") or v.startswith("typing.") or v in ("tuple", "list", "dict"):
                    continue  # type expressions (typing.cast(list[int], ...))
                if isinstance(n.slice, ast.Constant) and isinstance(n.slice.value, int) and isinstance(n.value, ast.Call) and (dotted(n.value.func) or "").split(".")[-1] in ("unpack", "unpack_from"):
                    rec(fn, n, "struct.unpack of a single-value format returns a 1-tuple")
                    continue
                # guarded by a dominating comparison of the index against len(value) (if / elif chain with a raise, or an
                # enclosing `if idx < len(v)`)
                if _index_guarded(fn, n, pm):
                    rec(fn, n, "index dominated by a bounds check")
                    continue
                # dict-typed receivers (obj[key] after `for key in obj` / membership) belong to serialization only
                if fn.name.startswith("_serialize") or fn.name in ("serialize", "_normalize_relaxed_value", "_default_value"):
                    continue
                out.append(("ext:IndexError", n, norm(n)[:50]))
            elif isinstance(n, ast.Call):
                name = dotted(n.func) or ""
                if name == "struct.unpack":
                    ok = _unpack_sizes_agree(ctx, fn, n)
                    if ok is None:
                        raise AnalysisError("%s: cannot establish how many bytes reach %s (expected a buffer filled by bit_length // 8 reads of 8 bits)" % (fn.qualname, norm(n)[:60]))
                    if ok:
                        rec(fn, n, "for every float width the format's size equals the number of bytes read (abstract runs of the decoder)")
                    else:
                        out.append(("ext:struct.error", n, norm(n)[:50]))
                elif name == "bytes" and n.args and fn.name.startswith("_deserialize"):
                    # bytes(list of ints) raises ValueError outside 0..255: elements come from read_bits(8) / uint8 elements
                    rec(fn, n, "elements are values of 8-bit reads")
                elif name == "next" and len(n.args) == 1:
                    out.append(("ext:StopIteration", n, norm(n)[:50]))
        return out

    return implicit


def _index_guarded(fn: FuncInfo, n: ast.Subscript, pm: Dict[ast.AST, ast.AST]) -> bool:
    """
    Is `v[idx]` protected by a bounds test?  Either an enclosing `if <test>` whose test implies idx < len(v), or an earlier
    `if <test>: raise` (no else) whose test is implied by idx >= len(v).  Tests are compared by meaning: single-assignment
    locals are substituted and the test is folded over a small grid of (idx, len(v)).
    """
    from ..decide import substitute
    from ..linform import _local_defs, _resolve

    v, idx = norm(n.value), norm(n.slice)
    defs = _local_defs(fn)
    defs.pop(idx, None)  # the index itself stays symbolic
    v_res = norm(_resolve(n.value, defs))  # the container by its definition, when it is a single-assignment local

    class _Walrus(ast.NodeTransformer):
        """`(k := e) >= n` tests the value just bound to k: read as `k >= n`"""

        def visit_NamedExpr(self, x: ast.NamedExpr) -> Any:
            return ast.copy_location(ast.Name(id=x.target.id, ctx=ast.Load()), x)

    def truth_table(test: ast.AST) -> Optional[Dict[Tuple[int, int], bool]]:
        import copy as _copy

        t = _resolve(_Walrus().visit(_copy.deepcopy(test)), defs)
        out: Dict[Tuple[int, int], bool] = {}
        for i in range(0, 5):
            for ln in range(0, 5):
                def hook(e: ast.expr, f: Folder) -> Any:
                    s_ = norm(e)
                    if s_ == idx:
                        return i
                    if s_ in ("len(%s)" % v, "len(%s)" % v_res):
                        return ln
                    return NotImplemented

                try:
                    out[(i, ln)] = bool(Folder({}, None, None, None, hook).fold(t))  # type: ignore
                except Unfoldable:
                    return None
        return out

    cur: ast.AST = n
    while cur in pm:
        par = pm[cur]
        if isinstance(par, ast.If) and any(cur is s_ or cur in ast.walk(s_) for s_ in par.body):
            tt = truth_table(par.test)
            if tt is not None and all((not val) or i < ln for (i, ln), val in tt.items()):
                return True
        if isinstance(par, ast.IfExp) and cur is par.body:
            tt = truth_table(par.test)
            if tt is not None and all((not val) or i < ln for (i, ln), val in tt.items()):
                return True
        if isinstance(par, ast.BoolOp) and isinstance(par.op, ast.And) and cur in par.values:
            # `i < len(v) and v[i] ...`: the conjuncts to the left have been found true when this one is evaluated
            for earlier in par.values[: par.values.index(cur)]:
                tt = truth_table(earlier)
                if tt is not None and all((not val) or i < ln for (i, ln), val in tt.items()):
                    return True
        cur = par
    for st in walk_no_nested(fn.node):
        if isinstance(st, ast.If) and st.lineno < n.lineno and st.body and isinstance(st.body[-1], ast.Raise) and not st.orelse:
            tt = truth_table(st.test)
            if tt is not None and all(val for (i, ln), val in tt.items() if i >= ln):
                # the index variable must not be reassigned in between (single assignment)
                assigns = [a for a in walk_no_nested(fn.node) if isinstance(a, ast.Assign) and any(norm(t2) == idx for t2 in a.targets)]
                if len(assigns) <= 1:
                    return True

    def stores_idx(node: ast.AST) -> bool:
        for a in ast.walk(node):
            if isinstance(a, ast.Assign) and any(norm(t2) == idx or (isinstance(t2, (ast.Tuple, ast.List)) and any(norm(x) == idx for x in t2.elts)) for t2 in a.targets):
                return True
            if isinstance(a, (ast.AugAssign, ast.AnnAssign)) and norm(a.target) == idx:
                return True
            if isinstance(a, ast.NamedExpr) and norm(a.target) == idx:
                return True
        return False

    # the statement that holds the subscript, and the block it stands in
    stmt: ast.AST = n
    while stmt in pm and not isinstance(stmt, ast.stmt):
        stmt = pm[stmt]
    block_owner = pm.get(stmt)
    for field in ("body", "orelse", "finalbody"):
        block = getattr(block_owner, field, None) if block_owner is not None else None
        if isinstance(block, list) and stmt in block:
            pos = block.index(stmt)
            # (a) an earlier statement of the same block leaves it (raise / break / continue / return) when the index is out
            # of range, and nothing in between stores the index
            for j in range(pos - 1, -1, -1):
                prev = block[j]
                if isinstance(prev, ast.If) and not prev.orelse and prev.body and isinstance(prev.body[-1], (ast.Raise, ast.Break, ast.Continue, ast.Return)):
                    tt = truth_table(prev.test)
                    if tt is not None and all(val for (i, ln), val in tt.items() if i >= ln) and not any(stores_idx(x) for x in block[j + 1 : pos]):
                        return True
                if stores_idx(prev):
                    break
            # (b) the block is the body of a `while` whose test implies the bound, and nothing before the subscript stores it
            if isinstance(block_owner, ast.While) and field == "body":
                tt = truth_table(block_owner.test)
                if tt is not None and all((not val) or i < ln for (i, ln), val in tt.items()) and not any(stores_idx(x) for x in block[:pos]) and not stores_idx(stmt) or (isinstance(block_owner, ast.While) and field == "body" and tt is not None and all((not val) or i < ln for (i, ln), val in tt.items()) and not any(stores_idx(x) for x in block[:pos]) and isinstance(stmt, ast.Assign) and not any(norm(t2) == idx for t2 in stmt.targets)):
                    return True
    return False


def _unpack_sizes_agree(ctx: Ctx, fn: FuncInfo, call: ast.Call) -> Optional[bool]:
    """
    Does struct.unpack always receive as many bytes as its format needs?  Decided on the abstract runs of the float decoder
    (sa/codec.py): for each float width the value returned is UNPACKED(format, number of bytes read).
    True: sizes agree for every width.  False: a format's size differs from the bytes read.  None: not evaluable.
    """
    from .. import codec as C
    from ..fold import Sym

    if fn.module.name != "pydsdl._serdes":
        return None  # (the unpack may sit in a helper of the primitive decoder; the runs below go through the decoder itself)
    for width in (16, 32, 64):
        ft = C.type_sym(ctx, "FloatType", bit_length=width, cast_mode="CastMode.SATURATED", alignment_requirement=1, name="float%d" % width, inclusive_value_range=Sym(min=-1, max=1))
        try:
            runs = C.explore_codec(ctx, "_deserialize_primitive", lambda sink: ([C.AReader(sink, "r"), ft], {}))
        except AnalysisError:
            return None
        for r in runs:
            if r.raised:
                continue
            res = r.result
            if not (isinstance(res, tuple) and len(res) == 3 and res[0] == "UNPACKED" and isinstance(res[1], str) and isinstance(res[2], int)):
                return None
            try:
                if _struct.calcsize(res[1]) != res[2]:
                    return False
            except _struct.error:
                return False
    return True


def _guarded_by_service_test(ctx: Ctx, g: Any, org: Any) -> bool:
    """the TypeError is raised exactly when a type handed to the codec is a service type: the innermost guard of the raise is an
    isinstance test against ServiceType (wherever the guard lives: the entry point itself or a helper it calls)"""
    from ..decide import paths_of

    fn = g.funcs.get(org.func)
    if fn is None:
        return False
    hits = 0
    for p in paths_of(fn.node):
        if p.kind != "raise" or p.value is None:
            continue
        if norm(p.value)[:30] not in org.text and org.text[:30] not in "raise " + norm(p.value):
            continue
        conds = [(c, pol) for c, pol in p.conds if not isinstance(c, tuple)]
        if not conds:
            return False
        c, pol = conds[-1]
        if isinstance(c, ast.UnaryOp) and isinstance(c.op, ast.Not):
            c, pol = c.operand, not pol
        if not (pol and isinstance(c, ast.Call) and dotted(c.func) == "isinstance" and len(c.args) == 2 and (dotted(c.args[1]) or "").split(".")[-1] == "ServiceType"):
            return False
        hits += 1
    return hits > 0


def _service_never_nested(ctx: Ctx) -> bool:
    """a service type cannot be the type of a field, a padding, a constant, an array element or the inner type of a delimited
    type: each constructor, evaluated over a constructed service type, refuses it (the facts C13 decides) - so inside the codec
    the only service type that can be met is the schema the caller passed, which the entry guard rejects first"""
    hit = getattr(ctx, "_svc_never_nested", None)
    if hit is None:
        from . import c05 as M
        from .c13 import service_facts

        try:
            facts = service_facts(ctx)
            nested = [f for f in facts if f[1].endswith(".__init__")]
            hit = len(nested) >= 5 and all(f[0] for f in nested)
            if hit:
                rq = M.structure(ctx, name="ns.S.Request", half=True)
                rs = M.structure(ctx, name="ns.S.Response", half=True)
                svc = M.build_model(ctx, "_serializable._composite.ServiceType", request=rq, response=rs, fixed_port_id=None)
                dl = M.build_model(ctx, "_serializable._composite.DelimitedType", inner=svc, extent=64) if not isinstance(svc, str) else "?"
                hit = isinstance(dl, str)  # construction fails, whatever the class of the error
        except AnalysisError:
            hit = False
        ctx._svc_never_nested = hit  # type: ignore
    return bool(hit)


def rule_r1(ctx: Ctx) -> None:
    repo = ctx.repo
    ctx.rule("C07.R1", "exceptions escaping deserialize are SerDesError/ValueError subclasses (TypeError only from the explicit ServiceType guards); implicit partial operations in the codec are discharged", min_instances=4)
    g = CallGraph(repo)
    ctx.analysed["callgraph"] = g.stats()
    discharged: List[Dict[str, Any]] = []
    svc_guard_funcs = ("deserialize", "_deserialize_composite")

    def suppress(fn: FuncInfo, node: ast.Raise, e: Any) -> bool:
        # abstract accessors of the model are overridden in every concrete class
        if e == "ext:NotImplementedError":
            from .c13 import abstract_never_runs

            return abstract_never_runs(repo, fn)
        return False

    def drop(caller: str, site: Site, callee: str) -> bool:
        # ServiceType.bit_length_set / iterate_fields: the codec never asks a service type for its layout
        return False

    ef = ExcFlow(g, implicit=_implicit_serdes(ctx, discharged), drop_callee=drop, suppress_explicit=suppress)
    ef.run()
    root = ctx.func(SD + ".deserialize")
    serdes_err = ctx.cls(SD + ".SerDesError")
    bad = []
    allowed = []
    for (cls, org), w in sorted(ef.escapes.get(root.qualname, {}).items(), key=lambda kv: (exc_name(kv[0][0]), repr(kv[0][1]))):
        name = exc_name(cls)
        ok = False
        if isinstance(cls, ClassInfo):
            ok = repo.is_subclass(cls, serdes_err)
        elif ef.is_sub(cls, "ext:ValueError"):
            ok = True
        elif cls == "ext:TypeError" and org.kind == "raise" and _guarded_by_service_test(ctx, g, org):
            ok = True
        elif cls == "ext:TypeError" and org.kind == "raise" and getattr(g.funcs.get(org.func), "cls", None) is not None and g.funcs[org.func].cls.name == "ServiceType" and _service_never_nested(ctx):
            ok = True  # raised by a method of the service type itself: its receiver can only be the schema passed in, rejected at entry
        elif cls in ("ext:MemoryError", "ext:RecursionError"):
            ok = True
        ctx.count()
        (allowed if ok else bad).append("%s from %s" % (name, repr(org)))
        if not ok:
            ctx.check(False, org.func.replace("pydsdl.", ""), "%s: %s" % (exc_name(org.exc), org.text), "%s can escape deserialize (only SerDesError / ValueError are allowed)" % name, org.where, {"path": ef.witness_path(root.qualname, (cls, org))})
    ctx.check(not bad, root.short, "escaping classes: %s" % sorted({a.split(" from ")[0] for a in allowed}), "deserialize raises only SerDesError / ValueError (and TypeError for service types)", root.where(), {"n_origins": len(allowed)})
    for d in discharged:
        if d["site"].split(":")[0].split(".")[-1].startswith(("_deserialize", "deserialize", "read_bits", "remaining", "bounded", "align")) or "_BitReader" in d["site"]:
            ctx.check(True, d["site"].rsplit(":", 1)[0], d["op"], "discharged: %s" % d["discharge"], d["site"])
    ctx.assume("recursion depth is bounded by the nesting of the type; memory/time for huge declared array lengths is not decided")


# ---------------------------------------------------------------------------------------------------- R2
def delimiter_guard_table(ctx: Ctx, fname: str, runs: Any, rems: Any = (0, 7, 8, 9, 16, 64), headers: Any = (0, 1, 2, 8, 9, 2**32 - 1)) -> List[Dict[str, Any]]:
    """the decision of the delimiter-header guard for (header value, bits remaining after the header): rejected exactly when
    8 x header exceeds what remains; otherwise a window of exactly 8 x header bits (shared with C14.R6)"""
    from .. import codec as C

    bad: List[Dict[str, Any]] = []
    for rem in rems:
        for h in headers:
            sel = C.select_run(runs, {"read": h, "remaining": rem})
            ctx.count()
            if len(sel) != 1:
                raise AnalysisError("%s: %d abstract runs match header %d with %d bits remaining" % (fname, len(sel), h, rem))
            r = sel[0]
            if 8 * h > rem:
                if r.raised != "DelimiterHeaderError":
                    bad.append({"header": h, "remaining": rem, "found": r.raised or "accepted"})
                continue
            subs = [e for e in C.normalize(r.events, True) if e[0] == "SUB"]
            width = None
            if len(subs) == 1:
                try:
                    width = C.eval_abs(C._subst_atoms(subs[0][2], {"read": h}), {})
                except (KeyError, TypeError):
                    width = None
            if r.raised or len(subs) != 1 or width != 8 * h:
                bad.append({"header": h, "remaining": rem, "found": r.raised or "window of %s bits" % width})
    return bad


def rule_r2(ctx: Ctx) -> None:
    """decision tables of the reader's validation guards, from the abstract runs of the decoder (sa/codec.py)"""
    from .. import codec as C
    from . import codec_common as K

    ctx.rule("C07.R2", "validation guards: array length in [0, capacity]; union tag in [0, n-1]; delimiter header 8*h <= remaining bits at both copies; the validated value is used unchanged (as many elements as the prefix says, the variant the tag names, a window of exactly 8*h bits)", min_instances=6)
    S = K.schemas(ctx)
    where = "pydsdl/_serdes.py"
    # ---- variable-length arrays
    for arr in S["variable_arrays"]:
        runs = K.reader_runs(ctx, "_deserialize_array", arr)
        bad = []
        cap = arr.capacity
        for length in sorted({0, 1, cap - 1, cap, cap + 1, 2 * cap + 7, 2 ** arr.length_field_type.bit_length - 1}):
            sel = C.select_run(runs, {"read": length})
            ctx.count()
            if len(sel) != 1:
                raise AnalysisError("_deserialize_array: %d abstract runs match length %d" % (len(sel), length))
            r = sel[0]
            if length > cap:
                if r.raised != "ArrayLengthError":
                    bad.append({"length": length, "capacity": cap, "found": r.raised or "accepted"})
                continue
            evs = C.of_io(C.normalize(r.events, True), "r")
            rep = [e for e in evs if e[0] == "REPEAT"]
            count = None
            if len(rep) == 1:
                try:
                    count = C.eval_abs(C._subst_atoms(rep[0][1], {"read": length}), {})
                except (KeyError, TypeError):
                    count = None
            elif not rep:
                # a loop that compares a running count with the length read unrolls into one run per length: count the elements
                count = sum(1 for e in evs if e[0] == "EMIT")
            if r.raised or len(rep) > 1 or count != length:
                bad.append({"length": length, "capacity": cap, "found": r.raised or "elements decoded: %s" % count})
        ctx.check(not bad, "_serdes._deserialize_array[%s]" % arr.name, "array length guard", "a length prefix above the capacity is ArrayLengthError; otherwise exactly that many elements are decoded (no clamping)", where, bad[:4])
    # ---- unions
    for u in S["unions"]:
        runs = K.reader_runs(ctx, "_deserialize_composite", u)
        n = len(u.fields)
        bad = []
        for tag in sorted({0, 1, n - 1, n, n + 1, 255}):
            sel = C.select_run(runs, {"read": tag})
            ctx.count()
            if tag >= n:
                if not sel or any(r.raised != "UnionTagError" for r in sel):
                    bad.append({"tag": tag, "variants": n, "found": [r.raised or "accepted" for r in sel]})
                continue
            ok = [r for r in sel if not r.raised]
            if len(sel) != 1 or len(ok) != 1 or not (isinstance(ok[0].result, dict) and list(ok[0].result) == [u.fields[tag].name]):
                bad.append({"tag": tag, "variants": n, "found": [r.raised or r.result for r in sel]})
        ctx.check(not bad, "_serdes._deserialize_composite[%s]" % u.name, "union tag guard", "a tag beyond the last variant is UnionTagError; otherwise the variant with that index is decoded (no wrapping)", where, bad[:4])
    # ---- the bits a reader hands out are the caller's: the reader is built over the input as given - not over a lengthened or
    # shortened copy, whose length would take the place of the data's in every comparison with `remaining_bits`
    for sch in (S["delimited"][0], S["structures"][1]):
        for kw in ({"with_delimiter_header": True}, {}) if sch is S["delimited"][0] else ({},):
            runs0 = K.reader_runs(ctx, "deserialize", sch, **kw)
            over = sorted({repr(e_[1]) for r in runs0 for e_ in r.events if e_[0] == "READER-OVER"})
            ctx.count()
            ctx.check(over == [repr("data")], "_serdes.deserialize[%s]" % sch.name, "the reader is built over %s" % ", ".join(over or ["?"]), "missing trailing bytes read as zeros *implicitly*: the amount of data that remains - which the delimiter-header guard compares with - is that of the input given", where, over)
    # ---- delimiter header, both copies
    for d in S["delimited"][:1]:
        for fname, kw in (("_deserialize_composite", {}), ("deserialize", {"with_delimiter_header": True})):
            runs = K.reader_runs(ctx, fname, d, **kw)
            bad = delimiter_guard_table(ctx, fname, runs)
            ctx.check(not bad, "_serdes.%s[DelimitedType]" % fname, "delimiter header guard", "a header announcing more bytes than remain is DelimiterHeaderError; otherwise the nested object is confined to exactly 8 x header bits", where, bad[:4])
            # which quantity is compared: the header just read against the bits remaining *in this reader* after the header
            hdr_first = all((not [e_ for e_ in r.events if e_[0] != "READER-OVER"]) or [e_ for e_ in r.events if e_[0] != "READER-OVER"][0][0] == "BITS" for r in runs)
            ctx.check(hdr_first, "_serdes.%s[DelimitedType]" % fname, "the header is read before anything else", "the header is the first thing consumed", where, nontrivial=False)


# ---------------------------------------------------------------------------------------------------- R3
class Lin:
    """linear form over opaque symbols (by normalised text)"""

    def __init__(self, coeffs: Optional[Dict[str, int]] = None, const: int = 0):
        self.c = {k: v for k, v in (coeffs or {}).items() if v != 0}
        self.k = const

    def __add__(self, o: "Lin") -> "Lin":
        c = dict(self.c)
        for s, v in o.c.items():
            c[s] = c.get(s, 0) + v
        return Lin(c, self.k + o.k)

    def scale(self, f: int) -> "Lin":
        return Lin({s: v * f for s, v in self.c.items()}, self.k * f)

    def __sub__(self, o: "Lin") -> "Lin":
        return self + o.scale(-1)

    def is_zero(self) -> bool:
        return not self.c and self.k == 0

    def __repr__(self) -> str:
        return " + ".join(["%d*%s" % (v, s) for s, v in sorted(self.c.items())] + [str(self.k)])


def lin_of(e: ast.AST) -> Lin:
    if isinstance(e, ast.Constant) and isinstance(e.value, int) and not isinstance(e.value, bool):
        return Lin(const=e.value)
    if isinstance(e, ast.BinOp) and isinstance(e.op, (ast.Add, ast.Sub)):
        l, r = lin_of(e.left), lin_of(e.right)
        return l + r if isinstance(e.op, ast.Add) else l - r
    if isinstance(e, ast.BinOp) and isinstance(e.op, ast.Mult):
        for a, b in ((e.left, e.right), (e.right, e.left)):
            if isinstance(a, ast.Constant) and isinstance(a.value, int):
                return lin_of(b).scale(a.value)
    if isinstance(e, ast.UnaryOp) and isinstance(e.op, ast.USub):
        return lin_of(e.operand).scale(-1)
    return Lin({norm(e): 1})


def _offset_delta(ctx: Ctx, fn: FuncInfo, count_param: str, recursive: str) -> List[Dict[str, Any]]:
    """For every path of fn (private helpers expanded): the net change of self._bit_offset as a linear form; must equal `count_param`."""
    results = []
    fnode = ctx.inl(fn, keep=(recursive,))
    # locals bound to (expressions containing) a recursive call stay opaque so that a call is counted once
    opaque = set()
    for st in ast.walk(fnode):
        if isinstance(st, (ast.Assign, ast.AugAssign)):
            if any(isinstance(n, ast.Call) and norm(n.func) == "self." + recursive for n in ast.walk(st.value)):
                for t in (st.targets if isinstance(st, ast.Assign) else [st.target]):
                    if isinstance(t, ast.Name):
                        opaque.add(t.id)
    paths = paths_of(fnode, opaque=sorted(opaque))
    for p in paths:
        if p.kind not in ("return", "fall"):
            continue
        delta = Lin()
        exprs: List[ast.AST] = []
        for ev in p.events:
            if isinstance(ev, tuple) and ev[0] == "assign":
                tgt, val = ev[1], ev[2]
                if "self._bit_offset" in tgt:
                    if isinstance(val, ast.BinOp) and isinstance(val.op, ast.Add):
                        delta = delta + lin_of(val.right)
                    else:
                        raise AnalysisError("%s: bit offset assigned in an unsupported way: %s" % (fn.qualname, norm(val)))
                    exprs.append(val.right)
                else:
                    exprs.append(val)
            elif isinstance(ev, ast.AST):
                exprs.append(ev)
            elif isinstance(ev, tuple) and ev[0] == "loop":
                for st in ev[2]:
                    for n in ast.walk(st):
                        if isinstance(n, (ast.Assign, ast.AugAssign)):
                            tg = n.targets if isinstance(n, ast.Assign) else [n.target]
                            if any(norm(t) == "self._bit_offset" for t in tg):
                                raise AnalysisError("%s: bit offset is modified inside a loop" % fn.qualname)
                        if isinstance(n, ast.Call) and norm(n.func) == "self." + recursive:
                            raise AnalysisError("%s: recursive call inside a loop" % fn.qualname)
        if p.value is not None:
            exprs.append(p.value)
        # inductive hypothesis: every recursive call advances by its own count argument
        for e in exprs:
            for n in ast.walk(e):
                if isinstance(n, ast.Call) and norm(n.func) == "self." + recursive:
                    arg = n.args[-1] if recursive == "write_bits" else n.args[0]
                    delta = delta + lin_of(arg)
        goal = delta - Lin({count_param: 1})
        # divmod relation: count = 8 * q + r
        q, r = "divmod(%s, 8)[0]" % count_param, "divmod(%s, 8)[1]" % count_param
        if q in goal.c or r in goal.c or count_param in goal.c:
            goal2 = goal + Lin({count_param: 1}) - Lin({q: 8, r: 1}) if count_param in goal.c and goal.c.get(count_param) == -1 else goal
        else:
            goal2 = goal
        ok = goal2.is_zero()
        if not ok and set(goal2.c) == {r}:
            # remaining == 0 on this path?  (cond `remaining > 0` false, with 0 <= remaining < 8 from divmod)
            for c, pol in p.conds:
                if not isinstance(c, tuple) and norm(c) in ("%s > 0" % r, "%s != 0" % r, r) and not pol:
                    ok = True
        conds = " & ".join(("" if pol else "!") + (norm(c)[:40] if not isinstance(c, tuple) else c[0]) for c, pol in p.conds)
        results.append({"path": conds or "true", "delta": repr(delta), "ok": ok, "returns": norm(p.value)[:40] if p.value is not None else None})
    return results


def rule_r3(ctx: Ctx) -> None:
    """the bit reader and the bit writer evaluated through their public interfaces (bitreader_common)"""
    from . import bitreader_common as BR

    ctx.rule("C07.R3", "offset accounting: read_bits / write_bits advance by exactly bit_length on every path (incl. out-of-limit reads, which return zeros); bounded_subreader(n) advances the parent by n; align_to only moves forward", min_instances=3)
    rd = ctx.cls(SD + "._BitReader")
    bad = BR.run_model(ctx)
    steps = getattr(ctx, "_bitreader_steps", 0)
    ctx.check(not bad["offset"], rd.short, "position after every read / alignment / sub-reader over the grid of position classes (%d steps)" % steps, "every read consumes exactly the requested number of bits, within or beyond the limit; a sub-reader takes its whole window out of the parent; alignment only moves forward", rd.module.relpath, bad["offset"][:3])
    ctx.check(not bad["value"], rd.short, "what reads return within, across and beyond the data / the window", "reads beyond the limit of a bounded sub-reader (or beyond the data) yield zeros; bits are taken LSB first", rd.module.relpath, bad["value"][:3])
    wr = ctx.cls(SD + "._BitWriter")
    badw = BR.run_writer_model(ctx)
    ctx.check(not badw, wr.short, "position and output after every write / alignment (%d steps)" % getattr(ctx, "_bitwriter_steps", 0), "every write produces exactly the requested number of bits, LSB first; alignment pads with zeros", wr.module.relpath, badw[:3])


def rule_r5(ctx: Ctx) -> None:
    from . import bitreader_common as BR

    ctx.rule("C07.R5", "limit accounting agrees between siblings: the bits still available to a bounded reader are the same quantity in read_bits and in remaining_bits, and equal the given limit right after construction", min_instances=1)
    rd = ctx.cls(SD + "._BitReader")
    bad = BR.run_model(ctx)
    ctx.check(not bad["remaining"], rd.short + ".remaining_bits", "remaining_bits after every operation == distance to the end of the window (or of the data), never negative", "header validation (remaining_bits) and reading (read_bits) must agree about the sub-reader's window", rd.module.relpath, bad["remaining"][:3])


MEMO_DECORATORS = ("lru_cache", "cache", "cached_property", "memoize", "memoized")


def memoised_functions(ctx: Ctx, module_short: str) -> List[str]:
    """functions of the module wrapped in a memo keyed by argument equality (functools.lru_cache / cache, applied as a
    decorator or by assignment): process-wide state that outlives a call"""
    repo = ctx.repo
    m = repo.module(module_short)
    out = []
    for fn in repo.all_functions().values():
        if fn.module is not m:
            continue
        for d in fn.node.decorator_list:
            name = (dotted(d.func) if isinstance(d, ast.Call) else dotted(d)) or ""
            if name.split(".")[-1] in MEMO_DECORATORS:
                out.append("%s (@%s)" % (fn.short, name))
    for n in ast.walk(m.tree):
        if isinstance(n, ast.Call) and (dotted(n.func) or "").split(".")[-1] in MEMO_DECORATORS and not any(n in f.node.decorator_list or any(n is getattr(d, "func", None) for d in f.node.decorator_list) for f in repo.all_functions().values() if f.module is m):
            out.append("%s(...) at line %d" % (dotted(n.func), n.lineno))
    return sorted(set(out))


def rule_r4(ctx: Ctx) -> None:
    repo = ctx.repo
    ctx.rule("C07.R4", "no hidden inputs: _serdes has no module-level mutable state, no global statements, no environment / clock / random access", min_instances=1)
    m = repo.module(SD)
    mutable = []
    MUT = {"append", "extend", "insert", "pop", "remove", "clear", "update", "setdefault", "popitem", "add", "discard", "sort", "reverse", "__setitem__"}
    for name, v in m.assigns.items():
        if isinstance(v, (ast.List, ast.Dict, ast.Set, ast.ListComp, ast.DictComp)) or (isinstance(v, ast.Call) and dotted(v.func) in ("list", "dict", "set", "bytearray", "collections.defaultdict")):
            # a module-level table is state only if something writes to it
            written = []
            for fn in repo.all_functions().values():
                if fn.module is not m:
                    continue
                for n in ast.walk(fn.node):
                    tg = []
                    if isinstance(n, ast.Assign):
                        tg = n.targets
                    elif isinstance(n, (ast.AugAssign, ast.AnnAssign)):
                        tg = [n.target]
                    elif isinstance(n, ast.Delete):
                        tg = n.targets
                    for t in tg:
                        base = t
                        while isinstance(base, (ast.Subscript, ast.Attribute)):
                            base = base.value
                        if isinstance(base, ast.Name) and base.id == name and not (isinstance(t, ast.Name) and not any(isinstance(g, ast.Global) and name in g.names for g in ast.walk(fn.node))):
                            written.append(fn.short)
                    if isinstance(n, ast.Call) and isinstance(n.func, ast.Attribute) and n.func.attr in MUT and isinstance(n.func.value, ast.Name) and n.func.value.id == name:
                        written.append(fn.short)
            if written:
                mutable.append("%s (written in %s)" % (name, sorted(set(written))))
    globs = [fn.short for fn in repo.all_functions().values() if fn.module is m and any(isinstance(n, (ast.Global, ast.Nonlocal)) for n in ast.walk(fn.node))]
    ext = sorted({dotted(n) for fn in repo.all_functions().values() if fn.module is m for n in ast.walk(fn.node) if isinstance(n, ast.Attribute) and (dotted(n) or "").split(".")[0] in ("os", "time", "random", "sys")})
    memo = memoised_functions(ctx, SD)
    ctx.check(not mutable and not globs and not ext and not memo, "_serdes", "module state", "decoding depends on the schema and the bytes only", m.relpath, {"mutable_globals": mutable, "global_statements": globs, "external_state": ext, "memoised by argument equality (equal types need not have equal content)": memo})


def rule_r6_concrete(ctx: Ctx) -> None:
    """the decoder itself - deserialize with the bit reader underneath, evaluated from the source in one "process" (module-level
    objects live across the calls) - on concrete types and byte strings: every prefix of valid representations (longest first,
    so that anything left over from a previous call would show), representations followed by junk and by zeros, single-bit
    corruptions, runs of 0xFF and pseudo-random strings.  The outcome must be the object the Specification's decoding rules give
    (implicit zero extension and truncation included) or the rejection they demand - never another exception."""
    from . import concrete as C
    from .c06 import _same, concrete_grid

    ctx.rule("C07.R6", "concrete types x byte strings (all prefixes of valid representations, junk / zero suffixes, bit corruptions, 0xFF runs, pseudo-random strings), evaluated from the source in one process: deserialize returns exactly the object the Specification's decoding rules give - missing bytes read as zeros, surplus ignored - or raises the rejection they demand (ArrayLengthError / UnionTagError / DelimiterHeaderError), whatever was decoded before [bounded grid]", min_instances=5)
    T, grid = concrete_grid(ctx)
    thorough = ctx.tier == "thorough"
    n = 0
    seed = [12345]

    def rnd() -> int:
        seed[0] = (seed[0] * 1103515245 + 12345) & 0x7FFFFFFF
        return (seed[0] >> 16) & 0xFF

    for t, values in grid:
        bad = []
        strings: List[Tuple[str, bytes, bool]] = []
        for vi, v in enumerate(values):
            for hdr in ((False, True) if t.kind == "delimited" else (False,)):
                valid = C.encode(t, v, hdr)
                for k in range(len(valid), -1, -1) if (thorough or vi < 2) else (len(valid),):
                    strings.append(("prefix of %d bytes of value %d" % (k, vi), valid[:k], hdr))
                strings.append(("value %d + junk" % vi, valid + bytes([0xFF, 0x00, 0xA5, 0xFF]), hdr))
                strings.append(("value %d + zeros" % vi, valid + bytes(9), hdr))
                step = 1 if thorough else (3 if vi == 0 else 0)
                for bit in range(0, 8 * len(valid), step) if step else ():
                    b = bytearray(valid)
                    b[bit // 8] ^= 1 << (bit % 8)
                    strings.append(("value %d with bit %d flipped" % (vi, bit), bytes(b), hdr))
        for k in range(0, 13 if thorough else 7):
            strings.append(("%d bytes of 0xFF" % k, bytes([0xFF]) * k, False))
        for k in range(24 if thorough else 8):
            strings.append(("pseudo-random string %d" % k, bytes(rnd() for _ in range(1 + rnd() % 24)), t.kind == "delimited" and k % 2 == 1))
        for label, b, hdr in strings:
            try:
                want: Any = C.decode(t, b, hdr)
            except C.Rejected as rj:
                want = ("raised", str(rj))
            got = C.run_codec(ctx, T, "deserialize", t, b, hdr)
            n += 1
            ok = (got == want) if isinstance(want, tuple) and want and want[0] == "raised" else _same(got, want)
            if not ok and len(bad) < 5:
                bad.append({"data": b.hex(), "what": label, "with header": hdr, "found": repr(got)[:200], "Specification": repr(want)[:200]})
        ctx.check(not bad, t.label, "%d byte strings" % len(strings), "deserialize is total: the Specification's object or the Specification's rejection, from the data given alone", "pydsdl/_serdes.py", bad[:3])
    ctx.count(n)


def run(ctx: Ctx) -> None:
    ctx.attempt(rule_r1, ctx)
    ctx.attempt(rule_r2, ctx)
    ctx.attempt(rule_r3, ctx)
    ctx.attempt(rule_r4, ctx)
    ctx.attempt(rule_r5, ctx)
    ctx.attempt(rule_r6_concrete, ctx)
    ctx.undecided("the fixed-point clause (deserialize . serialize . deserialize), bit values of decoded numbers, decode(b) == decode(b + zeros) as a value fact, running time for huge declared lengths")
