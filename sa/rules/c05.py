"""
C05 -- A definition is accepted iff it obeys the static rules of DSDL.

Every rule site is located by role and its guard is extracted (E5) and decided as an accepted region / truth table
over a finite domain that includes both sides of every boundary (E6), then compared with the Specification value in
sa/spec_tables.py.  Reserved-name patterns are compared by DFA language equivalence (sa/rx.py).
"""
from __future__ import annotations

import ast
import string
from typing import Any, Dict, Iterable, List, Optional, Sequence, Set, Tuple

from .. import spec_tables as spec
from ..core import (
    AnalysisError,
    ClassInfo,
    Ctx,
    External,
    FuncInfo,
    body_without_docstring,
    calls_in,
    dotted,
    norm,
    unparse,
    walk_no_nested,
)
from ..decide import A, Path, PathEnumerator, f_and, f_eval, f_not, f_or, path_formula, paths_of, substitute, to_formula, valuations
from ..fold import FoldKeyError, Folder, Sym, Unfoldable
from ..regions import evaluate_region, exc_class_of, flatten_init, mentions
from .. import rx

SER = "_serializable."
IDE = "_error.InvalidDefinitionError"


def enum_hook(ctx: Ctx, mod: Any, cls: Optional[ClassInfo]) -> Any:
    repo = ctx.repo

    def hook(e: ast.expr, f: Folder) -> Any:
        if isinstance(e, ast.Attribute):
            base = repo.resolve_expr(f.mod or mod, e.value, f.cls or cls)
            if isinstance(base, ClassInfo) and any(isinstance(b, External) and b.dotted.endswith("Enum") for b in repo.bases(base)):
                if e.attr in base.assigns:
                    return "%s.%s" % (base.name, e.attr)
        return NotImplemented

    return hook


def _is_ide(ctx: Ctx, fns: Sequence[FuncInfo], cls: Optional[ClassInfo], exc_text: str) -> bool:
    """Is the raised expression (text) an InvalidDefinitionError subclass, resolved in any module of the chain?"""
    try:
        node = ast.parse(exc_text, mode="eval").body
    except SyntaxError:
        return False
    for fn in fns:
        k = exc_class_of(ctx.repo, fn.module, cls, node)
        if isinstance(k, ClassInfo):
            return ctx.repo.is_subclass(k, IDE)
    return False


# ---------------------------------------------------------------------------------------------------- R1
def _construct_outcome(ctx: Ctx, c: ClassInfo, *args: Any, **kwargs: Any) -> Any:
    """the abstract instance built by c's constructor (super() chain flattened, helpers expanded) or the exception class raised"""
    from ..absint import Raised, construct, ctor_hook, module_call_hook
    from .c02 import _layout_hook

    hook = ctor_hook(ctx, module_call_hook(ctx, c.module, [], [], results={"check_name": None}, record=["check_name"], base_hook=_layout_hook(ctx, c.module, c)))
    try:
        return construct(ctx, c, *args, hook=hook, **kwargs)
    except Raised as r:
        return r.cls_name
    except Unfoldable as ex:
        raise AnalysisError("cannot evaluate the constructor of %s over abstract arguments: %s" % (c.name, ex))


def _ide_name(ctx: Ctx, name: str) -> bool:
    k = next((k for k in ctx.repo.all_classes().values() if k.name == name), None)
    return k is not None and ctx.repo.is_subclass(k, IDE)


def rule_r1_widths(ctx: Ctx) -> None:
    repo = ctx.repo
    ctx.rule(
        "C05.R1",
        "accepted (bit_length, cast_mode) region of every primitive / void constructor equals the Specification "
        "(uint 1..64, int 2..64 saturated only, float 16/32/64, void 1..64, bool/byte/utf8 fixed)",
        min_instances=7,
    )
    SAT, TRU = "CastMode.SATURATED", "CastMode.TRUNCATED"
    widths = list(range(-1, 68))
    table = {
        "UnsignedIntegerType": lambda n, cm: 1 <= n <= 64,
        "SignedIntegerType": lambda n, cm: 2 <= n <= 64 and cm == SAT,
        "FloatType": lambda n, cm: n in spec.FLOAT_BITS,
    }
    for cname, want in table.items():
        c = ctx.cls(SER + "_primitive." + cname)
        init = repo.lookup_method(c, "__init__")
        bad = []
        nonide = []
        for n in widths:
            for cm in (SAT, TRU):
                out = _construct_outcome(ctx, c, n, cm)
                acc = not isinstance(out, str)
                ctx.count()
                if acc != bool(want(n, cm)):
                    bad.append({"bit_length": n, "cast_mode": cm, "found": "accept" if acc else "reject (%s)" % out, "expected": "accept" if want(n, cm) else "reject"})
                if not acc and not _ide_name(ctx, out):
                    nonide.append(out)
        where = init.where() if init else c.module.relpath
        ctx.check(not bad, c.short + ".__init__", "width/cast-mode region", "accepted (bit_length, cast_mode) region must equal the Specification", where, bad[:6])
        ctx.check(not nonide, c.short + ".__init__", "rejection class", "rejections must be InvalidDefinitionError subclasses", where, sorted(set(nonide))[:4])
    ctx.sample({"rule": "C05.R1", "class": "SignedIntegerType", "domain": "bit_length -1..67 x {saturated,truncated}", "accepted": "2..64 saturated"})

    # fixed-parameter primitives: the constructor passes the Specification's constants to the base constructor
    fixed = {"BooleanType": (1, SAT), "ByteType": (8, TRU), "UTF8Type": (8, TRU)}
    for cname, (wn, wcm) in fixed.items():
        c = ctx.cls(SER + "_primitive." + cname)
        o = _construct_outcome(ctx, c)
        ctx.count()
        found = None
        if not isinstance(o, str):
            try:
                f = Folder({"o": o}, repo, c.module, c, enum_hook(ctx, c.module, c))
                found = (f.fold(ast.parse("o.bit_length", mode="eval").body), f.fold(ast.parse("o.cast_mode", mode="eval").body))
            except Unfoldable as ex:
                raise AnalysisError("%s: cannot read the fixed parameters: %s" % (cname, ex))
        init = repo.lookup_method(c, "__init__")
        ctx.check(found == (wn, wcm), c.short + ".__init__", "fixed width/cast mode", "%s must be %d bits, %s" % (cname, wn, wcm), init.where() if init else c.module.relpath, found if found is not None else o)

    # void
    c = ctx.cls(SER + "_void.VoidType")
    init = repo.lookup_method(c, "__init__")
    outs = {n: _construct_outcome(ctx, c, n) for n in widths}
    bad = [{"bit_length": n, "found": "accept" if not isinstance(o, str) else "reject (%s)" % o} for n, o in outs.items() if (not isinstance(o, str)) != (spec.VOID_MIN_BITS <= n <= spec.VOID_MAX_BITS)]
    ctx.count(len(widths))
    where = init.where() if init else c.module.relpath
    ctx.check(not bad, c.short + ".__init__", "width region", "void width region must be [1, 64]", where, bad[:6])
    nonide = sorted({o for o in outs.values() if isinstance(o, str) and not _ide_name(ctx, o)})
    ctx.check(not nonide, c.short + ".__init__", "rejection class", "rejections must be InvalidDefinitionError subclasses", where, nonide)


# ---------------------------------------------------------------------------------------------------- R2
def rule_r2_arrays(ctx: Ctx) -> None:
    repo = ctx.repo
    ctx.rule("C05.R2", "array capacity region is [1, inf) for both array kinds; `[<n]` means capacity n-1, `[<=n]` and `[n]` mean n", min_instances=5)
    from ..layout import TBls

    caps = list(range(-2, 5)) + [255, 256, 2**32, 2**63]
    for cname in ("FixedLengthArrayType", "VariableLengthArrayType"):
        c = ctx.cls(SER + "_array." + cname)
        init = repo.lookup_method(c, "__init__")
        et = Sym(bit_length_set=TBls.var("E", 1), alignment_requirement=1, _isa_=frozenset({"SerializableType", "PrimitiveType", "UnsignedIntegerType", "Any"}), _kind_="UnsignedIntegerType")
        outs = {n: _construct_outcome(ctx, c, et, n) for n in caps}
        bad = [{"capacity": n, "found": "accept" if not isinstance(o, str) else "reject (%s)" % o} for n, o in outs.items() if (not isinstance(o, str)) != (n >= spec.ARRAY_MIN_CAPACITY)]
        ctx.count(len(caps))
        where = init.where() if init else c.module.relpath
        ctx.check(not bad, c.short + ".__init__", "capacity region", "array capacity must be accepted iff >= 1", where, bad[:6])
        nonide = sorted({o for o in outs.values() if isinstance(o, str) and not _ide_name(ctx, o)})
        ctx.check(not nonide, c.short + ".__init__", "rejection class", "rejections must be InvalidDefinitionError subclasses", where, nonide)

    # parser: capacity expressions of the three array forms
    pt = ctx.cls("_parser._ParseTreeProcessor")
    forms = {
        "visit_type_array_variable_inclusive": ("VariableLengthArrayType", 0),
        "visit_type_array_variable_exclusive": ("VariableLengthArrayType", -1),
        "visit_type_array_fixed": ("FixedLengthArrayType", 0),
    }
    for mname, (klass, delta) in forms.items():
        fn = pt.methods.get(mname)
        if fn is None:
            raise AnalysisError("anchor %s missing" % mname)
        rets = [p for p in paths_of(fn.node) if p.kind == "return"]
        if len(rets) != 1 or not isinstance(rets[0].value, ast.Call):
            raise AnalysisError("%s: expected a single constructor return" % mname)
        call: ast.Call = rets[0].value
        k = repo.resolve_expr(fn.module, call.func, pt)
        okk = isinstance(k, ClassInfo) and k.name == klass
        if len(call.args) != 2:
            raise AnalysisError("%s: constructor call shape" % mname)
        cap = call.args[1]
        # fold with `_unwrap_array_capacity(length)` as the parameter N
        def hook(e: ast.expr, f: Folder) -> Any:
            if isinstance(e, ast.Call) and dotted(e.func) == "_unwrap_array_capacity":
                if len(e.args) == 1 and norm(e.args[0]).startswith("children["):
                    return f.env["N"]
                raise Unfoldable("capacity source")
            return NotImplemented

        vals = {}
        for n in (1, 2, 7, 256):
            try:
                vals[n] = Folder({"N": n}, repo, fn.module, pt, hook).fold(cap)
            except Unfoldable as ex:
                raise AnalysisError("%s: cannot fold the capacity expression %s: %s" % (mname, norm(cap), ex))
            ctx.count()
        good = okk and all(v == n + delta for n, v in vals.items())
        ctx.check(good, fn.short, norm(call), "array form must build %s with capacity = expression%s" % (klass, " - 1" if delta else ""), fn.where(), {"class": getattr(k, "name", None), "capacity(n)": vals})
    # element source: children[0] of the same node
    unwrap = ctx.func("_parser._unwrap_array_capacity")
    ps = paths_of(unwrap.node)
    rets = [p for p in ps if p.kind == "return"]
    raises = [p for p in ps if p.kind == "raise"]
    good = len(rets) == 1 and norm(rets[0].value).endswith("ex.as_native_integer()") and all(_is_ide(ctx, [unwrap], None, unparse(p.value)) for p in raises) and len(raises) >= 1
    ctx.check(good, unwrap.short, "capacity must be an integer rational", "array capacity is taken as the exact integer value of a rational, anything else is rejected", unwrap.where(), [repr(p) for p in ps])


# ---------------------------------------------------------------------------------------------------- R3
def _composite_init_paths(ctx: Ctx) -> Tuple[ClassInfo, FuncInfo, List[Path]]:
    c = ctx.cls(SER + "_composite.CompositeType")
    init = c.methods.get("__init__")
    if init is None:
        raise AnalysisError("CompositeType.__init__ missing")
    paths = paths_of(init.node, opaque=["used_names"])
    return c, init, paths


def model_hook_logging(ctx: Ctx, cls: Any, log: List[Any]) -> Any:
    """the model hook of C15 with the calls to check_name recorded in `log`"""
    from ..absint import ctor_hook, module_call_hook, path_hook
    from .c02 import _layout_hook

    return path_hook(ctor_hook(ctx, module_call_hook(ctx, cls.module, [], log, results={"check_name": None}, record=["check_name"], base_hook=_layout_hook(ctx, cls.module, cls))))


def build_model(ctx: Ctx, cls_short: str, log: Optional[List[Any]] = None, **kw: Any) -> Any:
    """the abstract instance a class of the type model builds for the arguments, or the name of the exception class raised"""
    from ..absint import Raised, construct

    c = ctx.cls(cls_short)
    try:
        return construct(ctx, c, hook=model_hook_logging(ctx, c, log if log is not None else []), **kw)
    except Raised as r:
        return r.cls_name
    except Unfoldable as ex:
        raise AnalysisError("cannot evaluate the constructor of %s over abstract arguments: %s" % (c.name, ex))


def attribute_sym(ctx: Ctx, kind: str, name: str, bits: int = 8) -> Sym:
    """an abstract Field / PaddingField / Constant whose type accepts any aggregation"""
    from ..absint import Recorder
    from ..codec import isa_of
    from ..layout import TBls

    dt = Sym(_kind_="UnsignedIntegerType", _isa_=isa_of(ctx, SER + "_primitive.UnsignedIntegerType"), bit_length=bits, bit_length_set=TBls.of(bits), alignment_requirement=1, _check_aggregation=Recorder("_check_aggregation", None), extent=bits)
    return Sym(_kind_=kind, _isa_=isa_of(ctx, SER + "_attribute." + kind), name=name, data_type=dt, doc="")


def structure(ctx: Ctx, name: str = "ns.T", version: Tuple[int, int] = (1, 0), attributes: Sequence[Any] = (), pid: Any = None, half: bool = False, log: Optional[List[Any]] = None, kind: str = "StructureType") -> Any:
    from .c11 import _version

    comps = name.strip().split(".")
    dirs = comps[: -2 if half else -1]
    path = "/r/%s/X.1.0.dsdl" % "/".join(dirs) if dirs and all(dirs) else "/r/ns/X.1.0.dsdl"
    return build_model(ctx, SER + "_composite." + kind, log, name=name, version=_version(*version), attributes=list(attributes), deprecated=False, fixed_port_id=pid, source_file_path=path, has_parent_service=half, doc="")


def rule_r3_composite(ctx: Ctx) -> None:
    repo = ctx.repo
    ctx.rule("C05.R3", "CompositeType.__init__: version region 0..255 x 0..255 minus 0.0; port-ID region [0,8191] subjects / [0,511] services; name length <= 255; unique attribute names; every name component checked", min_instances=5)
    c = ctx.cls(SER + "_composite.CompositeType")
    init = c.methods.get("__init__")
    where = init.where() if init else c.module.relpath
    anchor = c.short + ".__init__"
    pid_mod = repo.module("_port_id_ranges")
    rejected: Set[str] = set()

    def outcome(o: Any) -> bool:
        if isinstance(o, str):
            rejected.add(o)
            return False
        return True

    # version
    vals = [-1, 0, 1, 254, 255, 256]
    want = lambda a, b: 0 <= a <= spec.MAX_VERSION and 0 <= b <= spec.MAX_VERSION and (a + b) > 0  # noqa: E731
    bad = []
    for a in vals:
        for b in vals:
            acc = outcome(structure(ctx, version=(a, b)))
            ctx.count()
            if acc != want(a, b):
                bad.append({"version": "%d.%d" % (a, b), "found": "accepted" if acc else "rejected"})
    ctx.check(not bad, anchor, "version region", "version accepted iff 0<=major,minor<=255 and not 0.0", where, bad[:6])

    # port id, by kind: subjects on a message type, services on the service object built from two halves
    rq = structure(ctx, name="ns.T.Request", half=True)
    rs = structure(ctx, name="ns.T.Response", half=True)
    if isinstance(rq, str) or isinstance(rs, str):
        raise AnalysisError("the halves of a service cannot be constructed over abstract arguments: %s / %s" % (rq, rs))
    pids = [None, -1, 0, 1, 510, 511, 512, 8190, 8191, 8192]

    def want_pid(p: Any, svc: bool) -> bool:
        return p is None or 0 <= p <= (spec.MAX_SERVICE_ID if svc else spec.MAX_SUBJECT_ID)

    bad = []
    for p_ in pids:
        for svc in (False, True):
            o = build_model(ctx, SER + "_composite.ServiceType", request=rq, response=rs, fixed_port_id=p_) if svc else structure(ctx, pid=p_)
            acc = outcome(o)
            ctx.count()
            if acc != want_pid(p_, svc):
                bad.append({"port_id": p_, "service": svc, "found": "accepted" if acc else "rejected (%s)" % o})
    ctx.check(not bad, anchor, "port-ID region", "fixed port-ID accepted iff None or within [0,8191] (subject) / [0,511] (service)", where, bad[:6])
    for cname, want_v in (("MAX_SUBJECT_ID", spec.MAX_SUBJECT_ID), ("MAX_SERVICE_ID", spec.MAX_SERVICE_ID)):
        e = pid_mod.assigns.get(cname)
        if e is None:
            raise AnalysisError("_port_id_ranges.%s missing" % cname)
        got = Folder({}, repo, pid_mod).fold(e)
        ctx.check(got == want_v, "_port_id_ranges." + cname, norm(e), "%s must be %d" % (cname, want_v), pid_mod.relpath, got)

    # name: empty / no separator / too long
    names = {"": False, "   ": False, "a": False, "ns.T": True, "ns." + "T" * 252: True, "ns." + "T" * 253: False}
    bad = []
    for nm, ok in names.items():
        acc = outcome(structure(ctx, name=nm))
        ctx.count()
        if acc != ok:
            bad.append({"name": (nm if len(nm) < 12 else "%s...(%d chars)" % (nm[:8], len(nm))), "found": "accepted" if acc else "rejected"})
    ctx.check(not bad, anchor, "name shape region", "a composite name must be non-empty, contain a namespace, and be at most 255 characters", where, bad)

    # every component goes through check_name
    log: List[Any] = []
    o = structure(ctx, name="ns.sub.deeper.T", log=log)
    checked = [a[0] for n_, a, _k in log if n_ == "check_name" and a]
    ctx.count()
    ctx.check(not isinstance(o, str) and sorted(checked) == sorted(["ns", "sub", "deeper", "T"]), anchor, "check_name over all name components: %s" % checked, "every '.'-separated component of the full name must pass check_name", where, o if isinstance(o, str) else None)

    # attribute-name uniqueness
    F = lambda n: attribute_sym(ctx, "Field", n)  # noqa: E731
    K = lambda n: attribute_sym(ctx, "Constant", n)  # noqa: E731
    P = lambda: attribute_sym(ctx, "PaddingField", "")  # noqa: E731
    cases = {
        "a, b": ([F("a"), F("b")], True), "a, a": ([F("a"), F("a")], False), "a, K a": ([F("a"), K("a")], False), "K a, b, K a": ([K("a"), F("b"), K("a")], False),
        "two paddings": ([P(), F("a"), P()], True), "a, b, c, b": ([F("a"), F("b"), F("c"), F("b")], False),
    }
    bad = []
    for label, (attrs, ok) in cases.items():
        o = structure(ctx, attributes=attrs)
        acc = outcome(o)
        ctx.count()
        if acc != ok or (not acc and o != "AttributeNameCollisionError"):
            bad.append({"attributes": label, "found": "accepted" if acc else "rejected (%s)" % o})
    ctx.check(not bad, anchor, "attribute name uniqueness", "two named attributes with the same name must be rejected; unnamed paddings may repeat", where, bad)
    nonide = sorted(x for x in rejected if not _ide_name(ctx, x))
    ctx.check(not nonide, anchor, "rejection classes: %s" % sorted(rejected), "rejections must be InvalidDefinitionError subclasses", where, nonide)


# ---------------------------------------------------------------------------------------------------- R4
def rule_r4_regulated(ctx: Ctx) -> None:
    repo = ctx.repo
    ctx.rule("C05.R4", "regulated port-ID ranges (standard 7168-8191 / 384-511, vendor 6144-7167 / 256-383, inclusive) and their application in finalize iff not allow_unregulated and a port-ID is present, chosen by kind", min_instances=3)
    mod = repo.module("_port_id_ranges")
    for kind, fname in (("subject", "is_valid_regulated_subject_id"), ("service", "is_valid_regulated_service_id")):
        fn = mod.functions.get(fname)
        if fn is None:
            raise AnalysisError("anchor _port_id_ranges.%s missing" % fname)
        from ..absint import Raised as _Raised, call_fn, ctor_hook

        bad = []
        for root, cat in (("uavcan", "standard"), ("cyphal", "standard"), ("vendor", "vendor"), ("uavcanx", "vendor"), ("Uavcan", "vendor")):
            lo, hi = spec.REGULATED[(kind, cat)]
            for pid in sorted({0, lo - 1, lo, lo + 1, hi - 1, hi, hi + 1, 255, 256, 383, 384, 511, 512, 6143, 6144, 7167, 7168, 8191, 8192}):
                try:
                    got = call_fn(ctx, fn, [pid, root], hook=ctor_hook(ctx, None), keep=())
                except (Unfoldable, _Raised) as ex:
                    raise AnalysisError("%s(%r, %r): cannot evaluate: %s" % (fname, pid, root, ex))
                ctx.count()
                if bool(got) != (lo <= pid <= hi):
                    bad.append({"root": root, "port_id": pid, "found": bool(got), "expected": lo <= pid <= hi})
        ctx.check(not bad, fn.short, "regulated range over boundary port-IDs x 5 root namespaces", "regulated %s-ID range must match the Specification for standard and vendor namespaces" % kind, fn.where(), bad[:6])
    ctx.sample({"rule": "C05.R4", "fn": "is_valid_regulated_subject_id", "boundaries": "6143..6144, 7167..7168, 8191..8192 x {uavcan, cyphal, vendor}"})

    # application in finalize: the builder is driven through its public interface and finalized (builder_common); the two range
    # predicates are oracles whose answers are chosen here
    from . import builder_common as B

    fin = ctx.func("_data_type_builder.DataTypeBuilder.finalize")
    bad = []
    for service in (False, True):
        script = [("on_directive", (1, "sealed", None))] + ([("on_service_response_marker", ()), ("on_directive", (3, "sealed", None))] if service else [])
        for allow in (False, True):
            for pid in (None, 0, 321):
                for valid_subject in (False, True):
                    for valid_service in (False, True):
                        r = B.run_builder(ctx, script, B.definition_sym(fixed_port_id=pid), allow_unregulated=allow, valid_subject=valid_subject, valid_service=valid_service)
                        ctx.count()
                        valid = valid_service if service else valid_subject
                        want = (not allow) and pid is not None and not valid
                        got = r.raised
                        if (got is not None) != want or (got is not None and got != "UnregulatedFixedPortIDError"):
                            bad.append({"service": service, "allow_unregulated": allow, "port_id": pid, "valid in the %s range" % ("service" if service else "subject"): valid, "found": got or "accepted", "expected": "UnregulatedFixedPortIDError" if want else "accepted"})
                            continue
                        # the predicate consulted is the one of the type's kind, asked about this port-ID and the root namespace
                        if want or ((not allow) and pid is not None):
                            wantf = "is_valid_regulated_service_id" if service else "is_valid_regulated_subject_id"
                            if [c for c in r.validity_calls] != [(wantf, (pid, "ns"))]:
                                bad.append({"service": service, "port_id": pid, "predicates consulted": r.validity_calls, "expected": [(wantf, (pid, "ns"))]})
    ctx.check(not bad, fin.short, "regulated port-ID application", "reject iff not allow_unregulated and has port-ID and not in the regulated range of its kind", fin.where(), bad[:4])
    ctx.check(_ide_name(ctx, "UnregulatedFixedPortIDError"), fin.short, "rejection class", "rejections must be InvalidDefinitionError subclasses", fin.where())
    # what finalize returns is the composite it validated
    r = B.run_builder(ctx, [("on_directive", (1, "sealed", None))], B.definition_sym(fixed_port_id=None), allow_unregulated=True)
    ctx.check(r.raised is None and getattr(r.result, "_kind_", None) == "StructureType" and r.result.full_name == "ns.sub.T", fin.short, "returns the checked object", "finalize returns the composite it validated", fin.where(), nontrivial=False)


def run(ctx: Ctx) -> None:
    ctx.attempt(rule_r1_widths, ctx)
    ctx.attempt(rule_r2_arrays, ctx)
    ctx.attempt(rule_r3_composite, ctx)
    ctx.attempt(rule_r4_regulated, ctx)
    from . import c05b

    c05b.run(ctx)
    from . import c05text

    c05text.run(ctx)
