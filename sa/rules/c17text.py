"""
C17, text level: faulty definitions whose fault line is known by construction are read by the repository's front end
(evaluated from the source); the error must name the file that holds the fault and the 1-based line of the offending
statement.  @print directives must be delivered once each, with their own file and line, to whatever callable the caller
passed.

R9   one faulty statement (eleven kinds of fault: raised at once, at the deferred commit of an attribute, by the type
     model, by the expression evaluator, by the parser) placed after every kind of preamble (nothing, blank lines, comments,
     lines of blanks, other statements with and without trailing comments, a statement holding a multi-line string, CRLF
     line ends) and followed by every kind of postamble; in a target, in a dependency and in a dependency of a dependency
R10  @print in independent targets: each directive delivered exactly once with its own path and line - whatever the
     truth value of the handler object, and with no handler at all nothing fails
"""
from __future__ import annotations

from typing import Any, Dict, List, Optional, Tuple

from ..core import AnalysisError, Ctx
from .c03text import ROOT, front_end, job_for
from .c04text import is_invalid_definition

# (statement text, lines it spans, error must carry a line)
FAULTS: List[Tuple[str, str]] = [
    ("constant out of range", "uint8 X = 300"),
    ("assertion fails", "@assert 1 == 2"),
    ("illegal bit length", "float7 x"),
    ("undefined type", "Nope.1.0 x"),
    ("division by zero", "@assert 1 / 0 == 1"),
    ("zero capacity", "uint8[0] x"),
    ("unknown directive", "@foo"),
    ("reserved attribute name", "uint8 bool"),
    ("undefined operator", "@print 'a' + 1"),
    ("unknown identifier", "uint8 Y = nothing + 1"),
    ("constant of a wrong kind", "bool Z = 1"),
    ("syntax error", "uint8 a b"),
    ("syntax error in an expression", "@assert (1 == 1"),
    ("multi-line statement", "@assert 'x\ny' == 'x\ny' && 1 == 2"),
]

PREAMBLES: List[Tuple[str, str]] = [
    ("nothing", ""),
    ("a statement", "uint8 p0\n"),
    ("blank lines", "\n\n\n"),
    ("a header comment", "# header\n# more\n\n"),
    ("statements with comments", "uint8 p0 # c\n# c2\nuint16 p1\n\n# lone comment\n\nvoid8\n"),
    ("lines of blanks", "uint8 p0\n \t \n\t\nuint8 p1\n   \n"),
    ("a multi-line string", "uint8 p0\n@assert 'a\nb\nc' != ''\nuint8 p1\n"),
    ("a constant and directives", "uint8 K = 1\n@assert K == 1\n@print K\nuint8 p0\n"),
]
POSTAMBLES: List[Tuple[str, str]] = [
    ("nothing", ""),
    ("more statements", "uint8 q0\nuint8 q1 # c\n"),
    ("blank lines and a comment", "\n\n# tail\n"),
]


def build(pre: str, fault: str, post: str, crlf: bool) -> Tuple[str, int]:
    text = pre + fault + "\n" + post + "@sealed\n"
    line = pre.count("\n") + 1
    if crlf:
        text = text.replace("\n", "\r\n")
    return text, line


def rule_r9_error_lines(ctx: Ctx) -> None:
    ctx.rule("C17.R9", "one faulty statement of each kind after every kind of preamble and before every kind of postamble, LF and CRLF, in a target, in a dependency and in a dependency of a dependency, read by the evaluated front end: the error's path is the file that holds the fault and its line the 1-based line on which the offending statement begins", min_instances=3)
    fe = front_end(ctx)
    thorough = ctx.tier == "thorough"
    plan: List[Tuple[str, Dict[str, str], str, int]] = []
    for fi, (fl, fault) in enumerate(FAULTS):
        for pi, (pl, pre) in enumerate(PREAMBLES):
            for qi, (ql, post) in enumerate(POSTAMBLES):
                if not thorough and (fi + pi + qi) % 3 and not (pi == 4 and qi == 1):
                    continue  # quick: a third of the grid (every fault with every preamble in some combination)
                crlf = (fi + pi + qi) % 2 == 1
                text, line = build(pre, fault, post, crlf)
                plan.append(("%s after %s, then %s%s" % (fl, pl, ql, ", CRLF" if crlf else ""), {"T.1.0.dsdl": text}, "T.1.0.dsdl", line))
    # the fault in a dependency / in a dependency of a dependency: the referrers have their own, different, line numbers
    for fi, (fl, fault) in enumerate(FAULTS):
        pl, pre = PREAMBLES[(fi + 3) % len(PREAMBLES)]
        text, line = build(pre, fault, "", False)
        a = "\n\n\n\n\n\n\n\n\n\n\n\nuint8 a0\nDep.1.0 d # the referrer's line is 14\n@sealed\n"
        plan.append(("%s in a dependency" % fl, {"A.1.0.dsdl": a, "Dep.1.0.dsdl": text}, "Dep.1.0.dsdl", line))
        mid = "\n\n\n\n\n\n\n\n\n\n\n\n\n\n\n\n\n\n\n\nDep.1.0[<=2] m\n@sealed\n"
        plan.append(("%s in a dependency of a dependency" % fl, {"A.1.0.dsdl": "Mid.1.0 m\n@sealed\n", "Mid.1.0.dsdl": mid, "Dep.1.0.dsdl": text}, "Dep.1.0.dsdl", line))
    outs = fe.read_many([job_for(files) for _, files, _, _ in plan])
    ctx.count(len(plan))
    accepted, wrong_path, wrong_line, wrong_class = [], [], [], []
    for (label, files, f, line), o in zip(plan, outs):
        case = {"case": label, "files": files}
        if o["raised"] is None:
            accepted.append(case)
            continue
        if not is_invalid_definition(ctx, o["raised"]):
            wrong_class.append(dict(case, raised=o["raised"]))
        if o["path"] != ROOT + "/" + f:
            wrong_path.append(dict(case, reported=o["path"], expected=ROOT + "/" + f))
        if o["line"] != line:
            wrong_line.append(dict(case, raised=o["raised"], reported=o["line"], expected=line))
    where = "pydsdl/_parser.py"
    ctx.check(not accepted and not wrong_class, "faulty definitions", "%d texts are rejected as invalid definitions" % len(plan), "a faulty definition is %s" % ("accepted: %s" % accepted[0]["case"] if accepted else "rejected with %s, not an InvalidDefinitionError: %s" % (wrong_class[0]["raised"], wrong_class[0]["case"]) if wrong_class else ""), where, (accepted or wrong_class)[:6])
    ctx.check(not wrong_path, "error path", "%d faults, the path is the file that holds the fault" % len(plan), "an error is attributed to the wrong file: %s" % "; ".join("%s: %s instead of %s" % (b["case"], b["reported"], b["expected"]) for b in wrong_path[:3]), where, wrong_path[:6])
    ctx.check(not wrong_line, "error line", "%d faults, the line is that of the offending statement" % len(plan), "an error is attributed to the wrong line: %s" % "; ".join("%s (%s): line %s instead of %s" % (b["case"], b["raised"], b["reported"], b["expected"]) for b in wrong_line[:3]), where, wrong_line[:6])
    ctx.analysed["C17.R9.faults"] = len(plan)


def rule_r10_prints(ctx: Ctx) -> None:
    ctx.rule("C17.R10", "@print in independent targets: each directive is delivered exactly once, with the path of its own file and its own line, to a handler object whatever its truth value (a callable collection that is still empty is falsy); without a handler nothing fails", min_instances=3)
    fe = front_end(ctx)
    files = {
        "A.1.0.dsdl": "# header\n\n@print 1 + 1\nuint8 a # c\n@print\n\n@print 'x\ny'\n@print {1, 2}.count\n@sealed\n",
        "sub/B.1.0.dsdl": "@print true\r\n\r\nuint8 b\r\n@print _offset_.max\r\n@sealed\r\n",
        "C.1.0.dsdl": "uint8 c\n@sealed\n---\n\n@print 3\n@sealed\n",
    }
    expected = sorted([(ROOT + "/A.1.0.dsdl", 3), (ROOT + "/A.1.0.dsdl", 5), (ROOT + "/A.1.0.dsdl", 7), (ROOT + "/A.1.0.dsdl", 9), (ROOT + "/sub/B.1.0.dsdl", 1), (ROOT + "/sub/B.1.0.dsdl", 4), (ROOT + "/C.1.0.dsdl", 5)])
    jobs = []
    for h in ("plain", "falsy", "none"):
        j = job_for(files, handler=(h != "none"))
        j["handler"] = {"plain": True, "falsy": "falsy", "none": False}[h]
        jobs.append(j)
    outs = fe.read_many(jobs)
    ctx.count(3 * 7)
    where = "pydsdl/_namespace_reader.py"
    for h, o in zip(("an ordinary callable", "a callable whose truth value is False", "no handler"), outs):
        if o["raised"] is not None:
            ctx.fail("@print with %s" % h, "accepted", "a valid definition with @print directives is rejected: %s at %s:%s" % (o["raised"], o["path"], o["line"]), where=where)
            continue
        if h == "no handler":
            ctx.ok("@print with %s" % h, "nothing fails", where=where)
            continue
        got = sorted((p, l) for p, l, _ in o.get("prints", []))
        ctx.check(got == expected, "@print with %s" % h, "7 directives in 3 files", "@print output is not delivered once per directive with its own path and line: delivered %s, the texts hold %s" % (got, expected), where, {"delivered": got, "expected": expected})


def run(ctx: Ctx) -> None:
    ctx.attempt(rule_r9_error_lines, ctx)
    ctx.attempt(rule_r10_prints, ctx)
