"""
C12, text level: constant statements `T NAME = <expression>` are read by the repository's front end (evaluated from the
source) and the outcome is compared with the Specification's compliance rule, computed here from the type's spelling and the
exact value of the expression (rules/exprref.py):

  bool            a boolean
  uintN / intN    an integer (an exact rational with denominator 1) within the inclusive range of the type - whatever the
                  cast mode; uint8 also takes a one-character ASCII string, stored as its code point
  floatN          any exact rational within +-(largest finite value of the format); never rounded

R6  acceptance and stored value on a grid: widths 1..64 around every special case, both cast modes, both sides of every
    boundary (integers, halves, values a hair above the bound written as long real literals), the wrong value kinds
R7  nothing but boolean, integer and float types carries a constant (void, arrays, composites, byte, utf8)
"""
from __future__ import annotations

from fractions import Fraction
from typing import Any, Dict, List, Optional, Tuple

from ..core import AnalysisError, Ctx
from . import exprref as X
from .c03text import TextRun, front_end, job_for
from .c04text import is_invalid_definition

FLOAT_MAX = {16: Fraction(65504), 32: (2 - Fraction(1, 2**23)) * 2**127, 64: (2 - Fraction(1, 2**52)) * 2**1023}


def int_range(bits: int, signed: bool) -> Tuple[int, int]:
    return (-(2 ** (bits - 1)), 2 ** (bits - 1) - 1) if signed else (0, 2**bits - 1)


def compliant(type_text: str, v: X.Value) -> Optional[X.Value]:
    """the value the constant must hold, or None if the Specification rejects the initializer"""
    words = type_text.split()
    name = words[-1]
    if name == "bool":
        return v if v[0] == "Boolean" else None
    if name.startswith("float"):
        m = FLOAT_MAX[int(name[5:])]
        return v if v[0] == "Rational" and -m <= v[1] <= m else None
    signed = name.startswith("int")
    bits = int(name[3:] if signed else name[4:])
    lo, hi = int_range(bits, signed)
    if v[0] == "Rational":
        return v if v[1].denominator == 1 and lo <= v[1] <= hi else None
    if v[0] == "String" and not signed and bits == 8:
        s = v[1]
        return ("Rational", Fraction(ord(s))) if len(s) == 1 and ord(s) < 128 else None
    return None


def _dec(fr: Fraction) -> str:
    """an exact decimal text for an integer-valued or dyadic rational"""
    if fr.denominator == 1:
        return str(fr.numerator) if fr >= 0 else "-%d" % -fr.numerator
    return ("(%d / %d)" % (fr.numerator, fr.denominator)) if fr >= 0 else "-(%d / %d)" % (-fr.numerator, fr.denominator)


def grid(thorough: bool) -> List[Tuple[str, str]]:
    out: List[Tuple[str, str]] = []
    widths = [1, 2, 3, 7, 8, 9, 15, 16, 17, 31, 32, 33, 53, 54, 63, 64] if thorough else [1, 2, 8, 9, 64]
    common_wrong = ["true", "false", "'a'", "'ab'", "''", "'\\u00e9'", "'\\u0080'", "'\\x7f'" if False else "'\\u007f'", "{1}", "\"0\""]
    for bits in widths:
        for kind in ("uint", "int"):
            if kind == "int" and bits < 2:
                continue
            for cast in ("", "saturated ", "truncated "):
                if cast == "truncated " and kind == "int":
                    continue  # not a legal type
                if cast == "saturated " and bits not in (8, 64):
                    continue  # same type as the implicit spelling: sampled
                t = "%s%s%d" % (cast, kind, bits)
                lo, hi = int_range(bits, kind == "int")
                vals = {lo - 1, lo, lo + 1, hi - 1, hi, hi + 1, 0, -1, 1, hi * 2 + 1, -(hi + 1), -(hi + 2)}
                for v in sorted(vals):
                    out.append((t, str(v) if v >= 0 else "-%d" % -v))
                out += [(t, "%d.0" % hi), (t, "%d.5" % hi), (t, "%d.0000000000000000000000000000001" % hi), (t, "%d / 2" % (2 * hi)), (t, "%d / 2" % (2 * hi + 1)), (t, "(%d - 1 / 2)" % lo), (t, "1 / 2"), (t, "0.5"), (t, "1e0"), (t, "1e-1"), (t, "2 ** %d" % bits), (t, "2 ** %d - 1" % bits), (t, "-(2 ** %d)" % (bits - 1)), (t, "-(2 ** %d) - 1" % (bits - 1)), (t, "0x%X" % hi), (t, "0b1" + "0" * bits)]
                if thorough or bits in (8, 64):
                    out += [(t, w) for w in common_wrong]
                else:
                    out += [(t, w) for w in common_wrong[:3]]
    for bits in (16, 32, 64):
        m = FLOAT_MAX[bits]
        for cast in ("", "truncated ", "saturated ") if thorough else ("", "truncated "):
            t = "%sfloat%d" % (cast, bits)
            mi = int(m)
            out += [(t, str(mi)), (t, "-%d" % mi), (t, str(mi + 1)), (t, "-%d" % (mi + 1)), (t, "%d.000000000000000000000000000000000001" % mi), (t, "-%d.000000000000000000000000000000000001" % mi), (t, "%d - 1e-40" % mi), (t, "%d + 1 / 3" % mi), (t, "%d - 1 / 3" % mi), (t, str(mi * 2)), (t, "0"), (t, "1 / 3"), (t, "-1 / 7"), (t, "0.1"), (t, "1e-50"), (t, "3"), (t, "2 ** %d" % {16: 16, 32: 128, 64: 1024}[bits]), (t, "2 ** %d - 1" % {16: 15, 32: 127, 64: 1023}[bits]), (t, "1e38" if bits > 16 else "1e4"), (t, "3.5e38" if bits == 32 else "1e5" if bits == 16 else "2e308")]
            out += [(t, w) for w in ("true", "'a'", "{1.0}", "'1.0'")]
    out += [("bool", w) for w in ("true", "false", "!true", "1 == 1", "0", "1", "'a'", "'true'", "{true}", "1.0")]
    seen = set()
    return [x for x in out if not (x in seen or seen.add(x))]


def rule_r5_texts(ctx: Ctx) -> None:
    ctx.rule("C12.R6", "constant statements read by the evaluated front end on a grid of types (widths around every special case, both cast modes, the three float formats, bool) and initializers (both sides of every boundary, halves, values a hair above a bound written as long real literals, the wrong value kinds): accepted exactly when the Specification's compliance rule says so, the accepted value stored exactly, every rejection an InvalidDefinitionError", min_instances=3)
    fe = front_end(ctx)
    cases = grid(ctx.tier == "thorough")
    plan: List[Tuple[str, str, Optional[X.Value]]] = []
    for t, e in cases:
        try:
            v = X.value_of(e)
        except (X.Undefined, X.Malformed, X.NotDecided) as ex:
            raise AnalysisError("the grid holds an initializer without a value: %s (%s)" % (e, ex))
        plan.append((t, e, compliant(t, v)))
    n_acc = sum(1 for p in plan if p[2] is not None)
    if n_acc < 120 or len(plan) - n_acc < 120:
        raise AnalysisError("degenerate grid: %d accepted, %d rejected" % (n_acc, len(plan) - n_acc))
    # the statements the Specification accepts are read one definition per type (one constant per line); if such a definition
    # is rejected, its statements are read one by one; the others are read one by one from the start
    by_type: Dict[str, List[int]] = {}
    for i, (t, e, exp) in enumerate(plan):
        if exp is not None:
            by_type.setdefault(t, []).append(i)
    singles = [i for i, p_ in enumerate(plan) if p_[2] is None]
    batch_jobs = [job_for({"K.1.0.dsdl": "".join("%s X%d = %s\n" % (plan[i][0], n_, plan[i][1]) for n_, i in enumerate(idx)) + "@sealed\n"}) for idx in by_type.values()]
    first = fe.read_many(batch_jobs + [job_for({"K.1.0.dsdl": "%s X = %s\n@sealed\n" % (plan[i][0], plan[i][1])}) for i in singles])
    outs: List[Any] = [None] * len(plan)
    for i, o in zip(singles, first[len(batch_jobs) :]):
        outs[i] = o
    retry: List[int] = []
    for idx, o in zip(by_type.values(), first[: len(batch_jobs)]):
        d = TextRun(o).by_name.get(("ns.K", (1, 0))) if o["raised"] is None else None
        rows = {a["name"]: a for a in (d or {}).get("attributes", []) if a["kind"] == "Constant"}
        if d is None or len(rows) != len(idx):
            retry.extend(idx)
            continue
        for n_, i in enumerate(idx):
            # the outcome of this statement alone: accepted, with this constant
            outs[i] = {"raised": None, "types": [dict(d, attributes=[dict(rows["X%d" % n_], name="X")])], "path": None, "line": None}
    if retry:
        for i, o in zip(retry, fe.read_many([job_for({"K.1.0.dsdl": "%s X = %s\n@sealed\n" % (plan[i][0], plan[i][1])}) for i in retry])):
            outs[i] = o
    ctx.count(len(plan))
    where = "pydsdl/_serializable/_attribute.py"
    wrongly_accepted, wrongly_rejected, wrong_value, wrong_class = [], [], [], []
    for (t, e, exp), o in zip(plan, outs):
        stmt = "%s X = %s" % (t, e)
        if o["raised"] is None:
            d = TextRun(o).by_name.get(("ns.K", (1, 0)))
            rows = [a for a in (d or {}).get("attributes", []) if a["kind"] == "Constant"]
            if exp is None:
                wrongly_accepted.append({"statement": stmt, "stored": repr(rows[0].get("value")) if rows else "?"})
            elif len(rows) != 1 or not X.same(exp, rows[0].get("value")):
                wrong_value.append({"statement": stmt, "expected": X.show(exp), "stored": repr(rows[0].get("value")) if rows else "no constant"})
        else:
            if exp is not None:
                wrongly_rejected.append({"statement": stmt, "raised": o["raised"]})
            elif not is_invalid_definition(ctx, o["raised"]):
                wrong_class.append({"statement": stmt, "raised": o["raised"] + (" (%s)" % o.get("wrapped") if o.get("wrapped") else "")})
    ctx.check(not wrongly_accepted, "T X = <initializer>", "%d non-compliant initializers are rejected" % (len(plan) - n_acc), "a constant initializer that is not compliant with the declared type is accepted: %s" % "; ".join("`%s` (stored %s)" % (b["statement"], b["stored"]) for b in wrongly_accepted[:4]), where, wrongly_accepted[:12])
    ctx.check(not wrongly_rejected, "T X = <initializer>", "%d compliant initializers are accepted" % n_acc, "a compliant constant initializer is rejected: %s" % "; ".join("`%s` (%s)" % (b["statement"], b["raised"]) for b in wrongly_rejected[:4]), where, wrongly_rejected[:12])
    ctx.check(not wrong_value, "T X = <initializer>", "the value is stored exactly", "the stored value of a constant is not the exact value of its initializer: %s" % "; ".join("`%s` = %s, stored %s" % (b["statement"], b["expected"], b["stored"]) for b in wrong_value[:4]), where, wrong_value[:12])
    ctx.check(not wrong_class, "T X = <initializer>", "the rejections are InvalidDefinitionErrors", "a non-compliant initializer is rejected with an error that is not an InvalidDefinitionError: %s" % "; ".join("`%s` -> %s" % (b["statement"], b["raised"]) for b in wrong_class[:4]), where, wrong_class[:12])
    ctx.analysed["C12.R6.statements"] = {"accepted by the Specification": n_acc, "rejected by the Specification": len(plan) - n_acc}


def rule_r6_carriers(ctx: Ctx) -> None:
    ctx.rule("C12.R7", "only boolean, integer and float types carry constants: a constant statement of any other type (void, arrays of any form, composites, byte, utf8) makes the definition invalid", min_instances=1)
    fe = front_end(ctx)
    dep = {"B.1.0.dsdl": "uint8 z\n@sealed\n"}
    stmts = ["void8 X = 0", "void1 X = 0", "uint8[2] X = 1", "uint8[<=2] X = 1", "uint8[<3] X = 1", "bool[1] X = true", "float32[1] X = 1.0", "B.1.0 X = 1", "ns.B.1.0 X = 0", "B.1.0[1] X = 0", "byte X = 1", "utf8 X = 'a'", "byte[1] X = 1", "utf8[<=1] X = 'a'"]
    outs = fe.read_many([job_for(dict(dep, **{"K.1.0.dsdl": "%s\n@sealed\n" % s})) for s in stmts])
    ctx.count(len(stmts))
    accepted = [s for s, o in zip(stmts, outs) if o["raised"] is None]
    wrong = ["%s -> %s" % (s, o["raised"]) for s, o in zip(stmts, outs) if o["raised"] is not None and not is_invalid_definition(ctx, o["raised"])]
    ctx.check(not accepted and not wrong, "T X = <initializer> for T outside bool / integer / float", "%d statements" % len(stmts), "a constant of a type that cannot carry constants is %s" % ("accepted: %s" % "; ".join(accepted[:4]) if accepted else "rejected with an error that is not an InvalidDefinitionError: %s" % "; ".join(wrong[:4])), "pydsdl/_serializable/_attribute.py", accepted or wrong)


def run(ctx: Ctx) -> None:
    ctx.attempt(rule_r5_texts, ctx)
    ctx.attempt(rule_r6_carriers, ctx)
