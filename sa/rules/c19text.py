"""
C19, text level (R7): whole directory trees of texts are read end to end by the repository's front end (evaluated from the
source); the definitions outside the dependency closure of the targets are then replaced by garbage, by definitions that
break rules, and by definitions that collide with one another, and the outcome - the digests of the returned types or the
class / path / line of the error - must not change.  Histories are included: an earlier call in the same process (one that
failed half way, or one that succeeded) must not make a later call look at definitions outside its own closure.
"""
from __future__ import annotations

from typing import Any, Dict, List, Optional, Tuple

from ..core import AnalysisError, Ctx
from .c03text import front_end

W = "/w/ns"
L = "/l/other"
CLOSURE = {
    W + "/A.1.0.dsdl": "B.1.0 b\nsub.C.1.0[<=2] cs\nother.X.1.0 x\n@sealed\n".replace("sub.C.1.0", "ns.sub.C.1.0"),
    W + "/B.1.0.dsdl": "uint8 z\n@sealed\n",
    W + "/sub/C.1.0.dsdl": "ns.B.1.0 b\nuint16 w\n@extent 64\n",
    L + "/X.1.0.dsdl": "float32 f\n@sealed\n",
}
OUTSIDE_VALID = {
    W + "/U.1.0.dsdl": "uint8 u\n@sealed\n",
    W + "/sub/V.2.0.dsdl": "ns.U.1.0 u\n@sealed\n",
    W + "/300.P.1.0.dsdl": "uint8 p\n@sealed\n",
    L + "/Y.1.0.dsdl": "uint8 y\n@sealed\n",
    L + "/deep/Z.1.0.dsdl": "other.Y.1.0 y\n@sealed\n",
    L + "/Z2.1.0.dsdl": "uint8 a\n@sealed\n",
    L + "/Z2.1.1.dsdl": "uint8 a\n@sealed\n",
}
SPOILED: List[Tuple[str, Dict[str, str]]] = [
    ("garbage", {k: "%%% not @@ a definition ]]\n\x00" for k in OUTSIDE_VALID}),
    ("definitions that break rules", {W + "/U.1.0.dsdl": "uint8 u\nuint8 u\n", W + "/sub/V.2.0.dsdl": "Nope.9.9 n\n@assert false\n@sealed\n", W + "/300.P.1.0.dsdl": "@union\nuint8 a\n@sealed\n", L + "/Y.1.0.dsdl": "truncated int8 y\n@sealed\n", L + "/deep/Z.1.0.dsdl": "other.deep.Z.1.0 me\n@sealed\n", L + "/Z2.1.0.dsdl": "uint8 a\n@sealed\n", L + "/Z2.1.1.dsdl": "uint64 different\n@extent 1024\n"}),
    ("definitions that collide in port-ID and version rules", {W + "/U.1.0.dsdl": "uint8 u\n@sealed\n", W + "/sub/V.2.0.dsdl": "uint8 v\n@sealed\n", W + "/300.P.1.0.dsdl": "uint8 p\n@sealed\n", L + "/Y.1.0.dsdl": "uint8 y\n@sealed\n---\nuint8 r\n@sealed\n", L + "/deep/Z.1.0.dsdl": "@deprecated\nuint8 q\n@sealed\n", L + "/Z2.1.0.dsdl": "uint8 a\n@sealed\n", L + "/Z2.1.1.dsdl": "uint8 a\n@sealed\n---\nuint8 b\n@sealed\n"}),
]


def _summary(o: Dict[str, Any]) -> Any:
    if o["raised"] is not None:
        return ("raised", o["raised"], o["path"], o["line"])
    if "direct" in o:
        return ("ok", o["direct"], o["transitive"])
    return ("ok", o.get("types"))


def rule_r7_texts(ctx: Ctx) -> None:
    ctx.rule("C19.R7", "directory trees read end to end by the evaluated front end: replacing every definition outside the targets' dependency closure by garbage / rule-breaking definitions / mutually colliding definitions leaves the returned types - or the raised error - unchanged, for read_files over a target, for a failing target, and after earlier calls in the same process that failed half way or succeeded", min_instances=4)
    fe = front_end(ctx)
    kw = {"allow_unregulated_fixed_port_id": True}
    target = W + "/A.1.0.dsdl"

    def files_with(outside: Dict[str, str], closure: Optional[Dict[str, str]] = None) -> Dict[str, str]:
        f = dict(closure or CLOSURE)
        f.update(outside)
        return f

    failing_closure = dict(CLOSURE)
    failing_closure[W + "/sub/C.1.0.dsdl"] = "ns.B.1.0 b\n\n@assert 1 == 2\n@extent 64\n"
    # a target without references, read after a call that failed while (or after) resolving a reference
    lone = {W + "/Lone.1.0.dsdl": "uint8 only\n@sealed\n"}
    broken_dep = {W + "/R.1.0.dsdl": "Dep.1.0 d\n@sealed\n", W + "/Dep.1.0.dsdl": "this is not a definition @@\n"}
    fails_after_ref = {W + "/R.1.0.dsdl": "Dep.1.0 d\n@assert false\n@sealed\n", W + "/Dep.1.0.dsdl": "uint8 fine\n@sealed\n"}
    scenarios: List[Tuple[str, List[Dict[str, Any]]]] = []
    variants = [("as written", OUTSIDE_VALID)] + SPOILED
    scenarios.append(("read_files over A", [dict(files=files_with(o), entry="read_files", targets=[target], roots=[W], lookup=[L], kwargs=kw) for _, o in variants]))
    scenarios.append(("read_files over A whose dependency C fails", [dict(files=files_with(o, failing_closure), entry="read_files", targets=[target], roots=[W], lookup=[L], kwargs=kw) for _, o in variants]))
    for hl, first in (("a dependency of the earlier target was garbage", broken_dep), ("the earlier target failed after its reference", fails_after_ref)):
        jobs = []
        for _, o in variants:
            spoil = {k: (v if k not in (W + "/Dep.1.0.dsdl", W + "/R.1.0.dsdl") else "again @@ garbage\n") for k, v in o.items()}
            earlier = dict(files=files_with({}, dict(first, **lone)), entry="read_files", targets=[W + "/R.1.0.dsdl"], roots=[W], lookup=[], kwargs=kw)
            later_files = dict(lone)
            later_files.update({W + "/R.1.0.dsdl": "garbage @@\n", W + "/Dep.1.0.dsdl": "garbage @@\n"})
            later_files.update({k: v for k, v in spoil.items() if k.startswith(W)})
            jobs.append(dict(files=later_files, entry="read_files", targets=[W + "/Lone.1.0.dsdl"], roots=[W], lookup=[], kwargs=kw, history=[earlier]))
        # the reference outcome: the same later call without any history
        jobs.append(dict(files=dict(lone), entry="read_files", targets=[W + "/Lone.1.0.dsdl"], roots=[W], lookup=[], kwargs=kw))
        scenarios.append(("read_files over Lone after a failed call (%s)" % hl, jobs))
    # a successful earlier call must not leave anything behind either
    ok_first = dict(files=files_with(OUTSIDE_VALID), entry="read_files", targets=[target], roots=[W], lookup=[L], kwargs=kw)
    jobs = [dict(files=files_with(o, dict(CLOSURE, **lone)), entry="read_files", targets=[W + "/Lone.1.0.dsdl"], roots=[W], lookup=[L], kwargs=kw, history=[ok_first]) for _, o in variants]
    jobs.append(dict(files=dict(lone), entry="read_files", targets=[W + "/Lone.1.0.dsdl"], roots=[W], lookup=[L], kwargs=kw))
    scenarios.append(("read_files over Lone after a successful call over A", jobs))

    # a reference that names nothing, next to lookup files whose names are *nearly* the name referred to (equal after case
    # folding or compatibility normalisation: sharp s, long s, a fullwidth letter, a combining accent): the reference stays
    # undefined whatever those files hold
    near = ["Ma\u00df.1.0.dsdl", "Ma\u017fs.1.0.dsdl", "\uff2dass.1.0.dsdl", "Mass\u0301.1.0.dsdl", "MASS\u200b.1.0.dsdl"]
    texts = ["uint8 fine\n@sealed\n", "garbage @@ ]]\n", "uint8 a\n@assert false\n@print 1\n@sealed\n", "Nope.1.0 n\n@sealed\n"]
    for n in near:  # (one at a time: two of them together would be a collision among themselves)
        jobs = []
        for t in texts:
            fs = {W + "/R.1.0.dsdl": "uint8 first\nother.Mass.1.0 m\n@sealed\n", L + "/" + n: t}
            jobs.append(dict(files=fs, entry="read_files", targets=[W + "/R.1.0.dsdl"], roots=[W], lookup=[L], kwargs=kw, handler=True))
        scenarios.append(("read_files over R whose reference names nothing, next to the nearly equal file name %a" % n, jobs))

    flat = [j for _, js in scenarios for j in js]
    outs = fe.read_many(flat)
    ctx.count(len(flat))
    pos = 0
    where = "pydsdl/_namespace_reader.py"
    for label, js in scenarios:
        got = [_summary(o) for o in outs[pos : pos + len(js)]]
        pos += len(js)
        ref = got[-1] if "after a" in label else got[0]
        if "after a" in label:
            # the reference run has fewer files on disk: compare what the calls return, not where the files are
            pass
        bad = []
        names = [v[0] for v in variants] + (["no history"] if "after a" in label else [])
        if "nearly equal" in label:
            names = ["valid texts", "garbage", "failing assertion and @print", "undefined reference"]
            got = [g + (tuple(o.get("prints") or []),) for g, o in zip(got, outs[pos - len(js) : pos])]
            ref = got[0]
        for nm, g in zip(names, got):
            if g != ref:
                bad.append({"outside the closure": nm, "outcome": repr(g)[:300], "reference outcome": repr(ref)[:300]})
        if ref[0] == "raised" and "fails" not in label and "nearly equal" not in label:
            bad.append({"reference outcome": repr(ref)[:300], "expected": "a result"})
        ctx.check(not bad, label, "%d variants of everything outside the closure" % (len(js)), "the outcome depends on definitions outside the dependency closure of the targets: %s" % ("; ".join("%s -> %s" % (b.get("outside the closure"), b.get("outcome", "")[:120]) for b in bad[:2])), where, bad[:4])


def run(ctx: Ctx) -> None:
    ctx.attempt(rule_r7_texts, ctx)
