"""
Concrete worlds for the evaluation-based rules (C02.R8, C06.R7, C07.R6, C08.R6, C14.R7): data types built by the repository's
own constructors - evaluated from the source by the checker's interpreter, never imported or run - together with the
Specification's meaning of each type, written down here independently:

  * the set of bit lengths, the alignment and the extent of a type (`CT.lengths`, `.align`, `.extent`);
  * the wire format (`encode`): little-endian bit order, fields padded to their alignment, implicit array length prefix, union
    tag, delimiter header, final padding of a composite to a byte;
  * the decoder's meaning (`decode`): implicit zero extension past the end of the data (or of a delimited object's window),
    implicit truncation of what is not consumed, and the three rejections (array length, union tag, delimiter header).

The rules compare what the evaluated source computes with these.
"""
from __future__ import annotations

import ast
import itertools
import struct
from typing import Any, Dict, List, Optional, Sequence, Tuple

from ..core import AnalysisError, Ctx

SER = "_serializable."


class CT:
    """a concrete type: the abstract instance built by the repository's constructor and the Specification's view of it"""

    def __init__(self, kind: str, obj: Any, label: str, align: int, lengths: frozenset, **kw: Any):
        self.kind, self.obj, self.label, self.align, self.lengths = kind, obj, label, align, lengths
        self.bits: int = kw.get("bits", 0)
        self.saturated: bool = kw.get("saturated", False)
        self.elem: Optional["CT"] = kw.get("elem")
        self.cap: int = kw.get("cap", 0)
        self.fields: List[Tuple[str, "CT"]] = kw.get("fields", [])
        self.inner: Optional["CT"] = kw.get("inner")
        self.extent: Optional[int] = kw.get("extent")

    def __repr__(self) -> str:
        return self.label


def _pad(xs: Any, a: int) -> frozenset:
    return frozenset(-(-x // a) * a for x in xs)


def _rep(xs: Any, k: int) -> frozenset:
    return frozenset(sum(c) for c in itertools.combinations_with_replacement(sorted(xs), k))


def prefix_bits(n: int) -> int:
    return next(w for w in (8, 16, 32, 64) if n < 2**w)


class Types:
    """constructors of concrete types (every object is built by evaluating the repository's own __init__)"""

    def __init__(self, ctx: Ctx):
        from ..absint import APath, Raised, construct, ctor_hook, module_call_hook, path_hook
        from ..fold import Folder, Unfoldable
        from .c01 import _quiet_hook

        self.ctx = ctx
        self._construct, self._Raised, self._Unfoldable, self._APath = construct, Raised, Unfoldable, APath
        self.prim = ctx.cls(SER + "_primitive.PrimitiveType")
        self._hooks: Dict[Any, Any] = {}

        def hook_for(c: Any) -> Any:
            if c not in self._hooks:
                self._hooks[c] = path_hook(ctor_hook(ctx, module_call_hook(ctx, c.module, [], [], results={"check_name": None}, record=["check_name"], base_hook=_quiet_hook)))
            return self._hooks[c]

        self.hook_for = hook_for
        try:
            f0 = Folder({}, ctx.repo, self.prim.module, self.prim)
            self.TRU = f0.fold(ast.parse("PrimitiveType.CastMode.TRUNCATED", mode="eval").body)
            self.SAT = f0.fold(ast.parse("PrimitiveType.CastMode.SATURATED", mode="eval").body)
        except Unfoldable as ex:
            raise AnalysisError("the cast modes cannot be evaluated: %s" % ex)
        self.serial = 0

    def mk(self, label: str, short: str, *a: Any, **k: Any) -> Any:
        c = self.ctx.cls(SER + short)
        try:
            return self._construct(self.ctx, c, *a, hook=self.hook_for(c), **k)
        except self._Raised as r:
            raise AnalysisError("%s cannot be constructed: %s" % (label, r.cls_name))
        except self._Unfoldable as ex:
            raise AnalysisError("%s cannot be constructed over the rule's arguments: %s" % (label, ex))

    # -- primitives
    def uint(self, n: int, saturated: bool = False) -> CT:
        lab = "%suint%d" % ("saturated " if saturated else "truncated ", n)
        return CT("uint", self.mk(lab, "_primitive.UnsignedIntegerType", n, self.SAT if saturated else self.TRU), lab, 1, frozenset({n}), bits=n, saturated=saturated)

    def sint(self, n: int) -> CT:
        lab = "saturated int%d" % n
        return CT("int", self.mk(lab, "_primitive.SignedIntegerType", n, self.SAT), lab, 1, frozenset({n}), bits=n, saturated=True)

    def boolean(self) -> CT:
        return CT("bool", self.mk("bool", "_primitive.BooleanType"), "bool", 1, frozenset({1}), bits=1)

    def float_(self, n: int, saturated: bool = True) -> CT:
        lab = "float%d" % n
        return CT("float", self.mk(lab, "_primitive.FloatType", n, self.SAT if saturated else self.TRU), lab, 1, frozenset({n}), bits=n, saturated=saturated)

    def void(self, n: int) -> CT:
        return CT("void", self.mk("void%d" % n, "_void.VoidType", n), "void%d" % n, 1, frozenset({n}), bits=n)

    # -- arrays
    def farr(self, el: CT, n: int) -> CT:
        lab = "%s[%d]" % (el.label, n)
        return CT("farr", self.mk(lab, "_array.FixedLengthArrayType", el.obj, n), lab, el.align, _rep(el.lengths, n), elem=el, cap=n)

    def varr(self, el: CT, cap: int) -> CT:
        lab = "%s[<=%d]" % (el.label, cap)
        body = frozenset(x for k in range(cap + 1) for x in _rep(el.lengths, k))
        w = prefix_bits(cap)
        return CT("varr", self.mk(lab, "_array.VariableLengthArrayType", el.obj, cap), lab, el.align, frozenset(_padv(w, el.align) + x for x in body), elem=el, cap=cap)

    # -- composites
    def _composite(self, short: str, label: str, fields: Sequence[Tuple[str, CT]]) -> Any:
        from .c11 import _version

        self.serial += 1
        attrs = [self.mk("padding", "_attribute.PaddingField", t.obj) if nm == "" else self.mk("field", "_attribute.Field", t.obj, nm) for nm, t in fields]
        return self.mk(label, short, name="ns.T%d" % self.serial, version=_version(1, 0), attributes=attrs, deprecated=False, fixed_port_id=None, source_file_path=self._APath("/r/ns/T%d.1.0.dsdl" % self.serial), has_parent_service=False, doc="")

    def struct(self, label: str, fields: Sequence[Tuple[str, CT]]) -> CT:
        cur = frozenset({0})
        for _, t in fields:
            cur = frozenset(x + y for x in _pad(cur, t.align) for y in t.lengths)
        sp = _pad(cur, 8)
        return CT("struct", self._composite("_composite.StructureType", label, fields), label, 8, sp, fields=list(fields), extent=max(sp))

    def union(self, label: str, fields: Sequence[Tuple[str, CT]]) -> CT:
        tag = prefix_bits(len(fields) - 1)
        sp = _pad(frozenset(tag + x for _, t in fields for x in t.lengths), 8)
        return CT("union", self._composite("_composite.UnionType", label, fields), label, 8, sp, fields=list(fields), extent=max(sp))

    def delimited(self, inner: CT, extent: int) -> CT:
        lab = "delimited %s, extent %d" % (inner.label, extent)
        return CT("delimited", self.mk(lab, "_composite.DelimitedType", inner.obj, extent), lab, 8, frozenset(32 + x for x in range(0, extent + 1, 8)), inner=inner, extent=extent)


def _padv(x: int, a: int) -> int:
    return -(-x // a) * a


# ------------------------------------------------------------------------------------------------------------ wire format
class Bits:
    """a bit string, least significant bit of every byte first"""

    def __init__(self) -> None:
        self.v = 0
        self.n = 0

    def put(self, value: int, bits: int) -> None:
        self.v |= (value & ((1 << bits) - 1)) << self.n
        self.n += bits

    def align(self, a: int) -> None:
        self.n = _padv(self.n, a)

    def bytes(self) -> bytes:
        return self.v.to_bytes(_padv(self.n, 8) // 8, "little")


FLOAT_FMT = {16: "<e", 32: "<f", 64: "<d"}


def _put_value(out: Bits, t: CT, v: Any) -> None:
    out.align(t.align)
    if t.kind == "uint":
        x = int(v)
        if t.saturated:
            x = max(0, min(x, (1 << t.bits) - 1))
        out.put(x, t.bits)
    elif t.kind == "int":
        x = max(-(1 << (t.bits - 1)), min(int(v), (1 << (t.bits - 1)) - 1))
        out.put(x, t.bits)
    elif t.kind == "bool":
        out.put(1 if v else 0, 1)
    elif t.kind == "float":
        out.put(int.from_bytes(struct.pack(FLOAT_FMT[t.bits], v), "little"), t.bits)
    elif t.kind == "void":
        out.put(0, t.bits)
    elif t.kind == "farr":
        assert t.elem is not None
        for x in v:
            _put_value(out, t.elem, x)
    elif t.kind == "varr":
        assert t.elem is not None
        out.put(len(v), prefix_bits(t.cap))
        for x in v:
            _put_value(out, t.elem, x)
    elif t.kind == "struct":
        for nm, ft in t.fields:
            _put_value(out, ft, v[nm] if nm else None)
        out.align(8)
    elif t.kind == "union":
        (nm, x), = v.items()
        idx = [n_ for n_, _ in t.fields].index(nm)
        out.put(idx, prefix_bits(len(t.fields) - 1))
        _put_value(out, t.fields[idx][1], x)
        out.align(8)
    elif t.kind == "delimited":
        assert t.inner is not None
        inner = Bits()
        _put_value(inner, t.inner, v)
        payload = inner.bytes()
        out.put(len(payload), 32)
        for b in payload:
            out.put(b, 8)
    else:
        raise AssertionError(t.kind)


def encode(t: CT, v: Any, with_header: bool = False) -> bytes:
    """the serialized representation of a top-level object of a composite type (a delimited type: of its inner type, with
    the header only on request)"""
    out = Bits()
    if t.kind == "delimited" and not with_header:
        assert t.inner is not None
        _put_value(out, t.inner, v)
    else:
        _put_value(out, t, v)
    return out.bytes()


class Rejected(Exception):
    pass


class Window:
    """a bit window over the data: reads past its end yield zeros"""

    def __init__(self, data: bytes, start: int, end: int):
        self.v = int.from_bytes(data, "little")
        self.pos, self.end = start, end

    def get(self, bits: int) -> int:
        avail = max(0, min(bits, self.end - self.pos))
        x = (self.v >> self.pos) & ((1 << avail) - 1) if avail else 0
        self.pos += bits
        return x

    def align(self, a: int) -> None:
        self.pos = _padv(self.pos, a)

    @property
    def remaining(self) -> int:
        return max(0, self.end - self.pos)


def _get_value(w: Window, data: bytes, t: CT) -> Any:
    w.align(t.align)
    if t.kind == "uint":
        return w.get(t.bits)
    if t.kind == "int":
        x = w.get(t.bits)
        return x - (1 << t.bits) if x >> (t.bits - 1) else x
    if t.kind == "bool":
        return bool(w.get(1))
    if t.kind == "float":
        return struct.unpack(FLOAT_FMT[t.bits], w.get(t.bits).to_bytes(t.bits // 8, "little"))[0]
    if t.kind == "void":
        w.get(t.bits)
        return None
    if t.kind == "farr":
        assert t.elem is not None
        return [_get_value(w, data, t.elem) for _ in range(t.cap)]
    if t.kind == "varr":
        assert t.elem is not None
        n = w.get(prefix_bits(t.cap))
        if n > t.cap:
            raise Rejected("ArrayLengthError")
        return [_get_value(w, data, t.elem) for _ in range(n)]
    if t.kind == "struct":
        out = {}
        for nm, ft in t.fields:
            x = _get_value(w, data, ft)
            if nm:
                out[nm] = x
        w.align(8)
        return out
    if t.kind == "union":
        idx = w.get(prefix_bits(len(t.fields) - 1))
        if idx >= len(t.fields):
            raise Rejected("UnionTagError")
        nm, ft = t.fields[idx]
        x = _get_value(w, data, ft)
        w.align(8)
        return {nm: x}
    if t.kind == "delimited":
        assert t.inner is not None
        n = w.get(32) * 8
        if n > w.remaining:
            raise Rejected("DelimiterHeaderError")
        sub = Window(data, w.pos, w.pos + n)
        x = _get_value(sub, data, t.inner)
        w.pos += n
        return x
    raise AssertionError(t.kind)


def decode(t: CT, data: bytes, with_header: bool = False) -> Any:
    """the object a representation stands for (Rejected carries the name of the error class)"""
    w = Window(data, 0, 8 * len(data))
    if t.kind == "delimited" and not with_header:
        assert t.inner is not None
        return _get_value(w, data, t.inner)
    return _get_value(w, data, t)


# ------------------------------------------------------------------------------------------------------------ evaluation
def run_codec(ctx: Ctx, types: Types, fn: str, t: CT, arg: Any, with_header: bool = False, relaxed: bool = False) -> Any:
    """`serialize(schema, obj)` / `deserialize(schema, data)` evaluated from the source of _serdes: the result, or
    ("raised", class name)"""
    from ..absint import Raised
    from ..fold import Folder, Unfoldable

    sd = ctx.repo.module("_serdes")
    src = "%s(s, x%s%s)" % (fn, ", with_delimiter_header=True" if with_header else "", ", relaxed=True" if relaxed else "")
    try:
        return Folder({"s": t.obj, "x": arg}, ctx.repo, sd, None, types.hook_for(types.prim)).fold(ast.parse(src, mode="eval").body)
    except Raised as ex:
        return ("raised", ex.cls_name)
    except Unfoldable as ex:
        raise AnalysisError("%s of %s cannot be evaluated from the source: %s" % (fn, t.label, ex))
