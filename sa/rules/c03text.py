"""
C03, text level: definition texts generated from descriptions (rules/textworld.py) are read by the repository's front end,
evaluated from the source (rules/frontend.py), and the model is compared with the description.

R9   mirror: every field, padding and constant of the description appears once, in order, in its section, with its declared
     name, normalised type (text and structure), evaluated value and comment; kind, flags, version, port-ID, extent, service
     split as described - for every spelling the Specification gives a type (implicit / explicit cast mode, the three array
     forms, capacity expressions, short and full composite references).
R10  formatting: the digest of the model of every text of the corpus is the same under the formatting changes the
     Specification calls insignificant (blank runs as tabs / mixed / longer, blanks in every optional gap, CRLF, mixed line
     ends, no final newline, trailing blanks, empty lines and lines of blanks before statements; extra comments - compared
     without documentation); thorough: every whitespace site on its own.
R11  canonical rendering: the attributes' own `str()` (documented as "the normalized DSDL representation") plus the
     directives, read again, give an equal model (without documentation).
"""
from __future__ import annotations

import re
from fractions import Fraction
from typing import Any, Dict, List, Optional, Tuple

from ..absint import APath
from ..core import AnalysisError, Ctx
from . import textworld as T
from .frontend import FrontEnd
from .textworld import C, Def, F, P, Section

ROOT = "/w/ns"


def corpus() -> Tuple[List[Def], List[Def]]:
    deps = [
        Def("B", [Section([F("uint8", "saturated uint8", "z")])]),
        Def("D", [Section([F("bool", "bool", "flag")], seal=("extent", "64", 64))], version=(2, 3), ns="ns.sub"),
        Def("Old", [Section([F("int16", "saturated int16", "v")])], deprecated=True),
    ]
    m1 = Def("M1", [Section([
        F("uint8", "saturated uint8", "a", "first"),
        F("saturated uint8", "saturated uint8", "b"),
        F("truncated uint8", "truncated uint8", "c", "doc c\nmore doc c"),
        F("int5", "saturated int5", "d"),
        F("saturated int64", "saturated int64", "e"),
        F("float16", "saturated float16", "f"),
        F("truncated float32", "truncated float32", "g", "g"),
        F("saturated float64", "saturated float64", "h"),
        P(3, "pad"),
        F("bool", "bool", "i"),
        F("uint1", "saturated uint1", "j"),
        F("int2", "saturated int2", "k"),
        F("truncated uint64", "truncated uint64", "l"),
        P(64),
        F("truncated float16", "truncated float16", "truncated_"),
        F("saturated float32", "saturated float32", "saturated_"),
    ], doc="Header line one\nline two")])
    m2 = Def("M2", [Section([
        F("uint8[3]", "saturated uint8[3]", "a"),
        F("uint8[<4]", "saturated uint8[<=3]", "b"),
        F("uint8[<=3]", "saturated uint8[<=3]", "c", "c"),
        F("truncated float16[<=0x10]", "truncated float16[<=16]", "d"),
        F("bool[2 + 2]", "bool[4]", "e"),
        F("byte[<=7]", "byte[<=7]", "f"),
        F("utf8[<=20]", "utf8[<=20]", "g"),
        F("B.1.0", "ns.B.1.0", "h", "short reference"),
        F("ns.B.1.0[2]", "ns.B.1.0[2]", "i"),
        F("ns.sub.D.2.3[<=2]", "ns.sub.D.2.3[<=2]", "j"),
        F("int7[<3]", "saturated int7[<=2]", "k"),
        F("byte[1]", "byte[1]", "m"),
        F("truncated uint3[<=2**3-1]", "truncated uint3[<=7]", "n"),
        F("saturated int64[1]", "saturated int64[1]", "o"),
    ], seal=("extent", "1024 * 8", 8192))])
    m3 = Def("M3", [Section([
        C("uint8", "saturated uint8", "A", "255", ("Rational", 255), "the largest"),
        C("int8", "saturated int8", "B", "-128", ("Rational", -128)),
        C("uint8", "saturated uint8", "CH", "'x'", ("Rational", 120)),
        F("uint16", "saturated uint16", "field", "a field between constants"),
        C("float32", "saturated float32", "Q", "3.25", ("Rational", Fraction(13, 4))),
        C("bool", "bool", "T", "true", ("Boolean", True)),
        C("bool", "bool", "N", "!true || false", ("Boolean", False)),
        C("int64", "saturated int64", "BIG", "-2 ** 63", ("Rational", -(2**63))),
        C("float64", "saturated float64", "THIRD", "1 / 3", ("Rational", Fraction(1, 3))),
        C("truncated uint4", "truncated uint4", "NIB", "0x_F", ("Rational", 15)),
        F("int3", "saturated int3", "other"),
        C("uint8", "saturated uint8", "SUM", "A - 250 + 2 * 2", ("Rational", 9)),
        C("truncated float16", "truncated float16", "E", "1_0.5e-1", ("Rational", Fraction(21, 20))),
        C("uint64", "saturated uint64", "MAX", "0xFFFF_FFFF_FFFF_FFFF", ("Rational", 2**64 - 1)),
    ], extra=["@assert SUM == 9 && NIB == 0b1111", "@assert _offset_ == {16 + 3}"])])
    u1 = Def("U1", [Section([
        F("uint8", "saturated uint8", "a"),
        F("Old.1.0", "ns.Old.1.0", "b"),
        F("float32[<=2]", "saturated float32[<=2]", "c", "third"),
        C("uint8", "saturated uint8", "K", "1", ("Rational", 1)),
        F("ns.sub.D.2.3", "ns.sub.D.2.3", "d"),
    ], union=True, doc="a union")], deprecated=True)
    s1 = Def("S1", [
        Section([F("uint8", "saturated uint8", "a"), F("B.1.0", "ns.B.1.0", "b", "b")], seal=("extent", "256", 256), doc="request doc"),
        Section([F("uint8", "saturated uint8", "x"), F("uint16", "saturated uint16", "y"), C("bool", "bool", "OK", "false", ("Boolean", False))], union=True, doc="response doc"),
    ])
    e1 = Def("E1", [Section([])])
    e2 = Def("E2", [Section([]), Section([])], version=(0, 1))
    p1 = Def("P1", [Section([F("uint7", "saturated uint7", "q"), P(1)])], port=7001, version=(255, 255))
    s2 = Def("S2", [Section([P(8)], doc=""), Section([F("bool", "bool", "done")], seal=("extent", "8", 8))], port=300)
    return deps, [m1, m2, m3, u1, s1, e1, e2, p1, s2]


_PRIM = {"uint": "UnsignedIntegerType", "int": "SignedIntegerType", "float": "FloatType"}


def shape(canon: str) -> Dict[str, Any]:
    """the structure a canonical type text stands for (the checker's own reading of the Specification's notation)"""
    m = re.fullmatch(r"(.*)\[(<=)?(\d+)\]", canon)
    if m:
        return {"kind": "VariableLengthArrayType" if m.group(2) else "FixedLengthArrayType", "capacity": int(m.group(3)), "element": shape(m.group(1))}
    if canon == "bool":
        return {"kind": "BooleanType", "bits": 1}
    if canon in ("byte", "utf8"):
        return {"kind": "ByteType" if canon == "byte" else "UTF8Type", "bits": 8}
    m = re.fullmatch(r"(saturated|truncated) (uint|int|float)(\d+)", canon)
    if m:
        return {"kind": _PRIM[m.group(2)], "bits": int(m.group(3)), "truncated": m.group(1) == "truncated", "saturated": m.group(1) == "saturated"}
    m = re.fullmatch(r"void(\d+)", canon)
    if m:
        return {"kind": "VoidType", "bits": int(m.group(1))}
    m = re.fullmatch(r"([A-Za-z_][\w.]*)\.(\d+)\.(\d+)", canon)
    if m:
        return {"full_name": m.group(1), "version": (int(m.group(2)), int(m.group(3)))}
    raise AssertionError(canon)


def _with_shapes(e: Any) -> Any:
    if isinstance(e, dict):
        out = {k: _with_shapes(v) for k, v in e.items()}
        if "type" in e and "name" in e and isinstance(e["type"], str) and e["type"] is not None:
            out["shape"] = shape(e["type"])
        return out
    if isinstance(e, list):
        return [_with_shapes(x) for x in e]
    return e


class TextRun:
    """the outcome of one evaluation of read_namespace over a directory of texts"""

    def __init__(self, out: Dict[str, Any]):
        self.out = out
        self.by_name: Dict[Tuple[str, Tuple[int, int]], Dict[str, Any]] = {}
        for d in self.out.get("types", []) or []:
            self.by_name[(d["full_name"], tuple(d["version"]))] = d  # type: ignore

    @property
    def error(self) -> Optional[str]:
        o = self.out
        return None if o["raised"] is None else "%s at %s:%s" % (o["raised"], o["path"], o["line"])


def job_for(texts: Dict[str, str], handler: bool = False, **kwargs: Any) -> Dict[str, Any]:
    kw = {"allow_unregulated_fixed_port_id": True}
    kw.update(kwargs)
    return {"files": {ROOT + "/" + k: v for k, v in texts.items()}, "root": ROOT, "kwargs": kw, "handler": handler}


def run_texts(ctx: Ctx, many: List[Dict[str, str]], handler: bool = False, **kwargs: Any) -> List[TextRun]:
    fe = front_end(ctx)
    outs = fe.read_many([job_for(t, handler, **kwargs) for t in many])
    ctx.count(sum(len(t) for t in many))
    return [TextRun(o) for o in outs]


def front_end(ctx: Ctx) -> FrontEnd:
    fe = getattr(ctx, "_front_end", None)
    if fe is None:
        fe = FrontEnd(ctx)
        ctx._front_end = fe  # type: ignore
    return fe


def _reference(ctx: Ctx) -> Tuple[Dict[str, str], TextRun]:
    """the corpus as rendered, read once per check"""
    hit = getattr(ctx, "_c03_reference", None)
    if hit is None:
        deps, bases = corpus()
        texts = {d.file_name: T.render(d) for d in deps + bases}
        hit = (texts, run_texts(ctx, [texts])[0])
        ctx._c03_reference = hit  # type: ignore
    return hit


def rule_r9_mirror(ctx: Ctx) -> None:
    ctx.rule("C03.R9", "texts generated from descriptions (every type spelling, array form, constant kind, directive, service split) read by the evaluated front end: the model says what the description says - each attribute once, in order, in its section, with name, normalised type (text and structure), value and comment", min_instances=9)
    deps, bases = corpus()
    texts, run = _reference(ctx)
    where = "pydsdl/_parser.py"
    if run.error:
        # which text is it?  read them one by one (with the dependencies)
        singles = run_texts(ctx, [{x.file_name: texts[x.file_name] for x in deps + [d]} for d in bases])
        for d, one in zip(bases, singles):
            ctx.check(one.error is None, "read_namespace over the text of %s" % d.full_name, "a valid definition is accepted", "a valid text generated from a description is rejected: %s" % one.error, where, texts[d.file_name])
        if all(i.ok for i in ctx.instances if i.rule == "C03.R9"):
            ctx.fail("read_namespace over the corpus", "all texts together", "the corpus is rejected as a whole though every text is accepted on its own: %s" % run.error, where=where)
        return
    for d in deps + bases:
        got = run.by_name.get((d.full_name, d.version))
        exp = _with_shapes(T.expected(d, ROOT))
        diffs = ["no such type in the result"] if got is None else T.compare(exp, got)
        ctx.check(not diffs, "model of %s" % d.full_name, "%d statements" % sum(len(s.attrs) for s in d.sections), "the model does not mirror the text: %s" % "; ".join(diffs[:4]), where, {"text": texts[d.file_name], "differences": diffs[:8]})
    ctx.analysed["C03.R9.statements"] = sum(len(s.attrs) for d in deps + bases for s in d.sections)


def _combine(m: Any, text: str, labels: List[str]) -> str:
    """several formatting changes at once (each applied to the result of the one before)"""
    for l in labels:
        for l2, t2, _ in T.mutants(m, text, False):
            if l2 == l:
                text = t2
                break
    return text


COMBINED = [
    ("tabs, filled gaps, CRLF, trailing blanks, empty lines, no final newline", ["every blank run a TAB", "a blank in every optional gap", "trailing blanks and tabs", "empty lines before statements", "CRLF line ends", "no final newline"], True),
    ("mixed blank runs, tabs in the gaps of statements, alternating line ends, lines of blanks", ["every blank run blank+TAB+blank", "a TAB in every optional gap inside statements", "lines of blanks before statements", "alternating LF / CRLF line ends"], True),
    ("TAB+blank runs, long runs and extra comments", ["every blank run TAB+blank", "extra comments"], False),
    ("three blanks", ["every blank run three blanks"], True),
]


def rule_r10_formatting(ctx: Ctx) -> None:
    ctx.rule("C03.R10", "the model of every text of the corpus is the same under formatting the Specification calls insignificant: blank runs as tabs / mixed / longer, blanks in every optional gap, CRLF and mixed line ends, no final newline, trailing blanks, empty lines and lines of blanks before statements, extra comments (compared without documentation); quick: in four combinations, thorough: each on its own and every whitespace site on its own", min_instances=4)
    fe = front_end(ctx)
    deps, bases = corpus()
    thorough = ctx.tier == "thorough"
    base_texts, ref = _reference(ctx)
    if ref.error:
        raise AnalysisError("the unformatted corpus is not accepted (%s): decided by C03.R9" % ref.error)
    where = "pydsdl/_parser.py"
    plans: List[Tuple[str, Dict[str, str], bool]] = []
    for label, parts, docs in COMBINED:
        plans.append((label, {fn: _combine(fe.matcher, t, parts) for fn, t in base_texts.items()}, docs))
    if thorough:
        seen: List[str] = []
        per = {fn: T.mutants(fe.matcher, t, False) for fn, t in base_texts.items()}
        for ms in per.values():
            for l, _, _ in ms:
                if l not in seen:
                    seen.append(l)
        for l in seen:
            texts = dict(base_texts)
            docs = True
            for fn, ms in per.items():
                for l2, t2, d2 in ms:
                    if l2 == l:
                        texts[fn], docs = t2, docs and d2
            plans.append((l, texts, docs))
    runs = run_texts(ctx, [p[1] for p in plans])
    n_runs = len(runs)

    def differences(run: TextRun, docs: bool) -> List[Tuple[str, List[str]]]:
        bad = []
        for d in deps + bases:
            a, b = ref.by_name.get((d.full_name, d.version)), run.by_name.get((d.full_name, d.version))
            if not docs:
                a, b = T.strip_docs(a), T.strip_docs(b)
            if a != b:
                bad.append((d.file_name, (T.compare(a, b) if isinstance(a, dict) and isinstance(b, dict) else ["%r vs %r" % (a, b)])[:3]))
        return bad

    for (label, texts, docs), run in zip(plans, runs):
        if run.error is None:
            bad = differences(run, docs)
            if not bad:
                ctx.ok("formatting: %s" % label, "%d texts, same model" % len(texts), where=where)
                continue
        # name the text (and, for a combination, the part) that makes the difference
        found = None
        parts = next((p for l, p, _ in COMBINED if l == label), [label])
        trials = []
        for fn in base_texts:
            if texts[fn] == base_texts[fn]:
                continue
            for part in parts if len(parts) > 1 else [None]:
                one = dict(base_texts)
                one[fn] = texts[fn] if part is None else _combine(fe.matcher, base_texts[fn], [part])
                trials.append((fn, part or label, one))
        for (fn, part, one), r1 in zip(trials, run_texts(ctx, [t[2] for t in trials])):
            n_runs += 1
            b1 = [("", [r1.error])] if r1.error else differences(r1, docs and part != "extra comments")
            if b1:
                found = (fn, part, b1[0][1], one[fn])
                break
        if found:
            ctx.fail("formatting: %s" % found[1], "%s reads as before" % found[0], "the model changes under formatting the Specification calls insignificant (%s): %s" % (found[1], "; ".join(str(x) for x in found[2])), where=where, detail={"file": found[0], "text": found[3], "differences": found[2]})
        else:
            ctx.fail("formatting: %s" % label, "reads as before", "the model changes under formatting the Specification calls insignificant: %s" % (run.error or differences(run, docs)[:2]), where=where)
    if thorough:
        # every whitespace site on its own: one definition at a time (the others unformatted)
        plans2: List[Tuple[Def, str, str, Dict[str, str]]] = []
        known = {l for l, _, _ in T.mutants(fe.matcher, "uint8 a\n@sealed\n", False)} | {"extra comments"}
        for d in bases:
            base = base_texts[d.file_name]
            for l, t, _ in T.mutants(fe.matcher, base, True):
                if l.startswith(("blank run ", "a TAB in optional gap ")):
                    texts = {x.file_name: base_texts[x.file_name] for x in deps}
                    texts[d.file_name] = t
                    plans2.append((d, l, t, texts))
        runs2 = run_texts(ctx, [p[3] for p in plans2])
        n_runs += len(runs2)
        for d in bases:
            bad = []
            n = 0
            for (d2, l, t, _), run in zip(plans2, runs2):
                if d2 is not d:
                    continue
                n += 1
                a, b = ref.by_name.get((d.full_name, d.version)), run.by_name.get((d.full_name, d.version))
                if run.error or a != b:
                    bad.append((l, run.error or "; ".join(T.compare(a, b)[:3]), t))
            ctx.check(not bad, "formatting of %s, one whitespace site at a time" % d.full_name, "%d sites" % n, "the model changes when one whitespace site changes (%s): %s" % (bad[0][0] if bad else "", bad[0][1] if bad else ""), where, {"text": bad[0][2]} if bad else None)
    ctx.analysed["C03.R10.runs"] = n_runs


def canonical_text(d: Dict[str, Any]) -> str:
    """the definition rendered from its model: the attributes' own str() and the directives"""

    def section(s: Dict[str, Any]) -> List[str]:
        inner = s.get("inner", s)
        lines = []
        if inner["deprecated"] and not inner["has_parent_service"]:
            lines.append("@deprecated")
        if inner["kind"] == "UnionType":
            lines.append("@union")
        lines.extend(a["text"] for a in inner["attributes"])
        lines.append("@extent %d" % s["extent"] if s["kind"] == "DelimitedType" else "@sealed")
        return lines

    if d["kind"] == "ServiceType":
        req, resp = section(d["request"]), section(d["response"])
        if d["deprecated"]:
            req.insert(0, "@deprecated")
        return "\n".join(req + ["---"] + resp) + "\n"
    return "\n".join(section(d)) + "\n"


def rule_r11_round_trip(ctx: Ctx) -> None:
    ctx.rule("C03.R11", "rendering the model back to canonical DSDL (the attributes' own str(), documented as the normalized DSDL representation, plus the directives) and reading that again yields an equal model (documentation aside)", min_instances=9)
    deps, bases = corpus()
    base_texts, ref = _reference(ctx)
    if ref.error:
        raise AnalysisError("the corpus is not accepted (%s): decided by C03.R9" % ref.error)
    again_texts = {}
    for d in deps + bases:
        got = ref.by_name.get((d.full_name, d.version))
        if got is None:
            raise AnalysisError("no model of %s: decided by C03.R9" % d.full_name)
        again_texts[d.file_name] = canonical_text(got)
    again = run_texts(ctx, [again_texts])[0]
    where = "pydsdl/_serializable/_attribute.py"
    if again.error:
        ctx.fail("canonical rendering of the corpus", "accepted", "the canonical rendering of an accepted definition is rejected: %s" % again.error, where=where, detail=again_texts)
        return
    for d in deps + bases:
        a, b = T.strip_docs(ref.by_name[(d.full_name, d.version)]), T.strip_docs(again.by_name.get((d.full_name, d.version)))
        diffs = T.compare(a, b) if isinstance(b, dict) else ["absent"]
        ctx.check(not diffs, "round trip of %s" % d.full_name, "render, read again, compare", "the canonical rendering reads back as a different model: %s" % "; ".join(diffs[:3]), where, {"rendered": again_texts[d.file_name], "differences": diffs[:6]})


def run(ctx: Ctx) -> None:
    ctx.attempt(rule_r9_mirror, ctx)
    ctx.attempt(rule_r10_formatting, ctx)
    ctx.attempt(rule_r11_round_trip, ctx)
