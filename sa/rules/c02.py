"""
C02 -- Every type's layout (lengths, alignment, extent, prefixes) is the Specification.

R1  array length-prefix width folded for every capacity class (both sides of 2**8 / 2**16 / 2**32 / 2**64).
R2  union tag width folded for every variant-count class.
R3  delimiter header width.
R4  alignment definitions (primitive/void 1, array = element's, composite = max(8, fields) = 8 on the reachable domain).
R5  layout terms: each bit_length_set definition, as a term of the bit-length-set algebra, equals the Specification's.
R6  extent definitions (sealed: longest representation; delimited: declared).
"""
from __future__ import annotations

import ast
from typing import Any, Dict, List, Optional, Tuple

from .. import spec_tables as spec
from ..core import AnalysisError, ClassInfo, Ctx, FuncInfo, body_without_docstring, dotted, norm, unparse, walk_no_nested
from ..decide import PathEnumerator, paths_of, substitute
from ..absint import Evaluator, Raised
from ..fold import Abstract, Folder, Sym, Unfoldable
from ..layout import NotLayout, TBls, bls_term, explore, mentions_only_min_max, show_term, term_str, under
from ..regions import flatten_init, inline_properties, trivial_property_expr
from .c05 import enum_hook

SER = "_serializable."


def _cap_domain() -> List[int]:
    out = {1, 2, 3}
    for b in range(1, 65):
        for v in (2**b - 1, 2**b, 2**b + 1):
            if 1 <= v < 2**64:
                out.add(v)
    return sorted(out)


def rule_r1_prefix(ctx: Ctx) -> None:
    repo = ctx.repo
    ctx.rule("C02.R1", "implicit array length prefix: smallest of 8/16/32/64 bits able to hold the capacity, truncated unsigned", min_instances=2)
    from ..absint import Recorder
    from ..codec import isa_of
    from . import c05 as M
    from .c15 import _prop

    c = ctx.cls(SER + "_array.VariableLengthArrayType")
    init = repo.lookup_method(c, "__init__")
    where = init.where() if init else c.module.relpath
    bad = []
    kinds = set()
    dom = _cap_domain()
    for cap in dom:
        for al in (1, 8):
            et = Sym(bit_length_set=TBls.var("E", al), alignment_requirement=al, _isa_=isa_of(ctx, SER + "_primitive.UnsignedIntegerType"), _kind_="UnsignedIntegerType", _check_aggregation=Recorder("_check_aggregation", None), extent=64)
            o = M._construct_outcome(ctx, c, et, cap)
            if isinstance(o, str):
                raise AnalysisError("VariableLengthArrayType(element, %d) raised %s over abstract arguments" % (cap, o))
            lt = _prop(ctx, o, "length_field_type")
            w = getattr(lt, "bit_length", None)
            kinds.add((getattr(lt, "kind", getattr(lt, "_kind_", None)), getattr(lt, "cast_mode", None)))
            ctx.count()
            want = spec.smallest_standard_width(cap)
            if w != want:
                bad.append({"capacity": cap, "element_alignment": al, "found": w, "expected": want})
    ctx.check(not bad, c.short + ".__init__", "length prefix width", "prefix width must be the smallest of 8/16/32/64 holding the capacity (%d capacities x 2 alignments)" % len(dom), where, bad[:6])
    ctx.check(kinds == {("UnsignedIntegerType", "CastMode.TRUNCATED")}, c.short + ".__init__", "length prefix type", "the prefix is a truncated unsigned integer", where, sorted(map(str, kinds)))
    ctx.sample({"rule": "C02.R1", "rows": {str(x): spec.smallest_standard_width(x) for x in (255, 256, 65535, 65536)}})


class AbsSeq(Abstract):
    """
    a sequence of `n` abstract elements of which only the distinct representatives are enumerated: len() is exact, iteration
    visits each representative once (sound for idempotent accumulations such as max over the elements)
    """

    def __init__(self, n: int, reps: List[Any]):
        self.n = n
        self.reps = list(reps)

    def __len__(self) -> int:
        return self.n

    def __iter__(self) -> Any:
        return iter(self.reps[: self.n] if self.n < len(self.reps) else self.reps)

    def __getitem__(self, i: Any) -> Any:
        if isinstance(i, int):
            return self.reps[min(i, len(self.reps) - 1)]
        raise Unfoldable("slice of an abstract sequence")


def rule_r2_tag(ctx: Ctx) -> None:
    repo = ctx.repo
    ctx.rule("C02.R2", "union tag: smallest of 8/16/32/64 bits able to hold the largest variant index, truncated unsigned, computed over the variants", min_instances=1)
    u = ctx.cls(SER + "_composite.UnionType")
    fn = u.methods.get("_compute_tag_bit_length")
    # (if the width computation lives elsewhere - a helper of another module, in-line code - it is decided through the
    # constructor alone, below, on more variant counts)
    param = fn.params[0] if fn is not None and fn.params else None
    body = body_without_docstring(ctx.inl(fn)) if fn is not None else []
    bad = []
    ns = sorted({2, 3, 4} | {v for j in range(1, 33) for v in (2**j - 1, 2**j, 2**j + 1)}) if param is not None else []
    for n in ns:
        for al in (1, 8):
            seq = AbsSeq(n, [Sym(alignment_requirement=al), Sym(alignment_requirement=1)])
            try:
                w = Evaluator({param: seq}, repo, fn.module, u).run(body)
            except (Unfoldable, Raised) as ex:
                raise AnalysisError("cannot evaluate the tag width over %d abstract variants: %s" % (n, ex))
            ctx.count()
            want = spec.smallest_standard_width(n - 1)
            if w != want:
                bad.append({"variants": n, "alignment": al, "found": w, "expected": want})
    if param is not None:
        ctx.check(not bad, fn.short, "tag width", "tag width must be the smallest of 8/16/32/64 holding index n-1 (%d variant counts)" % len(ns), fn.where(), bad[:6])
    # the stored tag type: unions are constructed over n fields mixed with constants and paddings; the tag must be a truncated
    # unsigned integer as wide as the tag computation says for n *variants* (constants are not variants)
    from ..codec import isa_of
    from . import c05 as M
    from .c15 import _prop

    init = repo.lookup_method(u, "__init__")
    where = init.where() if init else u.module.relpath
    bad = []
    kinds = set()
    for n in (2, 3, 255, 256, 257) + (() if param is not None else (4, 5, 128, 300)):  # (without the helper only the 8 / 16 bit boundary is within reach)
        for n_const in (0, 1, 300) if n < 1000 else (0,):
            attrs = [M.attribute_sym(ctx, "Field", "f%d" % i) for i in range(n)]
            consts = [M.attribute_sym(ctx, "Constant", "K%d" % i) for i in range(n_const)]
            o = M.structure(ctx, attributes=consts[: n_const // 2] + attrs + consts[n_const // 2 :], kind="UnionType")
            if isinstance(o, str):
                raise AnalysisError("UnionType over %d fields and %d constants raised %s" % (n, n_const, o))
            t = _prop(ctx, o, "tag_field_type")
            kinds.add((getattr(t, "kind", getattr(t, "_kind_", None)), getattr(t, "cast_mode", None)))
            ctx.count()
            if getattr(t, "bit_length", None) != spec.smallest_standard_width(n - 1):
                bad.append({"variants": n, "constants": n_const, "found": getattr(t, "bit_length", None), "expected": spec.smallest_standard_width(n - 1)})
    ctx.check(not bad and kinds == {("UnsignedIntegerType", "CastMode.TRUNCATED")}, u.short + ".__init__", "tag field type", "the tag is a truncated unsigned integer whose width is computed over the types of all variants", where, {"widths": bad[:4], "kinds": sorted(map(str, kinds))})


def _is_types_of_fields(e: ast.AST) -> bool:
    """[f.data_type for f in self.fields] in any spelling: comprehension / generator / map(lambda) without a filter"""
    if isinstance(e, ast.Call) and dotted(e.func) in ("list", "tuple") and len(e.args) == 1:
        e = e.args[0]
    if isinstance(e, (ast.ListComp, ast.GeneratorExp)) and len(e.generators) == 1 and not e.generators[0].ifs:
        g = e.generators[0]
        return norm(g.iter) in ("self.fields", "self._fields") and isinstance(g.target, ast.Name) and norm(e.elt) == "%s.data_type" % g.target.id
    if isinstance(e, ast.Call) and dotted(e.func) == "map" and len(e.args) == 2 and isinstance(e.args[0], ast.Lambda):
        lam = e.args[0]
        return norm(e.args[1]) in ("self.fields", "self._fields") and len(lam.args.args) == 1 and norm(lam.body) == "%s.data_type" % lam.args.args[0].arg
    return False


def rule_r3_header(ctx: Ctx) -> None:
    """the delimiter header of a delimited wrapper built over an abstract inner type"""
    from . import c05 as M
    from .c15 import _prop

    ctx.rule("C02.R3", "delimiter header is a 32-bit truncated unsigned integer")
    d = ctx.cls(SER + "_composite.DelimitedType")
    init = d.methods.get("__init__")
    inner = M.structure(ctx, attributes=[M.attribute_sym(ctx, "Field", "x", bits=8)])
    if isinstance(inner, str):
        raise AnalysisError("an inner structure cannot be constructed over abstract arguments: %s" % inner)
    vals = set()
    # small, ordinary and huge extents, on both sides of every power of two at which a "smallest integer that can hold the
    # extent" would change its mind (2**8, 2**16, 2**32 bytes and bits): the header does not depend on the extent
    extents = [8, 64, 8 * 1000] + [8 * (2**k + d) for k in (8, 16, 29, 32, 35, 40, 56) for d in (-1, 0, 1)]
    for extent in extents:
        o = M.build_model(ctx, SER + "_composite.DelimitedType", inner=inner, extent=extent)
        if isinstance(o, str):
            raise AnalysisError("DelimitedType(inner, %d) raised %s over abstract arguments" % (extent, o))
        h = _prop(ctx, o, "delimiter_header_type")
        vals.add((getattr(h, "kind", getattr(h, "_kind_", None)), getattr(h, "bit_length", None), getattr(h, "cast_mode", None)))
        ctx.count()
    ctx.check(vals == {("UnsignedIntegerType", spec.DELIMITER_HEADER_BITS, "CastMode.TRUNCATED")}, d.short, "delimiter header type", "the delimiter header must be uint32 (truncated)", init.where() if init else d.module.relpath, sorted(map(str, vals)))


def rule_r4_alignment(ctx: Ctx) -> None:
    repo = ctx.repo
    ctx.rule("C02.R4", "alignment_requirement: primitives/void 1; arrays = element's; composites max(8, field alignments) (= 8 on the reachable domain {1, 8})", min_instances=4)
    for cname in ("_primitive.PrimitiveType", "_void.VoidType"):
        k = ctx.cls(SER + cname)
        e = trivial_property_expr(repo, k, "alignment_requirement")
        v = None
        if e is not None:
            try:
                v = Folder({}, repo, k.module, k).fold(e)
            except Unfoldable:
                v = None
        ctx.check(v == 1, k.short + ".alignment_requirement", norm(e) if e is not None else "?", "primitives and voids need no alignment", k.module.relpath, v)
        for sub in repo.subclasses(k, strict=True):
            if "alignment_requirement" in sub.methods:
                ctx.fail(sub.short + ".alignment_requirement", "override", "a primitive subclass overrides the alignment", where=sub.module.relpath)
    arr = ctx.cls(SER + "_array.ArrayType")
    e = trivial_property_expr(repo, arr, "alignment_requirement")
    ctx.check(e is not None and norm(inline_properties(repo, arr, e)) in ("self._element_type.alignment_requirement",), arr.short + ".alignment_requirement", norm(e) if e is not None else "?", "an array is aligned as its element", arr.module.relpath)
    for sub in repo.subclasses(arr, strict=True):
        if "alignment_requirement" in sub.methods:
            ctx.fail(sub.short + ".alignment_requirement", "override", "an array subclass overrides the alignment", where=sub.module.relpath)
    comp = ctx.cls(SER + "_composite.CompositeType")
    afn = repo.lookup_method(comp, "alignment_requirement")
    if afn is None or not afn.is_property:
        raise AnalysisError("CompositeType.alignment_requirement is not a property")
    body = body_without_docstring(ctx.inl(afn))
    e = afn.node
    bad = []
    for fields in ([], [1], [8], [1, 1], [1, 8], [8, 8, 1]):
        fl = [Sym(data_type=Sym(alignment_requirement=a)) for a in fields]
        me = Sym(fields=fl, _fields=fl, attributes=fl, _attributes=fl)
        try:
            v = Evaluator({"self": me}, repo, comp.module, comp).run(body)
        except (Unfoldable, Raised) as ex:
            raise AnalysisError("cannot evaluate CompositeType.alignment_requirement over abstract fields: %s" % ex)
        ctx.count()
        if v != max([8] + fields):
            bad.append({"field_alignments": fields, "found": v})
    ctx.check(not bad, comp.short + ".alignment_requirement", norm(e)[:120].replace("\n", " "), "a composite is aligned to max(8, alignments of its fields)", comp.module.relpath, bad)
    for sub in repo.subclasses(comp, strict=True):
        if "alignment_requirement" in sub.methods:
            ctx.fail(sub.short + ".alignment_requirement", "override", "a composite subclass overrides the alignment", where=sub.module.relpath)


# ---------------------------------------------------------------------------------------------------- R5
def _std_width(n: int) -> int:
    return spec.smallest_standard_width(n)


def _layout_hook(ctx: Ctx, mod: Any, cls: Optional[ClassInfo]) -> Any:
    """what the abstract evaluation needs to know about the model: BitLengthSet builds terms; integer-type constructors are
    records of their width; aggregate_bit_length_sets is evaluated from its own definition"""
    repo = ctx.repo
    eh = enum_hook(ctx, mod, cls)

    def hook(e: ast.expr, f: Folder) -> Any:
        r = eh(e, f)
        if r is not NotImplemented:
            return r
        if isinstance(e, ast.Call):
            name = dotted(e.func) or ""
            last = name.split(".")[-1]
            if last == "BitLengthSet" and len(e.args) <= 1 and not e.keywords:
                return TBls.of(f.fold(e.args[0]) if e.args else 0)
            if name.endswith("BitLengthSet.unite") and len(e.args) == 1:
                return TBls.unite(list(f.fold(e.args[0])))
            if name.endswith("BitLengthSet.concatenate") and len(e.args) == 1:
                return TBls.concatenate(list(f.fold(e.args[0])))
            if last in ("UnsignedIntegerType", "SignedIntegerType") and len(e.args) == 2:
                return Sym(bit_length=f.fold(e.args[0]), cast_mode=f.fold(e.args[1]), alignment_requirement=1, kind=last)
            if last == "aggregate_bit_length_sets" and len(e.args) == 1 and isinstance(e.func, ast.Attribute):
                owner = None
                b = e.func.value
                try:
                    bv = f.fold(b)
                except Unfoldable:
                    bv = None
                if isinstance(bv, ClassInfo):
                    owner = bv
                elif type(bv).__name__ == "AObj":
                    owner = bv._cls_
                elif isinstance(b, ast.Name) and b.id in ("self", "cls") and f.cls is not None:
                    owner = f.cls
                else:
                    k = repo.resolve_expr(f.mod, b, f.cls) if f.mod is not None and isinstance(b, (ast.Name, ast.Attribute)) else None
                    owner = k if isinstance(k, ClassInfo) else None
                if owner is None:
                    raise Unfoldable("cannot tell whose aggregation %s is" % norm(e))
                fn = repo.lookup_method(owner, "aggregate_bit_length_sets")
                if fn is None:
                    raise Unfoldable("no aggregation in %s" % owner.name)
                return aggregate_term(ctx, fn, list(f.fold(e.args[0])))
        return NotImplemented

    return hook


def aggregate_term(ctx: Ctx, fn: FuncInfo, field_types: List[Any]) -> TBls:
    body = body_without_docstring(ctx.inl(fn))
    ev = Evaluator({fn.params[0]: list(field_types)}, ctx.repo, fn.module, fn.cls, _layout_hook(ctx, fn.module, fn.cls))
    v = ev.run(body)
    if not isinstance(v, TBls):
        raise Unfoldable("%s did not produce a bit length set" % fn.short)
    return v


def _field_type_grids() -> List[List[Sym]]:
    out = []
    for als in ([], [1], [8], [1, 1], [1, 8], [8, 1], [8, 8], [1, 8, 1], [8, 1, 8], [1, 1, 8]):
        out.append([Sym(bit_length_set=TBls.var("T%d" % i, a), alignment_requirement=a, name="T%d" % i) for i, a in enumerate(als)])
    return out


def spec_structure(ts: List[Sym]) -> TBls:
    acc = TBls.of(0)
    for t in ts:
        acc = acc.pad_to_alignment(t.alignment_requirement) + t.bit_length_set
    return acc


def spec_union(ts: List[Sym]) -> TBls:
    if not ts:
        return TBls.of(0)
    if len(ts) == 1:
        return ts[0].bit_length_set
    tag = max([_std_width(len(ts) - 1)] + [t.alignment_requirement for t in ts])
    return tag + TBls.unite([t.bit_length_set for t in ts])


def class_layout_exprs(ctx: Ctx, cls: ClassInfo) -> Tuple[List[ast.AST], FuncInfo]:
    """the expression(s) that define cls.bit_length_set, constructor temporaries substituted, private helpers expanded"""
    repo = ctx.repo
    prop = repo.lookup_method(cls, "bit_length_set")
    if prop is None:
        raise AnalysisError("%s.bit_length_set missing" % cls.qualname)
    ps = [p for p in paths_of(ctx.inl(prop)) if p.kind == "return"]
    if len(ps) != 1:
        raise AnalysisError("%s.bit_length_set is not a single expression" % cls.qualname)
    e = ps[0].value
    d = dotted(e)
    if d is not None and d.startswith("self._"):
        stmts, chain = flatten_init(repo, cls, node_of=ctx.inl)
        if not chain:
            raise AnalysisError("%s stores its layout but has no constructor" % cls.qualname)
        others = [f for f in cls.methods.values() if f.name != "__init__" and any(isinstance(s_, (ast.Assign, ast.AugAssign, ast.AnnAssign)) and any(dotted(t) == d for t in (s_.targets if isinstance(s_, ast.Assign) else [s_.target])) for s_ in ast.walk(f.node))]
        if others:
            raise AnalysisError("%s: %s is written outside the constructor (%s)" % (cls.qualname, d, [o.name for o in others]))
        vals = [p.env.get(d) for p in PathEnumerator().run(stmts) if p.kind == "fall"]
        if not vals or any(v is None for v in vals):
            raise AnalysisError("%s: the constructor does not store %s on every completing path" % (cls.qualname, d))
        uniq = {norm(v): v for v in vals}
        return list(uniq.values()), chain[0]
    return [e], prop


def eval_layout(ctx: Ctx, cls: ClassInfo, exprs: List[ast.AST], fn: FuncInfo, env: Dict[str, Any]) -> List[TBls]:
    """the layout definition(s) of `cls` evaluated over abstract operands"""
    out = []
    for e in exprs:
        try:
            v = Folder(dict(env), ctx.repo, fn.module, cls, _layout_hook(ctx, fn.module, cls)).fold(e)
        except Unfoldable as ex:
            raise AnalysisError("%s.bit_length_set: cannot evaluate %s over abstract operands: %s" % (cls.short, norm(e)[:80], ex))
        if isinstance(v, int) and not isinstance(v, bool):
            v = TBls.of(v)
        if not isinstance(v, TBls):
            raise AnalysisError("%s.bit_length_set: %s is not a bit length set" % (cls.short, norm(e)[:80]))
        out.append(v)
    return out


def rule_r5_terms(ctx: Ctx) -> None:
    repo = ctx.repo
    ctx.rule("C02.R5", "layout terms: every bit_length_set definition (primitive, void, fixed/variable array, structure, union, delimited) and the two aggregation functions, evaluated over abstract operands, equal the Specification's terms", min_instances=9)

    def evaluate(cls: ClassInfo, exprs: List[ast.AST], fn: FuncInfo, env: Dict[str, Any]) -> List[TBls]:
        return eval_layout(ctx, cls, exprs, fn, env)

    def compare(cls: ClassInfo, fn: FuncInfo, exprs: List[ast.AST], cases: List[Tuple[Dict[str, Any], Any, str]]) -> None:
        """cases: (environment, specification as a thunk, label)"""
        bad = []
        for env, want_f, label in cases:
            try:
                runs = explore(lambda: evaluate(cls, exprs, fn, env))
            except NotLayout as ex:
                raise AnalysisError("%s.bit_length_set: %s" % (cls.short, ex))
            for assumptions, gots in runs:
                want = under(assumptions, want_f)
                for got in gots:
                    ctx.count()
                    if got != want:
                        kinds = [e for e, _ in assumptions]
                        if kinds and not all(mentions_only_min_max(e) or e[0] == "aligned" for e in kinds):
                            raise AnalysisError("%s: the layout is conditional on %s, which this analysis cannot relate to alignment" % (cls.short, [show_term(e) for e in kinds]))
                        bad.append({"operands": label, "assuming": ["%s is %s" % (show_term(e), v) for e, v in assumptions], "found": repr(got), "expected": repr(want)})
        ctx.check(not bad, cls.short + ".bit_length_set", " | ".join(norm(e)[:90] for e in exprs), "the layout must be the Specification's for every combination of abstract operands", fn.where(), bad[:3])

    from ..absint import Recorder
    from ..codec import isa_of
    from . import c05 as M
    from .c15 import _prop

    def compare_built(cls: ClassInfo, cases: List[Tuple[Any, Any, str]], what: str) -> None:
        """cases: (thunk building the instance, specification thunk, label): the instance's bit_length_set is read through
        the public property and compared with the Specification's term along every abstract branch"""
        bad = []
        for build, want_f, label in cases:
            def run() -> Any:
                o = build()
                if isinstance(o, str):
                    raise AnalysisError("%s over abstract operands (%s) raised %s" % (cls.name, label, o))
                v = _prop(ctx, o, "bit_length_set")
                if isinstance(v, int) and not isinstance(v, bool):
                    v = TBls.of(v)
                if not isinstance(v, TBls):
                    raise AnalysisError("%s.bit_length_set over %s is not a bit length set: %r" % (cls.short, label, v))
                return v
            try:
                runs = explore(run)
            except NotLayout as ex:
                raise AnalysisError("%s.bit_length_set: %s" % (cls.short, ex))
            for assumptions, got in runs:
                want = under(assumptions, want_f)
                ctx.count()
                if got != want:
                    kinds = [e for e, _ in assumptions]
                    if kinds and not all(mentions_only_min_max(e) or e[0] == "aligned" for e in kinds):
                        raise AnalysisError("%s: the layout is conditional on %s, which this analysis cannot relate to alignment" % (cls.short, [show_term(e) for e in kinds]))
                    bad.append({"operands": label, "assuming": ["%s is %s" % (show_term(e), v) for e, v in assumptions], "found": repr(got), "expected": repr(want)})
        pr = repo.lookup_method(cls, "bit_length_set")
        ctx.check(not bad, cls.short + ".bit_length_set", what, "the layout must be the Specification's for every combination of abstract operands", pr.where() if pr else cls.module.relpath, bad[:3])

    def E(a: int) -> Sym:
        return Sym(bit_length_set=TBls.var("E", a), alignment_requirement=a, _isa_=isa_of(ctx, SER + "_primitive.UnsignedIntegerType"), _kind_="UnsignedIntegerType", _check_aggregation=Recorder("_check_aggregation", None), extent=64)

    # primitives and void
    SAT, TRU = "CastMode.SATURATED", "CastMode.TRUNCATED"
    for short, mk in (("_primitive.UnsignedIntegerType", lambda w: (w, TRU)), ("_primitive.SignedIntegerType", lambda w: (w, SAT)), ("_void.VoidType", lambda w: (w,))):
        c = ctx.cls(SER + short)
        compare_built(c, [((lambda c=c, w=w, mk=mk: M._construct_outcome(ctx, c, *mk(w))), (lambda w=w: TBls.of(w)), "width %d" % w) for w in (2, 7, 8, 33, 64)], "a %s of n bits takes n bits" % c.name)
    fl = ctx.cls(SER + "_primitive.FloatType")
    compare_built(fl, [((lambda w=w: M._construct_outcome(ctx, fl, w, SAT)), (lambda w=w: TBls.of(w)), "width %d" % w) for w in spec.FLOAT_BITS], "a float of n bits takes n bits")
    # arrays
    fa = ctx.cls(SER + "_array.FixedLengthArrayType")
    va = ctx.cls(SER + "_array.VariableLengthArrayType")
    cases_f, cases_v, stored = [], [], []
    for a in (1, 8):
        for cap in (1, 2, 7, 255, 256, 65535, 65536, 2**32 - 1, 2**32):
            et = E(a)
            w = _std_width(cap)
            cases_f.append(((lambda et=et, cap=cap: M._construct_outcome(ctx, fa, et, cap)), (lambda et=et, cap=cap: et.bit_length_set.repeat(cap)), "capacity %d, element alignment %d" % (cap, a)))
            cases_v.append(((lambda et=et, cap=cap: M._construct_outcome(ctx, va, et, cap)), (lambda et=et, cap=cap, w=w: max(w, a) + et.bit_length_set.repeat_range(cap)), "capacity %d, element alignment %d" % (cap, a)))
    compare_built(fa, cases_f, "element set repeated capacity times")
    compare_built(va, cases_v, "length prefix + element set repeated 0..capacity times")
    for c in (fa, va):
        et = E(8)
        o = M._construct_outcome(ctx, c, et, 37)
        good = not isinstance(o, str) and _prop(ctx, o, "element_type") is et and _prop(ctx, o, "capacity") == 37
        ctx.check(good, c.short, "element_type / capacity are what was given", "constructor parameters are reported unchanged", c.module.relpath, nontrivial=False)
    # aggregation functions
    st = ctx.cls(SER + "_composite.StructureType")
    un = ctx.cls(SER + "_composite.UnionType")
    for c, specf, what in ((st, spec_structure, "structure layout: each field is preceded by padding to its own alignment and followed by its own length set, in order"), (un, spec_union, "union layout: tag followed by the union of the variants' length sets (no tag for fewer than two variants)")):
        fn = repo.lookup_method(c, "aggregate_bit_length_sets")
        if fn is None:
            raise AnalysisError("anchor %s.aggregate_bit_length_sets missing" % c.name)
        bad = []
        for ts in _field_type_grids():
            try:
                runs = explore(lambda: aggregate_term(ctx, fn, ts))
            except (Unfoldable, Raised, NotLayout) as ex:
                raise AnalysisError("%s: cannot evaluate over %d abstract fields: %s" % (fn.short, len(ts), ex))
            for assumptions, got in runs:
                want = under(assumptions, lambda: specf(ts))
                ctx.count()
                if got != want:
                    kinds = [e for e, _ in assumptions]
                    if kinds and not all(mentions_only_min_max(e) or e[0] == "aligned" for e in kinds):
                        raise AnalysisError("%s: the layout is conditional on %s, which this analysis cannot relate to alignment" % (fn.short, [show_term(e) for e in kinds]))
                    bad.append({"field alignments": [t.alignment_requirement for t in ts], "assuming": ["%s is %s" % (show_term(e), v) for e, v in assumptions], "found": repr(got), "expected": repr(want), "note": "a condition over the minimum and maximum of a set does not determine whether all its elements are aligned" if any(mentions_only_min_max(e) for e in kinds) else ""})
        ctx.check(not bad, fn.short, "%s aggregation over 0..3 abstract fields" % c.name, what, fn.where(), bad[:3])
    # composites: aggregation of the data types of the fields, padded to the composite's alignment
    FIELD_ISA = isa_of(ctx, SER + "_attribute.Field")
    for c, specf in ((st, spec_structure), (un, spec_union)):
        cases = []
        for ts in _field_type_grids():
            if c is un and len(ts) < 2:
                continue
            for t in ts:
                t.__dict__.setdefault("_check_aggregation", Recorder("_check_aggregation", None))
                t.__dict__.setdefault("_isa_", isa_of(ctx, SER + "_primitive.UnsignedIntegerType"))
            fields = [Sym(data_type=t, name="f%d" % i, _isa_=FIELD_ISA, _kind_="Field", doc="") for i, t in enumerate(ts)]
            al = max([8] + [t.alignment_requirement for t in ts])
            cases.append(((lambda c=c, fields=fields: M.structure(ctx, attributes=fields, kind=c.name)), (lambda ts=ts, al=al, specf=specf: specf(ts).pad_to_alignment(al)), "field alignments %s" % [t.alignment_requirement for t in ts]))
        compare_built(c, cases, "aggregation of the field types, padded to the composite's alignment")
    # delimited
    d = ctx.cls(SER + "_composite.DelimitedType")
    inner = M.structure(ctx)
    if isinstance(inner, str):
        raise AnalysisError("an empty structure cannot be constructed over abstract arguments: %s" % inner)
    compare_built(d, [((lambda ext=ext: M.build_model(ctx, SER + "_composite.DelimitedType", inner=inner, extent=ext)), (lambda ext=ext: spec.DELIMITER_HEADER_BITS + TBls.of(8).repeat_range(ext // 8)), "extent %d" % ext) for ext in (0, 8, 64, 72, 2040)], "header + 0..extent/8 bytes, whatever the inner type is")
    o = M.build_model(ctx, SER + "_composite.DelimitedType", inner=inner, extent=72)
    ctx.check(not isinstance(o, str) and _prop(ctx, o, "inner_type") is inner and _prop(ctx, o, "extent") == 72, d.short, "inner_type / extent are what was given", "constructor parameters are reported unchanged", d.module.relpath, nontrivial=False)
    # subclasses that would silently change a layout
    for base in ("_primitive.PrimitiveType", "_array.ArrayType"):
        b = ctx.cls(SER + base)
        for sub in repo.subclasses(b, strict=True):
            if "bit_length_set" in sub.methods and sub.name not in ("FixedLengthArrayType", "VariableLengthArrayType"):
                ctx.fail(sub.short + ".bit_length_set", "override", "unexpected layout override", where=sub.module.relpath)
    ctx.sample({"rule": "C02.R5", "structure over [T0(1), T1(8)]": repr(spec_structure(_field_type_grids()[4])), "union over [T0, T1]": repr(spec_union(_field_type_grids()[4]))})


def rule_r6_extent(ctx: Ctx) -> None:
    from . import c05 as M
    from .c15 import _prop

    ctx.rule("C02.R6", "extent: a sealed composite's extent is its longest representation; a delimited composite's extent is the declared one (guards: C05.R7)", min_instances=2)
    comp = ctx.cls(SER + "_composite.CompositeType")
    d = ctx.cls(SER + "_composite.DelimitedType")
    bad = []
    for kind in ("StructureType", "UnionType"):
        for widths in ((8, 24), (16, 16), (8, 8, 40)):
            o = M.structure(ctx, attributes=[M.attribute_sym(ctx, "Field", "f%d" % i, bits=w) for i, w in enumerate(widths)], kind=kind)
            if isinstance(o, str):
                raise AnalysisError("%s over fields of %s bits raised %s" % (kind, widths, o))
            ext, bls = _prop(ctx, o, "extent"), _prop(ctx, o, "bit_length_set")
            ctx.count()
            if ext != getattr(bls, "max", None) or not isinstance(ext, int):
                bad.append({"type": kind, "field widths": widths, "extent": repr(ext), "bit_length_set": repr(bls)})
    ctx.check(not bad, comp.short + ".extent", "extent == bit_length_set.max for structures and unions", "extent of a sealed composite = its longest representation", comp.module.relpath, bad[:3])
    inner = M.structure(ctx, attributes=[M.attribute_sym(ctx, "Field", "x", bits=8)])
    bad = []
    for x in (8, 16, 4096):
        o = M.build_model(ctx, SER + "_composite.DelimitedType", inner=inner, extent=x)
        ctx.count()
        if isinstance(o, str) or _prop(ctx, o, "extent") != x:
            bad.append({"declared": x, "found": o if isinstance(o, str) else _prop(ctx, o, "extent")})
    ctx.check(not bad, d.short + ".extent", "declared extent", "extent of a delimited composite = declared extent", d.module.relpath, bad)


def rule_r7_keys(ctx: Ctx) -> None:
    from . import approx_keys

    ctx.rule("C02.R7", "the layout definitions and everything they reach (constructors, bit_length_set / alignment / extent, the aggregators, the BitLengthSet compositions) identify no length set / type by its approximate equality (no de-duplication, dict key, set member or memo keyed by BitLengthSet / SerializableType equality)", min_instances=1)
    approx_keys.rule(ctx, "C02.R7", ["_serializable"], "two different length sets (or two types with different layouts) may compare equal: a variant / field dropped or looked up by equality changes the set of possible lengths", "pydsdl/_serializable/_composite.py", roots=["__init__", "bit_length_set", "alignment_requirement", "extent", "aggregate_bit_length_sets", "inner_type", "length_field_type", "tag_field_type", "delimiter_header_type"], min_reached=40)


def rule_r8_concrete(ctx: Ctx) -> None:
    """R5 compares the layout *definitions* over abstract operands; this rule builds concrete nested types through the real
    constructors and the real length-set algebra (all evaluated from the source) and asks them everything - twice, and in an
    order in which containers are expanded before what they contain: a type shared by several containers must answer the
    Specification's values however often and in whatever order its containers have been inspected."""
    import itertools as _it

    from ..absint import APath, Raised, construct, ctor_hook, module_call_hook, path_hook
    from ..fold import Folder, Unfoldable
    from .c01 import _quiet_hook
    from .c11 import _version

    ctx.rule("C02.R8", "concrete nested types (arrays of composites, unions and structures sharing a nested type, delimited types), built by evaluation of the constructors: bit_length_set (min, max, expansion, residues), alignment_requirement and extent equal the Specification's values on every pass, whatever was inspected before [bounded grid, evaluated from the source]", min_instances=1)
    prim = ctx.cls(SER + "_primitive.PrimitiveType")

    def hook_for(c: Any) -> Any:
        return path_hook(ctor_hook(ctx, module_call_hook(ctx, c.module, [], [], results={"check_name": None}, record=["check_name"], base_hook=_quiet_hook)))

    def mk(label: str, short: str, *a: Any, **k: Any) -> Any:
        c = ctx.cls(SER + short)
        try:
            return construct(ctx, c, *a, hook=hook_for(c), **k)
        except Raised as r:
            raise AnalysisError("%s cannot be constructed: %s" % (label, r.cls_name))
        except Unfoldable as ex:
            raise AnalysisError("%s cannot be constructed over the rule's arguments: %s" % (label, ex))

    try:
        TRU = Folder({}, ctx.repo, prim.module, prim).fold(ast.parse("PrimitiveType.CastMode.TRUNCATED", mode="eval").body)
    except Unfoldable as ex:
        raise AnalysisError("the cast modes cannot be evaluated: %s" % ex)

    def pad(xs: Any, a: int) -> frozenset:
        return frozenset(-(-x // a) * a for x in xs)

    def rep(xs: Any, k: int) -> frozenset:
        return frozenset(sum(c) for c in _it.combinations_with_replacement(sorted(xs), k))

    def prefix(cap: int) -> int:
        return next(w for w in (8, 16, 32, 64) if cap < 2**w)

    # (label, object, Specification set, alignment, extent)
    world: List[Tuple[str, Any, frozenset, int, Optional[int]]] = []
    serial = [0]

    def uint(n: int) -> Tuple[Any, frozenset, int]:
        return mk("uint%d" % n, "_primitive.UnsignedIntegerType", n, TRU), frozenset({n}), 1

    def struct(label: str, fields: List[Tuple[Any, frozenset, int]], union: bool = False) -> Tuple[Any, frozenset, int]:
        serial[0] += 1
        attrs = [mk("field", "_attribute.Field", t, "f%d" % i) for i, (t, _, _) in enumerate(fields)]
        o = mk(label, "_composite.UnionType" if union else "_composite.StructureType", name="ns.T%d" % serial[0], version=_version(1, 0), attributes=attrs, deprecated=False, fixed_port_id=None, source_file_path=APath("/r/ns/T%d.1.0.dsdl" % serial[0]), has_parent_service=False, doc="")
        if union:
            tag = prefix(len(fields) - 1)
            sp = pad(frozenset(tag + x for _, xs, _ in fields for x in xs), 8)
        else:
            cur = frozenset({0})
            for _, xs, al in fields:
                cur = pad(cur, al)
                cur = frozenset(x + y for x in cur for y in xs)
            sp = pad(cur, 8)
        world.append((label, o, sp, 8, max(sp)))
        return o, sp, 8

    def farr(label: str, el: Tuple[Any, frozenset, int], n: int) -> Tuple[Any, frozenset, int]:
        o = mk(label, "_array.FixedLengthArrayType", el[0], n)
        sp = rep(el[1], n)
        world.append((label, o, sp, el[2], None))
        return o, sp, el[2]

    def varr(label: str, el: Tuple[Any, frozenset, int], cap: int) -> Tuple[Any, frozenset, int]:
        o = mk(label, "_array.VariableLengthArrayType", el[0], cap)
        body = frozenset(x for k in range(cap + 1) for x in rep(el[1], k))
        sp = frozenset(prefix(cap) + x for x in body)
        world.append((label, o, sp, el[2], None))
        return o, sp, el[2]

    def delim(label: str, inner: Tuple[Any, frozenset, int], extent: int) -> Tuple[Any, frozenset, int]:
        o = mk(label, "_composite.DelimitedType", inner[0], extent)
        sp = frozenset(32 + x for x in range(0, extent + 1, 8))
        world.append((label, o, sp, 8, extent))
        return o, sp, 8

    u8, u3, u64, u17 = uint(8), uint(3), uint(64), uint(17)
    b1 = (mk("bool", "_primitive.BooleanType"), frozenset({1}), 1)
    inner = struct("Inner {uint8[<=2]}", [varr("uint8[<=2]", u8, 2)])
    outer = struct("Outer union {Inner, uint64}", [inner, u64], union=True)
    user = struct("User {Inner, uint8}", [inner, u8])
    odd = struct("Odd {uint3, Inner, uint17, uint8[<=2]}", [u3, inner, u17, varr("uint8[<=2] (second)", u8, 2)])
    arr = farr("Inner[3]", inner, 3)
    varr("Outer[<=2]", outer, 2)
    both = struct("Both union {Inner[3], Outer, uint3}", [arr, outer, u3], union=True)
    dl = delim("delimited Inner, extent 64", inner, 64)
    struct("Holder {delimited Inner, Inner, uint3}", [dl, inner, u3])
    struct("Top {Both, User, Odd}", [both, user, odd])
    divisors = (3, 8, 16)

    def ask(obj: Any, what: str) -> Any:
        try:
            r = Folder({"x": obj}, ctx.repo, prim.module, None, hook_for(prim)).fold(ast.parse(what, mode="eval").body)
        except Raised as ex:
            return ("raised", ex.cls_name)
        except Unfoldable as ex:
            raise AnalysisError("%s cannot be evaluated on a constructed type: %s" % (what, ex))
        return frozenset(r) if isinstance(r, (set, frozenset, list)) else r

    bad: List[Dict[str, Any]] = []
    n = 0
    orders = [("outermost first, twice", list(reversed(world)) * 2), ("innermost first", list(world))]
    for order_name, seq in orders:
        for label, obj, sp, al, ext in seq:
            want = {"x.bit_length_set.min": min(sp), "x.bit_length_set.max": max(sp), "set(x.bit_length_set)": sp, "x.alignment_requirement": al, "len(x.bit_length_set)": len(sp), "x.bit_length_set.fixed_length": len(sp) == 1}
            if ext is not None:
                want["x.extent"] = ext
            for d in divisors:
                want["set(x.bit_length_set %% %d)" % d] = frozenset(v % d for v in sp)
            for q, w in want.items():
                got = ask(obj, q)
                n += 1
                if got != w and len(bad) < 6:
                    bad.append({"type": label, "query": q, "order": order_name, "found": sorted(got) if isinstance(got, frozenset) else got, "Specification": sorted(w) if isinstance(w, frozenset) else w})
    # lengths beyond 2**53 bits (capacities up to 2**56 elements): only the analytic answers can be asked; the reference keeps
    # (min, max) through the same layout rules in exact integer arithmetic
    def padv(x: int, a: int) -> int:
        return -(-x // a) * a

    bigs: List[Dict[str, Any]] = []
    for cap, el_bits in ((2**56, 8), (2**53 + 1, 8), (2**50 + 3, 24)):
        el = uint(el_bits)
        arr = mk("uint%d[<=%d]" % (el_bits, cap), "_array.VariableLengthArrayType", el[0], cap)
        a_min, a_max = prefix(cap), prefix(cap) + el_bits * cap
        f1, f2, f3 = mk("field", "_attribute.Field", u3[0], "c"), mk("field", "_attribute.Field", arr, "a"), mk("field", "_attribute.Field", u17[0], "d")
        serial[0] += 1
        st_big = mk("structure", "_composite.StructureType", name="ns.Big%d" % serial[0], version=_version(1, 0), attributes=[f1, f2, f3], deprecated=False, fixed_port_id=None, source_file_path=APath("/r/ns/Big%d.1.0.dsdl" % serial[0]), has_parent_service=False, doc="")
        # {uint3 c; uint[<=cap] a; uint17 d}: array alignment is the element's (1), so no padding before it; final padding to 8
        s_min, s_max = padv(3 + a_min + 17, 8), padv(3 + a_max + 17, 8)
        bigs.append({"label": "uint%d[<=%d]" % (el_bits, cap), "obj": arr, "min": a_min, "max": a_max, "extent": None})
        bigs.append({"label": "{uint3; uint%d[<=%d]; uint17}" % (el_bits, cap), "obj": st_big, "min": s_min, "max": s_max, "extent": s_max})
        serial[0] += 1
        inner_big = st_big
        outer = mk("structure", "_composite.StructureType", name="ns.Big%d" % serial[0], version=_version(1, 0), attributes=[mk("field", "_attribute.Field", b1[0], "k"), mk("field", "_attribute.Field", inner_big, "s"), mk("field", "_attribute.Field", b1[0], "t")], deprecated=False, fixed_port_id=None, source_file_path=APath("/r/ns/Big%d.1.0.dsdl" % serial[0]), has_parent_service=False, doc="")
        o_min, o_max = padv(padv(1, 8) + s_min + 1, 8), padv(padv(1, 8) + s_max + 1, 8)
        bigs.append({"label": "{bool; {uint3; uint%d[<=%d]; uint17}; bool}" % (el_bits, cap), "obj": outer, "min": o_min, "max": o_max, "extent": o_max})
    for bg in bigs:
        want_b = {"x.bit_length_set.min": bg["min"], "x.bit_length_set.max": bg["max"], "x.bit_length_set.is_aligned_at(8)": bg["extent"] is not None or None}
        if bg["extent"] is not None:
            want_b["x.extent"] = bg["extent"]
        for q, w in want_b.items():
            if w is None:
                continue
            got = ask(bg["obj"], q)
            n += 1
            if got != w and len(bad) < 6:
                bad.append({"type": bg["label"], "query": q, "found": got, "Specification": w})
    ctx.count(n)
    ctx.check(not bad, "_serializable.* x _bit_length_set", "%d concrete types x %d queries x 3 passes; %d types longer than 2**53 bits (analytic queries)" % (len(world), 7 + len(divisors), len(bigs)), "every type's layout is the Specification's, before and after the types around it have been inspected", "pydsdl/_serializable", bad[:4])


def run(ctx: Ctx) -> None:
    ctx.attempt(rule_r1_prefix, ctx)
    ctx.attempt(rule_r2_tag, ctx)
    ctx.attempt(rule_r3_header, ctx)
    ctx.attempt(rule_r4_alignment, ctx)
    ctx.attempt(rule_r5_terms, ctx)
    ctx.attempt(rule_r6_extent, ctx)
    ctx.attempt(rule_r7_keys, ctx)
    ctx.attempt(rule_r8_concrete, ctx)
    from . import layouttext

    ctx.attempt(layouttext.rule_c02_r9, ctx)
    ctx.attempt(layouttext.rule_c02_r10, ctx)
    ctx.assume("reachable alignments are {1, 8} (R4); capacities < 2**64")
    ctx.undecided("that every element of every set is a multiple of the alignment as a *set* fact, and the exactness of the bit-length-set arithmetic itself (C01)")
    ctx.analysed["modules"] = ["_serializable/_primitive", "_void", "_array", "_composite"]
