"""
C02 -- Every type's layout (lengths, alignment, extent, prefixes) is the Specification.

R1  array length-prefix width folded for every capacity class (both sides of 2**8 / 2**16 / 2**32 / 2**64).
R2  union tag width folded for every variant-count class.
R3  delimiter header width.
R4  alignment definitions (primitive/void 1, array = element's, composite = max(8, fields) = 8 on the reachable domain).
R5  layout terms: each bit_length_set definition, as a term of the bit-length-set algebra, equals the Specification's.
R6  extent definitions (sealed: longest representation; delimited: declared).
"""
from __future__ import annotations

import ast
from typing import Any, Dict, List, Optional, Tuple

from .. import spec_tables as spec
from ..core import AnalysisError, ClassInfo, Ctx, FuncInfo, body_without_docstring, dotted, norm, unparse, walk_no_nested
from ..decide import PathEnumerator, paths_of, substitute
from ..fold import Folder, Unfoldable
from ..layout import NotLayout, bls_term, term_str
from ..regions import flatten_init, inline_properties, trivial_property_expr
from .c05 import enum_hook

SER = "_serializable."


def _cap_domain() -> List[int]:
    out = {1, 2, 3}
    for b in range(1, 65):
        for v in (2**b - 1, 2**b, 2**b + 1):
            if 1 <= v < 2**64:
                out.add(v)
    return sorted(out)


def rule_r1_prefix(ctx: Ctx) -> None:
    repo = ctx.repo
    ctx.rule("C02.R1", "implicit array length prefix: smallest of 8/16/32/64 bits able to hold the capacity, truncated unsigned", min_instances=2)
    c = ctx.cls(SER + "_array.VariableLengthArrayType")
    stmts, chain = flatten_init(repo, c)
    paths = [p for p in PathEnumerator().run(stmts) if p.kind == "fall"]
    if not paths:
        raise AnalysisError("VariableLengthArrayType.__init__: no completing path")
    init = chain[0]
    exprs = set()
    call_nodes = []
    for p in paths:
        v = p.env.get("self._length_field_type")
        if v is None:
            # find whichever attribute the accessor returns
            acc = trivial_property_expr(repo, c, "length_field_type")
            if acc is None or dotted(acc) is None or dotted(acc) not in p.env:
                raise AnalysisError("VariableLengthArrayType: cannot find the stored length field type")
            v = p.env[dotted(acc)]  # type: ignore
        if not (isinstance(v, ast.Call) and len(v.args) == 2):
            raise AnalysisError("length field type is not constructed in place: %s" % norm(v))
        exprs.add(norm(v))
        call_nodes.append(v)
    if len(exprs) != 1:
        raise AnalysisError("length field type differs between paths")
    call = call_nodes[0]
    k = repo.resolve_expr(init.module, call.func, c)
    width_expr, cm_expr = call.args
    bad = []
    dom = _cap_domain()
    for cap in dom:
        for al in (1, 8):
            f = Folder({"capacity": cap, "element_type.alignment_requirement": al, "self.alignment_requirement": al}, repo, init.module, c, enum_hook(ctx, init.module, c))
            try:
                w = f.fold(width_expr)
            except Unfoldable as ex:
                raise AnalysisError("cannot fold the prefix width %s: %s" % (norm(width_expr), ex))
            ctx.count()
            want = spec.smallest_standard_width(cap)
            if w != want:
                bad.append({"capacity": cap, "element_alignment": al, "found": w, "expected": want})
    ctx.check(not bad, init.short, "length prefix width", "prefix width must be the smallest of 8/16/32/64 holding the capacity (%d capacities x 2 alignments)" % len(dom), init.where(), bad[:6])
    cm = Folder({}, repo, init.module, c, enum_hook(ctx, init.module, c)).fold(cm_expr)
    ctx.check(isinstance(k, ClassInfo) and k.name == "UnsignedIntegerType" and cm == "CastMode.TRUNCATED", init.short, "length prefix type", "the prefix is a truncated unsigned integer", init.where(), {"class": getattr(k, "name", None), "cast_mode": cm})
    ctx.sample({"rule": "C02.R1", "expr": norm(width_expr)[:200], "rows": {str(x): spec.smallest_standard_width(x) for x in (255, 256, 65535, 65536)}})


def rule_r2_tag(ctx: Ctx) -> None:
    repo = ctx.repo
    ctx.rule("C02.R2", "union tag: smallest of 8/16/32/64 bits able to hold the largest variant index, truncated unsigned, computed over the variants", min_instances=2)
    u = ctx.cls(SER + "_composite.UnionType")
    fn = u.methods.get("_compute_tag_bit_length")
    if fn is None:
        raise AnalysisError("anchor UnionType._compute_tag_bit_length missing")
    param = fn.params[0]
    rets = [p for p in paths_of(fn.node) if p.kind == "return"]
    if len(rets) != 1:
        raise AnalysisError("_compute_tag_bit_length: expected one return")
    expr = rets[0].value
    bad = []
    ns = sorted({2, 3, 4} | {v for j in range(1, 33) for v in (2**j - 1, 2**j, 2**j + 1)})
    for n in ns:
        for al in (1, 8):

            def hook(e: ast.expr, f: Folder) -> Any:
                if isinstance(e, ast.Call) and dotted(e.func) == "len" and norm(e.args[0]) == param:
                    return n
                if isinstance(e, ast.ListComp) and len(e.generators) == 1 and norm(e.generators[0].iter) == param and not e.generators[0].ifs:
                    tgt = norm(e.generators[0].target)
                    if norm(e.elt) == "%s.alignment_requirement" % tgt:
                        return [al, 1]
                    raise Unfoldable("comprehension over the variants: %s" % norm(e))
                return NotImplemented

            try:
                w = Folder({}, repo, fn.module, u, hook).fold(expr)
            except Unfoldable as ex:
                raise AnalysisError("cannot fold the tag width: %s" % ex)
            ctx.count()
            want = spec.smallest_standard_width(n - 1)
            if w != want:
                bad.append({"variants": n, "alignment": al, "found": w, "expected": want})
    ctx.check(not bad, fn.short, "tag width", "tag width must be the smallest of 8/16/32/64 holding index n-1 (%d variant counts)" % len(ns), fn.where(), bad[:6])
    # the stored tag type
    init = u.methods["__init__"]
    stores = [s for s in walk_no_nested(init.node) if isinstance(s, ast.Assign) and dotted(s.targets[0]) == "self._tag_field_type"]
    acc = trivial_property_expr(repo, u, "tag_field_type")
    good = len(stores) == 1 and acc is not None and norm(acc) == "self._tag_field_type"
    detail = None
    if good:
        v = stores[0].value
        k = repo.resolve_expr(init.module, v.func, u) if isinstance(v, ast.Call) else None
        good = isinstance(v, ast.Call) and isinstance(k, ClassInfo) and k.name == "UnsignedIntegerType" and len(v.args) == 2
        if good:
            a0 = v.args[0]
            cm = Folder({}, repo, init.module, u, enum_hook(ctx, init.module, u)).fold(v.args[1])
            good = cm == "CastMode.TRUNCATED" and isinstance(a0, ast.Call) and norm(a0.func) in ("self._compute_tag_bit_length", "UnionType._compute_tag_bit_length") and norm(a0.args[0]) in ("[x.data_type for x in self.fields]", "[f.data_type for f in self.fields]")
            detail = norm(v)
    ctx.check(good, init.short, "tag field type", "the tag is a truncated unsigned integer whose width is computed over the types of all variants", init.where(), detail)


def rule_r3_header(ctx: Ctx) -> None:
    repo = ctx.repo
    ctx.rule("C02.R3", "delimiter header is a 32-bit truncated unsigned integer")
    d = ctx.cls(SER + "_composite.DelimitedType")
    init = d.methods.get("__init__")
    if init is None:
        raise AnalysisError("DelimitedType.__init__ missing")
    paths = [p for p in paths_of(init.node) if p.kind == "fall"]
    vals = set()
    for p in paths:
        v = p.env.get("self._delimiter_header_type")
        if not (isinstance(v, ast.Call) and len(v.args) == 2):
            raise AnalysisError("delimiter header type not constructed in place")
        k = repo.resolve_expr(init.module, v.func, d)
        f = Folder({"self.alignment_requirement": 8}, repo, init.module, d, enum_hook(ctx, init.module, d))
        try:
            vals.add((getattr(k, "name", None), f.fold(v.args[0]), f.fold(v.args[1])))
        except Unfoldable as ex:
            raise AnalysisError("cannot fold the delimiter header width: %s" % ex)
        ctx.count()
    ctx.check(vals == {("UnsignedIntegerType", spec.DELIMITER_HEADER_BITS, "CastMode.TRUNCATED")}, init.short, "delimiter header type", "the delimiter header must be uint32 (truncated)", init.where(), sorted(map(str, vals)))
    acc = trivial_property_expr(repo, d, "delimiter_header_type")
    ctx.check(acc is not None and norm(acc) == "self._delimiter_header_type", d.short + ".delimiter_header_type", norm(acc) if acc is not None else "?", "accessor returns the stored header type", d.module.relpath, nontrivial=False)


def rule_r4_alignment(ctx: Ctx) -> None:
    repo = ctx.repo
    ctx.rule("C02.R4", "alignment_requirement: primitives/void 1; arrays = element's; composites max(8, field alignments) (= 8 on the reachable domain {1, 8})", min_instances=4)
    for cname in ("_primitive.PrimitiveType", "_void.VoidType"):
        k = ctx.cls(SER + cname)
        e = trivial_property_expr(repo, k, "alignment_requirement")
        v = None
        if e is not None:
            try:
                v = Folder({}, repo, k.module, k).fold(e)
            except Unfoldable:
                v = None
        ctx.check(v == 1, k.short + ".alignment_requirement", norm(e) if e is not None else "?", "primitives and voids need no alignment", k.module.relpath, v)
        for sub in repo.subclasses(k, strict=True):
            if "alignment_requirement" in sub.methods:
                ctx.fail(sub.short + ".alignment_requirement", "override", "a primitive subclass overrides the alignment", where=sub.module.relpath)
    arr = ctx.cls(SER + "_array.ArrayType")
    e = trivial_property_expr(repo, arr, "alignment_requirement")
    ctx.check(e is not None and norm(inline_properties(repo, arr, e)) in ("self._element_type.alignment_requirement",), arr.short + ".alignment_requirement", norm(e) if e is not None else "?", "an array is aligned as its element", arr.module.relpath)
    for sub in repo.subclasses(arr, strict=True):
        if "alignment_requirement" in sub.methods:
            ctx.fail(sub.short + ".alignment_requirement", "override", "an array subclass overrides the alignment", where=sub.module.relpath)
    comp = ctx.cls(SER + "_composite.CompositeType")
    e = trivial_property_expr(repo, comp, "alignment_requirement")
    if e is None:
        raise AnalysisError("CompositeType.alignment_requirement is not a single expression")
    bad = []
    for fields in ([], [1], [8], [1, 1], [1, 8], [8, 8, 1]):

        def hook(x: ast.expr, f: Folder) -> Any:
            if isinstance(x, ast.ListComp) and len(x.generators) == 1 and norm(x.generators[0].iter) in ("self.fields", "self.attributes") and not x.generators[0].ifs:
                tgt = norm(x.generators[0].target)
                if norm(x.elt) == "%s.data_type.alignment_requirement" % tgt:
                    return list(fields)
                raise Unfoldable(norm(x))
            if isinstance(x, ast.GeneratorExp):
                raise Unfoldable(norm(x))
            return NotImplemented

        try:
            v = Folder({}, repo, comp.module, comp, hook).fold(e)
        except Unfoldable as ex:
            raise AnalysisError("cannot fold CompositeType.alignment_requirement: %s" % ex)
        ctx.count()
        if v != max([8] + fields):
            bad.append({"field_alignments": fields, "found": v})
    ctx.check(not bad, comp.short + ".alignment_requirement", norm(e), "a composite is aligned to max(8, alignments of its fields)", comp.module.relpath, bad)
    for sub in repo.subclasses(comp, strict=True):
        if "alignment_requirement" in sub.methods:
            ctx.fail(sub.short + ".alignment_requirement", "override", "a composite subclass overrides the alignment", where=sub.module.relpath)


# ---------------------------------------------------------------------------------------------------- R5
SPEC_BLS = {
    "_array.FixedLengthArrayType": "self.element_type.bit_length_set.repeat(self.capacity)",
    "_array.VariableLengthArrayType": "self.length_field_type.bit_length + self.element_type.bit_length_set.repeat_range(self.capacity)",
    "_composite.StructureType": "self.aggregate_bit_length_sets([f.data_type for f in self.fields]).pad_to_alignment(self.alignment_requirement)",
    "_composite.UnionType": "self.aggregate_bit_length_sets([f.data_type for f in self.fields]).pad_to_alignment(self.alignment_requirement)",
    "_composite.DelimitedType": "self.delimiter_header_type.bit_length + BitLengthSet(self.alignment_requirement).repeat_range(self.extent // self.alignment_requirement)",
    "_primitive.PrimitiveType": "BitLengthSet(self.bit_length)",
    "_void.VoidType": "BitLengthSet(self.bit_length)",
}


def _canon_term(repo: Any, cls: ClassInfo, e: ast.AST) -> Any:
    e2 = inline_properties(repo, cls, e)
    return bls_term(e2)


def definition_term(ctx: Ctx, cls: ClassInfo) -> Tuple[Any, FuncInfo, ast.AST]:
    """The term of cls.bit_length_set: the property's expression, or the single store to the attribute it returns."""
    repo = ctx.repo
    prop = repo.lookup_method(cls, "bit_length_set")
    if prop is None:
        raise AnalysisError("%s.bit_length_set missing" % cls.qualname)
    e = trivial_property_expr(repo, cls, "bit_length_set")
    if e is None:
        raise AnalysisError("%s.bit_length_set is not a single expression" % cls.qualname)
    d = dotted(e)
    if d is not None and d.startswith("self._"):
        init = cls.methods.get("__init__")
        if init is None:
            raise AnalysisError("%s stores its layout but has no constructor" % cls.qualname)
        stores = [s for s in walk_no_nested(init.node) if isinstance(s, ast.Assign) and any(dotted(t) == d for t in s.targets)]
        others = [f for f in cls.methods.values() if f is not init and any(isinstance(s, (ast.Assign, ast.AugAssign)) and any(dotted(t) == d for t in (s.targets if isinstance(s, ast.Assign) else [s.target])) for s in ast.walk(f.node))]
        if len(stores) != 1 or others:
            raise AnalysisError("%s: expected exactly one store to %s (found %d, other writers %s)" % (cls.qualname, d, len(stores), [o.name for o in others]))
        return _canon_term(repo, cls, stores[0].value), init, stores[0]
    return _canon_term(repo, cls, e), prop, e


def rule_r5_terms(ctx: Ctx) -> None:
    repo = ctx.repo
    ctx.rule("C02.R5", "layout terms of every bit_length_set definition (primitive, void, fixed/variable array, structure, union, delimited) and of the two aggregation helpers equal the Specification's", min_instances=9)
    for short, spec_expr in SPEC_BLS.items():
        c = ctx.cls(SER + short)
        try:
            got, fn, node = definition_term(ctx, c)
            want = _canon_term(repo, c, ast.parse(spec_expr, mode="eval").body)
        except NotLayout as ex:
            ctx.fail(c.short + ".bit_length_set", "layout term", "the layout definition is not an expression of the bit-length-set algebra: %s" % ex, where=c.module.relpath)
            continue
        ctx.check(got == want, c.short + ".bit_length_set", term_str(got), "layout must be " + term_str(want), fn.where(node), {"expected": term_str(want)})
        ctx.count()
    # subclasses that would silently change a layout
    for base in ("_primitive.PrimitiveType", "_array.ArrayType"):
        b = ctx.cls(SER + base)
        for sub in repo.subclasses(b, strict=True):
            if "bit_length_set" in sub.methods and sub.name not in ("FixedLengthArrayType", "VariableLengthArrayType"):
                ctx.fail(sub.short + ".bit_length_set", "override", "unexpected layout override", where=sub.module.relpath)
    ctx.sample({"rule": "C02.R5", "VariableLengthArrayType": SPEC_BLS["_array.VariableLengthArrayType"]})

    # structure aggregation: fold over the fields with per-field padding
    st = ctx.cls(SER + "_composite.StructureType")
    fn = st.methods.get("aggregate_bit_length_sets")
    if fn is None:
        raise AnalysisError("anchor StructureType.aggregate_bit_length_sets missing")
    ft = fn.params[0]
    body = body_without_docstring(fn.node)
    acc: Optional[str] = None
    init_t = loop = step_t = ret = None
    try:
        for s in body:
            if isinstance(s, ast.Assign) and isinstance(s.targets[0], ast.Name) and acc is None:
                acc = s.targets[0].id
                init_t = bls_term(s.value)
            elif isinstance(s, ast.For) and acc is not None and len(s.body) == 1 and isinstance(s.body[0], ast.Assign) and norm(s.body[0].targets[0]) == acc and not s.orelse:
                loop = (norm(s.target), norm(s.iter))
                step_t = bls_term(s.body[0].value, lambda n: n == acc)
            elif isinstance(s, ast.Return):
                ret = norm(s.value)
            elif isinstance(s, (ast.Assert, ast.Expr)):
                continue
            else:
                raise NotLayout("statement %s" % norm(s))
    except NotLayout as ex:
        ctx.fail(fn.short, "structure aggregation", "not a recognisable fold over the fields: %s" % ex, where=fn.where())
        loop = None
    if loop is not None and acc is not None:
        t = loop[0]
        want_step = ("cat", ("pad", ("var", acc), "%s.alignment_requirement" % t), ("bls", t))
        form1 = init_t == ("ite", "len(%s) > 0" % ft, ("bls", "%s[0]" % ft), ("leaf", "0")) and loop[1] == "%s[1:]" % ft
        form2 = init_t == ("leaf", "0") and loop[1] == ft
        good = (form1 or form2) and step_t == want_step and ret == acc
        ctx.check(good, fn.short, "init=%s; for %s in %s: %s" % (term_str(init_t), loop[0], loop[1], term_str(step_t)), "structure layout: each field is preceded by padding to its own alignment and followed by its own length set, in order", fn.where(), {"expected_step": term_str(want_step)})
    elif loop is None and acc is not None:
        ctx.fail(fn.short, "structure aggregation", "no loop over the fields found", where=fn.where())

    # union aggregation
    un = ctx.cls(SER + "_composite.UnionType")
    fn = un.methods.get("aggregate_bit_length_sets")
    if fn is None:
        raise AnalysisError("anchor UnionType.aggregate_bit_length_sets missing")
    ft = fn.params[0]
    paths = paths_of(fn.node)
    bad = []
    for n in (0, 1, 2, 3, 300):

        def hook(e: ast.expr, f: Folder) -> Any:
            if isinstance(e, ast.Call) and dotted(e.func) == "len":
                a = e.args[0]
                if norm(a) == ft:
                    return n
                if isinstance(a, ast.ListComp) and len(a.generators) == 1 and norm(a.generators[0].iter) == ft and not a.generators[0].ifs:
                    return n
                raise Unfoldable(norm(e))
            return NotImplemented

        taken = []
        for p in paths:
            okp = True
            for c, pol in p.conds:
                if isinstance(c, tuple):
                    if c[0] == "assert":
                        continue
                    raise AnalysisError("UnionType.aggregate_bit_length_sets: unexpected marker %s" % c[0])
                try:
                    v = bool(Folder({}, repo, fn.module, un, hook).fold(c))
                except Unfoldable as ex:
                    raise AnalysisError("UnionType.aggregate_bit_length_sets: cannot fold %s: %s" % (norm(c), ex))
                if v != pol:
                    okp = False
                    break
            if okp:
                taken.append(p)
        ctx.count()
        if len(taken) != 1 or taken[0].kind != "return":
            raise AnalysisError("UnionType.aggregate_bit_length_sets: %d feasible paths for n=%d" % (len(taken), n))
        listcomp = "[x.bit_length_set for x in %s]" % ft
        try:
            got = bls_term(taken[0].value, lambda nm: nm in (listcomp + "[]",))
        except NotLayout as ex:
            bad.append({"n": n, "not_layout": str(ex)})
            continue
        if n == 0:
            want: Any = ("leaf", "0")
        elif n == 1:
            want = ("elem", listcomp, "0")
        else:
            want = ("cat", ("leaf", "UnionType._compute_tag_bit_length(%s)" % ft), ("uni", listcomp))
        if got != want and not (n >= 2 and got == ("cat", ("leaf", "%s._compute_tag_bit_length(%s)" % ("UnionType", ft)), ("uni", listcomp))):
            bad.append({"n": n, "found": term_str(got), "expected": term_str(want)})
    ctx.check(not bad, fn.short, "union aggregation", "union layout: tag followed by the union of the variants' length sets (no tag for fewer than two variants)", fn.where(), bad)

    # stored parameters feed the terms: element type, capacity, extent
    for short, stores in (("_array.ArrayType", {"self._element_type": "element_type", "self._capacity": "int(capacity)"}), ("_composite.DelimitedType", {"self._extent": "int(extent)", "self._inner": "inner"})):
        c = ctx.cls(SER + short)
        init = c.methods["__init__"]
        for attr, want_src in stores.items():
            ss = [s for s in walk_no_nested(init.node) if isinstance(s, ast.Assign) and any(dotted(t) == attr for t in s.targets)]
            good = len(ss) == 1 and norm(ss[0].value) in (want_src, want_src.replace("int(", "").rstrip(")"))
            ctx.check(good, init.short, "%s <- %s" % (attr, norm(ss[0].value) if ss else "?"), "constructor parameter stored unchanged", init.where(), nontrivial=False)


def rule_r6_extent(ctx: Ctx) -> None:
    repo = ctx.repo
    ctx.rule("C02.R6", "extent: a sealed composite's extent is its longest representation; a delimited composite's extent is the declared one (guards: C05.R7)", min_instances=2)
    comp = ctx.cls(SER + "_composite.CompositeType")
    e = trivial_property_expr(repo, comp, "extent")
    ctx.check(e is not None and norm(e) == "self.bit_length_set.max", comp.short + ".extent", norm(e) if e is not None else "?", "extent of a sealed composite = bit_length_set.max", comp.module.relpath)
    d = ctx.cls(SER + "_composite.DelimitedType")
    e = trivial_property_expr(repo, d, "extent")
    ctx.check(e is not None and norm(inline_properties(repo, d, e)) == "self._extent", d.short + ".extent", norm(e) if e is not None else "?", "extent of a delimited composite = declared extent", d.module.relpath)
    for sub in repo.subclasses(comp, strict=True):
        if "extent" in sub.methods and sub is not d:
            ctx.fail(sub.short + ".extent", "override", "unexpected extent override", where=sub.module.relpath)


def run(ctx: Ctx) -> None:
    rule_r1_prefix(ctx)
    rule_r2_tag(ctx)
    rule_r3_header(ctx)
    rule_r4_alignment(ctx)
    rule_r5_terms(ctx)
    rule_r6_extent(ctx)
    ctx.assume("reachable alignments are {1, 8} (R4); capacities < 2**64")
    ctx.undecided("that every element of every set is a multiple of the alignment as a *set* fact, and the exactness of the bit-length-set arithmetic itself (C01)")
    ctx.analysed["modules"] = ["_serializable/_primitive", "_void", "_array", "_composite"]
