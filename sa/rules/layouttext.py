"""
Layout, text level: definitions are read end to end by the repository's front end (evaluated from the source) and the layout
of the resulting types is compared with rules/layoutref.py, a reference written from the Specification.

C02.R9  small types of every kind, nested: alignment, the exact set of serialized lengths, extent
C08.R7  `_offset_` printed after every field of structures and after the last variant of unions; `T._bit_length_` and
        `T._extent_` of other types: equal to the reference's prefix lengths / the API's answers
C16.R8  types with capacities up to 2**63 and extents up to 2**50: read without any collection that grows with a capacity
        being walked (the checker's evaluator refuses to walk more than 100000 elements and says so), with the bounds,
        extent and alignment of the reference
"""
from __future__ import annotations

from fractions import Fraction
from typing import Any, Dict, List, Optional, Tuple

from ..core import AnalysisError, Ctx
from . import exprref as X
from .c03text import ROOT, TextRun, front_end, job_for
from .layoutref import Reference

# name -> (kind, [(field name or "" for padding, type spelling in the text, canonical type text)], extent or None)
SMALL: Dict[str, Tuple[str, List[Tuple[str, str, str]], Optional[int]]] = {
    "Inner": ("struct", [("p", "uint8", "saturated uint8"), ("q", "uint8[<=3]", "saturated uint8[<=3]")], None),
    "Odd": ("struct", [("a", "uint3", "saturated uint3"), ("b", "bool", "bool"), ("c", "int5", "saturated int5")], None),
    "V": ("union", [("k", "uint8", "saturated uint8"), ("i", "Inner.1.0", "ns.Inner.1.0"), ("w", "uint16[<=2]", "saturated uint16[<=2]")], None),
    "D": ("struct", [("a", "uint8", "saturated uint8")], 64),
    "Big": ("struct", [("x", "uint3", "saturated uint3"), ("", "void5", "void5"), ("one", "Inner.1.0", "ns.Inner.1.0"), ("y", "uint7", "saturated uint7"), ("two", "Inner.1.0[2]", "ns.Inner.1.0[2]"), ("v", "V.1.0", "ns.V.1.0"), ("d", "D.1.0", "ns.D.1.0"), ("odds", "Odd.1.0[<=2]", "ns.Odd.1.0[<=2]"), ("last", "bool", "bool"), ("f", "float32", "saturated float32"), ("bytes", "byte[3]", "byte[3]"), ("s", "utf8[<=4]", "utf8[<=4]"), ("", "void1", "void1"), ("wide", "truncated uint64", "truncated uint64")], None),
    "DBig": ("struct", [("one", "Inner.1.0", "ns.Inner.1.0"), ("bits", "bool[<=9]", "bool[<=9]"), ("ds", "D.1.0[<=2]", "ns.D.1.0[<=2]"), ("t", "int2", "saturated int2")], 1024),
    "U2": ("union", [("o", "Odd.1.0", "ns.Odd.1.0"), ("d", "D.1.0", "ns.D.1.0"), ("z", "uint64", "saturated uint64"), ("bits", "bool[<=9]", "bool[<=9]"), ("e", "DBig.1.0", "ns.DBig.1.0")], None),
    "Arr": ("struct", [("a", "uint5[<=255]", "saturated uint5[<=255]"), ("b", "uint5[<=256]", "saturated uint5[<=256]"), ("c", "bool[65535]", "bool[65535]"), ("d", "Odd.1.0[<=3]", "ns.Odd.1.0[<=3]")], None),
    "Empty": ("struct", [], None),
    "EmptyD": ("struct", [], 0),
}
HUGE: Dict[str, Tuple[str, List[Tuple[str, str, str]], Optional[int]]] = {
    "Inner": SMALL["Inner"],
    "D": SMALL["D"],
    "H1": ("struct", [("a", "uint8[<=2**40]", "saturated uint8[<=%d]" % 2**40), ("flag", "bool", "bool")], None),
    "H2": ("struct", [("xs", "Inner.1.0[<=2**32]", "ns.Inner.1.0[<=%d]" % 2**32), ("fixed", "uint16[2**33]", "saturated uint16[%d]" % 2**33), ("t", "uint3", "saturated uint3")], 2**44),
    "H3": ("union", [("a", "uint8[<=2**63 - 1]", "saturated uint8[<=%d]" % (2**63 - 1)), ("b", "H1.1.0", "ns.H1.1.0"), ("c", "bool", "bool")], None),
    "H4": ("struct", [("h", "H1.1.0[<=2**20]", "ns.H1.1.0[<=%d]" % 2**20), ("ds", "D.1.0[2**36]", "ns.D.1.0[%d]" % 2**36), ("u", "H3.1.0", "ns.H3.1.0"), ("x", "float64", "saturated float64")], None),
    "H5": ("struct", [("bits", "bool[<=2**50 + 1]", "bool[<=%d]" % (2**50 + 1)), ("w", "uint7[2**53 + 1]", "saturated uint7[%d]" % (2**53 + 1))], 2**62),
    "H6": ("struct", [("n", "H5.1.0[<=3]", "ns.H5.1.0[<=3]"), ("m", "H2.1.0", "ns.H2.1.0"), ("k", "int64[<=2**31]", "saturated int64[<=%d]" % 2**31)], None),
}


def text_of(name: str, spec: Tuple[str, List[Tuple[str, str, str]], Optional[int]], offsets: bool) -> str:
    kind, fields, extent = spec
    lines = ["@union"] if kind == "union" else []
    for nm, spelling, _ in fields:
        lines.append(spelling if not nm else "%s %s" % (spelling, nm))
        if offsets and kind == "struct":
            lines.append("@print _offset_")
    if offsets and kind == "union":
        lines.append("@print _offset_")
    lines.append("@sealed" if extent is None else "@extent %d" % extent)
    return "\n".join(lines) + "\n"


def reference_for(corpus: Dict[str, Any]) -> Reference:
    return Reference({"ns.%s.1.0" % n: {"kind": k, "fields": [c for _, _, c in fs], "extent": e} for n, (k, fs, e) in corpus.items()})


def _set_of(printed: Any) -> Optional[frozenset]:
    try:
        v = X.value_of(printed)
    except Exception:
        return None
    if v[0] != "Set":
        return None
    out = set()
    for k, x in v[1]:
        if k != "Rational" or x.denominator != 1:
            return None
        out.add(int(x))
    return frozenset(out)


def rule_c02_r9(ctx: Ctx) -> None:
    ctx.rule("C02.R9", "definitions of small types of every kind, nested (structures with paddings, unions, delimited types, fixed and variable arrays of primitives and composites, byte / utf8, empty composites), read end to end by the evaluated front end: alignment, the exact set of serialized lengths and the extent equal the Specification's (rules/layoutref.py)", min_instances=len(SMALL))
    fe = front_end(ctx)
    ref = reference_for(SMALL)
    j = job_for({"%s.1.0.dsdl" % n: text_of(n, s, False) for n, s in SMALL.items()})
    j["expand"] = True
    out = fe.read_many([j])[0]
    ctx.count(len(SMALL))
    where = "pydsdl/_serializable/_composite.py"
    if out["raised"] is not None:
        ctx.fail("read_namespace over the layout corpus", "accepted", "valid definitions are rejected: %s at %s:%s" % (out["raised"], out["path"], out["line"]), where=where)
        return
    run = TextRun(out)
    for n in SMALL:
        d = run.by_name.get(("ns." + n, (1, 0)))
        L = ref.of("ns.%s.1.0" % n)
        bad = []
        if d is None:
            bad.append("no such type in the result")
        elif "layout" in d:
            raise AnalysisError("the layout of ns.%s.1.0 cannot be asked of the model: %s" % (n, d["layout"]))
        else:
            if d.get("alignment") != L.align:
                bad.append("alignment %r, Specification %d" % (d.get("alignment"), L.align))
            if (d.get("min"), d.get("max")) != (L.lo, L.hi):
                bad.append("length bounds (%r, %r), Specification (%d, %d)" % (d.get("min"), d.get("max"), L.lo, L.hi))
            if d.get("extent") != L.extent:
                bad.append("extent %r, Specification %d" % (d.get("extent"), L.extent))
            if L.lengths is not None and "lengths" in d and frozenset(d["lengths"]) != L.lengths:
                extra, missing = sorted(set(d["lengths"]) - L.lengths)[:6], sorted(L.lengths - set(d["lengths"]))[:6]
                bad.append("length set: %s not in the Specification's, %s missing" % (extra, missing))
            if L.lengths is not None and "lengths" not in d and L.hi - L.lo <= 4096:
                bad.append("the length set could not be asked")
        ctx.check(not bad, "layout of ns.%s.1.0" % n, "%s of %d fields" % (SMALL[n][0], len(SMALL[n][1])), "the layout of a type read from text is not the Specification's: %s" % "; ".join(bad), where, {"text": text_of(n, SMALL[n], False), "differences": bad})


def _set_text(s_: Any) -> str:
    return "{" + ", ".join(str(x) for x in sorted(s_)) + "}"


def text_with_assertions(name: str, spec: Tuple[str, List[Tuple[str, str, str]], Optional[int]], ref: Reference) -> Tuple[str, Dict[int, str]]:
    """the definition with `@assert _offset_ == <the Specification's set>` after every field (structures) / after the last
    variant (unions); returns the text and, per line of an assertion, what it is about"""
    kind, fields, extent = spec
    lines = ["@union"] if kind == "union" else []
    about: Dict[int, str] = {}
    want = ref.offsets("ns.%s.1.0" % name) if fields else []

    def claim(lo: int, hi: int, s_: Any) -> str:
        if s_ is not None and len(s_) <= 300:
            return "@assert _offset_ == %s" % _set_text(s_)
        return "@assert _offset_.min == %d && _offset_.max == %d" % (lo, hi)

    for i, (nm, spelling, _) in enumerate(fields):
        lines.append(spelling if not nm else "%s %s" % (spelling, nm))
        if kind == "struct":
            lines.append(claim(*want[i]))
            about[len(lines)] = "after %s" % (nm or spelling)
    if kind == "union" and fields:
        lines.append(claim(*want[0]))
        about[len(lines)] = "after the last variant"
    lines.append("@sealed" if extent is None else "@extent %d" % extent)
    return "\n".join(lines) + "\n", about


# (the big arrays and the long structure make `_offset_` expand sets of hundreds of lengths at every point - milliseconds for
# Python, minutes for the checker's evaluator: they are left to C02.R9; the structure keeps one field of every kind)
OFFSETS = {n: s for n, s in SMALL.items() if n not in ("Arr", "U2")}
OFFSETS["Big"] = ("struct", [f for f in SMALL["Big"][1] if f[0] in ("x", "", "one", "y", "v", "d", "last", "f", "bytes")][:9], None)


def rule_c08_r7(ctx: Ctx) -> None:
    ctx.rule("C08.R7", "`@assert _offset_ == <the Specification's set of positions>` after every field of structures (paddings, nested composites, arrays, delimited members) and after the last variant of unions, and `T._bit_length_` / `T._extent_` against the reference for every type of the corpus, read end to end by the evaluated front end: every assertion holds", min_instances=len(OFFSETS))
    fe = front_end(ctx)
    SM = OFFSETS
    ref = reference_for(dict(SMALL, **OFFSETS))
    where = "pydsdl/_data_schema_builder.py"
    deps = {"%s.1.0.dsdl" % n: text_of(n, s, False) for n, s in SM.items()}
    def closure(n_: str, seen: Optional[set] = None) -> set:
        seen = seen if seen is not None else set()
        for _, _, canon in SM[n_][1]:
            for m_ in SM:
                if "ns.%s.1.0" % m_ in canon and m_ not in seen:
                    seen.add(m_)
                    closure(m_, seen)
        return seen

    jobs, labels = [], []
    for n, spec in SM.items():
        text, about = text_with_assertions(n, spec, ref)
        files = {"%s.1.0.dsdl" % m_: deps["%s.1.0.dsdl" % m_] for m_ in closure(n)}  # (only what the definition refers to)
        files["%s.1.0.dsdl" % n] = text
        jobs.append(job_for(files))
        labels.append((n, text, about))
    # the intrinsics of every type, asked from another definition
    zq_lines, zq_about = [], {}
    for n in SM:
        L = ref.of("ns.%s.1.0" % n)
        if L.lengths is not None and len(L.lengths) <= 300:
            zq_lines.append("@assert ns.%s.1.0._bit_length_ == %s" % (n, _set_text(L.lengths)))
            zq_about[len(zq_lines)] = "ns.%s.1.0._bit_length_" % n
        zq_lines.append("@assert ns.%s.1.0._extent_ == %d" % (n, L.extent))
        zq_about[len(zq_lines)] = "ns.%s.1.0._extent_" % n
    files = dict(deps)
    files["Zq.1.0.dsdl"] = "\n".join(zq_lines) + "\n@sealed\n"
    jobs.append(job_for(files))
    # first everything in one namespace (one evaluation); only if an assertion fails there, definition by definition
    all_files = {"%s.1.0.dsdl" % n: text for n, text, _ in labels}
    all_files["Zq.1.0.dsdl"] = files["Zq.1.0.dsdl"]
    together = fe.read_many([job_for(all_files)])[0]
    ctx.count(sum(len(s[1]) for s in SM.values()) + len(zq_lines))
    if together["raised"] is None:
        for n, text, about in labels:
            ctx.ok("_offset_ in ns.%s.1.0" % n, "%d points" % len(about), where=where)
        ctx.ok("T._bit_length_ / T._extent_", "%d assertions" % len(zq_lines), where="pydsdl/_serializable/_serializable.py")
        return
    outs = fe.read_many(jobs)
    for (n, text, about), o in zip(labels, outs):
        bad = None
        if o["raised"] is not None:
            what = about.get(o["line"], "line %s" % o["line"]) if str(o["path"]).endswith("/%s.1.0.dsdl" % n) else "%s:%s" % (o["path"], o["line"])
            bad = "%s: `_offset_` %s is not the Specification's set of positions (%s)" % (o["raised"], what, text.split("\n")[o["line"] - 1] if isinstance(o["line"], int) and 0 < o["line"] <= text.count("\n") else "")
        ctx.check(bad is None, "_offset_ in ns.%s.1.0" % n, "%d points" % len(about), bad or "", where, {"text": text})
    o = outs[-1]
    bad = None
    if o["raised"] is not None:
        bad = "%s: %s does not agree with the type's length set / extent" % (o["raised"], zq_about.get(o["line"], "line %s of %s" % (o["line"], o["path"])))
    ctx.check(bad is None, "T._bit_length_ / T._extent_", "%d assertions" % len(zq_lines), bad or "", "pydsdl/_serializable/_serializable.py", {"text": files["Zq.1.0.dsdl"]})


def _huge_run(ctx: Ctx) -> Tuple[Dict[str, str], Dict[str, Any], Reference]:
    hit = getattr(ctx, "_huge_run", None)
    if hit is None:
        fe = front_end(ctx)
        ref = reference_for(HUGE)
        files = {"%s.1.0.dsdl" % n: text_of(n, s, False) for n, s in HUGE.items()}
        # the extent of every huge type asked from another definition (a symbolic query: the maximum of the length set)
        files["Zq.1.0.dsdl"] = "".join("@assert ns.%s.1.0._extent_ == %d\n" % (n, ref.of("ns.%s.1.0" % n).extent) for n in HUGE) + "uint8 a\n@assert _offset_ == {8}\n@sealed\n"
        out = fe.read_many([job_for(files)])[0]
        ctx.count(len(HUGE))
        hit = (files, out, ref)
        ctx._huge_run = hit  # type: ignore
    return hit


def rule_c16_r8(ctx: Ctx) -> None:
    ctx.rule("C16.R8", "definitions with capacities up to 2**63 - 1, nested variable-length composites and extents up to 2**62, read end to end by the evaluated front end (and every type asked for its extent from another definition): no collection whose size follows a capacity or an extent is walked - the checker's evaluator refuses to walk more than 100000 elements / to run more than its step limit, and reports it", min_instances=1)
    files, out, ref = _huge_run(ctx)
    where = "pydsdl/_bit_length_set/_symbolic.py"
    ctx.check(not out.get("too_large"), "read_namespace over types with huge capacities", "%d definitions, capacities up to 2**63" % len(HUGE), "reading walks a collection that grows with a capacity or an extent: %s" % out.get("too_large"), where, files if out.get("too_large") else None)
    if not out.get("too_large") and out["raised"] is not None:
        # rejected for another reason (what the layouts *are* is C02.R10's business): the cost clause is decided as far as
        # the reading got
        ctx.analysed["C16.R8.note"] = "the corpus was rejected (%s at %s:%s) before all of it was read" % (out["raised"], out["path"], out["line"])


def rule_c02_r10(ctx: Ctx) -> None:
    ctx.rule("C02.R10", "the types of C16.R8's corpus (capacities up to 2**63 - 1, lengths beyond 2**53 and 2**64): bounds of the serialized length, extent and alignment are the Specification's, computed exactly", min_instances=len(HUGE))
    files, out, ref = _huge_run(ctx)
    where = "pydsdl/_bit_length_set/_symbolic.py"
    if out.get("too_large"):
        raise AnalysisError("the huge types cannot be read symbolically (%s): decided by C16.R8" % out["too_large"])
    if out["raised"] is not None:
        ctx.fail("read_namespace over types with huge capacities", "accepted", "valid definitions (whose assertions hold by the reference) are rejected: %s at %s:%s" % (out["raised"], out["path"], out["line"]), where=where, detail=files)
        return
    if out.get("digest_error"):
        raise AnalysisError("the models of the huge types cannot be described: %s" % out["digest_error"])
    run = TextRun(out)
    for n in HUGE:
        d = run.by_name.get(("ns." + n, (1, 0)))
        L = ref.of("ns.%s.1.0" % n)
        bad = []
        if d is None:
            bad.append("no such type in the result")
        else:
            if "layout" in d:
                raise AnalysisError("the layout of ns.%s.1.0 cannot be asked of the model: %s" % (n, d["layout"]))
            if d.get("alignment") != L.align:
                bad.append("alignment %r, Specification %d" % (d.get("alignment"), L.align))
            if (d.get("min"), d.get("max")) != (L.lo, L.hi):
                bad.append("length bounds (%r, %r), Specification (%d, %d)" % (d.get("min"), d.get("max"), L.lo, L.hi))
            if d.get("extent") != L.extent:
                bad.append("extent %r, Specification %d" % (d.get("extent"), L.extent))
        ctx.check(not bad, "layout of ns.%s.1.0" % n, "capacities up to 2**63", "; ".join(bad), where, {"text": files["%s.1.0.dsdl" % n], "differences": bad})
