"""
Shared by C01 / C02 / C06 / C07 / C08 / C14: values whose equality is *coarser than identity of meaning* used as look-up keys.

`BitLengthSet.__eq__` compares min, max and the residues modulo a fixed small number (and `__hash__` is (min, max)): two
different sets may compare equal.  `SerializableType.__eq__` compares the kind, the normalised string form (name and
version for composites) and that approximate length set: two revisions of a composite, or two composites whose nested
types differ, may compare equal.  Both are fine for what they are used for (reporting that two things look alike), but any
container or memo that *identifies* such a value by `==` / `hash` - a dict key, a set member, `dict.fromkeys`, an
`lru_cache` argument, `x in seen` - hands out the answer computed for a different value.  The rule finds every such site in
the modules that compute layouts and encodings:

  * a subscript / `.get` / `.setdefault` / `.pop` on a dict, `.add` / `.discard` / `.remove` on a set, `x in c`, a set or dict
    display / comprehension, whose key expression has one of those types (annotation-seeded type inference, E2);
  * `set(it)`, `frozenset(it)`, `dict.fromkeys(it)` over an iterable whose element type is one of them;
  * a function wrapped in `functools.lru_cache` / `cache` (decorator or call) with a parameter - `self` included - of such a
    type, or, in a module where every function works on such values, any such wrapper.

Exemptions are one named function each, with the reason.
"""
from __future__ import annotations

import ast
from typing import Any, Dict, Iterable, List, Optional, Sequence, Set, Tuple

from ..callgraph import Types
from ..core import ClassInfo, Ctx, FuncInfo, dotted, norm

MEMO_DECORATORS = ("lru_cache", "cache", "cached", "memoize", "memoized")

EXEMPT: Dict[str, str] = {
    "_namespace_reader._read_definitions": "the sets `direct` / `transitive` hold the composites of one read: distinct definitions of one read differ in full name or version (a duplicate is rejected before), which the string form compares exactly",
}


def approx_classes(ctx: Ctx) -> Set[ClassInfo]:
    repo = ctx.repo
    out: Set[ClassInfo] = set()
    out.add(ctx.cls("_bit_length_set._bit_length_set.BitLengthSet"))
    st = ctx.cls("_serializable._serializable.SerializableType")
    out |= set(repo.subclasses(st))
    return out


def _is(ty: Any, approx: Set[ClassInfo]) -> bool:
    return bool(ty) and any(c in approx for c in ty.classes)


def _elem_is(ty: Any, approx: Set[ClassInfo]) -> bool:
    return bool(ty) and ty.elem is not None and _is(ty.elem, approx)


def reachable_from(ctx: Ctx, root_names: Sequence[str], root_module_prefixes: Sequence[str]) -> Set[str]:
    """qualified names of the functions the call graph reaches from every function / method with one of the given names
    defined in the given modules (dynamic dispatch over-approximated: all overriding subclasses)"""
    from ..callgraph import CallGraph

    g = getattr(ctx, "_approx_key_graph", None)
    if g is None:
        g = ctx._approx_key_graph = CallGraph(ctx.repo)  # type: ignore
    roots = []
    for fn in ctx.repo.all_functions().values():
        short_mod = fn.module.name[len("pydsdl."):] if fn.module.name.startswith("pydsdl.") else fn.module.name
        if fn.name in root_names and any(short_mod == p or short_mod.startswith(p) for p in root_module_prefixes):
            roots.append(fn.qualname)
    return set(g.reachable(roots))


def sites(ctx: Ctx, module_prefixes: Sequence[str], only: Optional[Set[str]] = None) -> Tuple[List[Dict[str, Any]], int]:
    """(findings, number of functions scanned) over the modules whose short name starts with one of the prefixes; with
    `only`, restricted to the functions with those qualified names (and what is nested in them)"""
    repo = ctx.repo
    cache = getattr(ctx, "_approx_key_cache", None)
    if cache is None:
        cache = ctx._approx_key_cache = {}  # type: ignore
    approx = approx_classes(ctx)
    T = Types(repo)
    found: List[Dict[str, Any]] = []
    scanned = 0
    for fn in repo.all_functions().values():
        short_mod = fn.module.name[len("pydsdl."):] if fn.module.name.startswith("pydsdl.") else fn.module.name
        if not any(short_mod == p or short_mod.startswith(p) for p in module_prefixes):
            continue
        if fn.short in EXEMPT:
            continue
        if only is not None:
            top = fn
            while top.parent is not None:
                top = top.parent
            if top.qualname not in only:
                continue
        scanned += 1
        if fn.short in cache:
            found.extend(cache[fn.short])
            continue
        mine: List[Dict[str, Any]] = []
        try:
            loc = T.locals_of(fn)
        except Exception:
            loc = {}
        # memo wrappers keyed by argument equality
        for d in fn.node.decorator_list:
            name = (dotted(d.func) if isinstance(d, ast.Call) else dotted(d)) or ""
            if name.split(".")[-1] in MEMO_DECORATORS:
                params = [a.arg for a in fn.node.args.posonlyargs + fn.node.args.args + fn.node.args.kwonlyargs]
                keyed = [p for p in params if _is(loc.get(p), approx) or _elem_is(loc.get(p), approx)]
                if keyed or fn.cls in approx:
                    mine.append({"function": fn.short, "where": fn.where(), "construct": "@%s" % name, "kind": "memo keyed by the equality of %s" % ", ".join(keyed or ["self"])})
        for n in ast.walk(fn.node):
            keys: List[ast.AST] = []
            elems: List[ast.AST] = []
            if isinstance(n, ast.Subscript) and not isinstance(n.slice, ast.Slice):
                keys.append(n.slice)
            elif isinstance(n, ast.Compare) and any(isinstance(o, (ast.In, ast.NotIn)) for o in n.ops):
                keys.append(n.left)
            elif isinstance(n, ast.Call):
                nm = dotted(n.func) or ""
                if isinstance(n.func, ast.Attribute) and n.func.attr in ("get", "setdefault", "add", "discard", "remove", "pop", "index", "count") and n.args:
                    keys.append(n.args[0])
                if nm in ("set", "frozenset", "dict.fromkeys", "collections.Counter", "Counter", "collections.OrderedDict.fromkeys") and n.args:
                    elems.append(n.args[0])
                if nm.split(".")[-1] in MEMO_DECORATORS and n.args and not any(n is getattr(d, "func", d) or n is d for d in fn.node.decorator_list):
                    mine.append({"function": fn.short, "where": fn.where(n), "construct": norm(n)[:80], "kind": "memo wrapper applied by call"})
            elif isinstance(n, ast.Set):
                keys.extend(n.elts)
            elif isinstance(n, ast.SetComp):
                keys.append(n.elt)
            elif isinstance(n, ast.DictComp):
                keys.append(n.key)
            elif isinstance(n, ast.Dict):
                keys.extend(k for k in n.keys if k is not None)
            for k in keys:
                try:
                    ty = T.expr(fn, k, loc)
                except Exception:
                    ty = None
                if _is(ty, approx):
                    mine.append({"function": fn.short, "where": fn.where(n), "construct": norm(n)[:90], "kind": "key of type %s" % "/".join(sorted(c.name for c in ty.classes if c in approx))})
            for e in elems:
                try:
                    ty = T.expr(fn, e, loc)
                except Exception:
                    ty = None
                if _elem_is(ty, approx):
                    mine.append({"function": fn.short, "where": fn.where(n), "construct": norm(n)[:90], "kind": "elements of type %s hashed" % "/".join(sorted(c.name for c in ty.elem.classes if c in approx))})
        cache[fn.short] = mine
        found.extend(mine)
    # module-level memo wrappers (`f = functools.lru_cache(...)(g)`)
    for m in repo.modules.values() if only is None else []:
        short_mod = m.name[len("pydsdl."):] if m.name.startswith("pydsdl.") else m.name
        if not any(short_mod == p or short_mod.startswith(p) for p in module_prefixes):
            continue
        for st in m.tree.body:
            if isinstance(st, (ast.Assign, ast.AnnAssign, ast.Expr)):
                for n in ast.walk(st):
                    if isinstance(n, ast.Call) and (dotted(n.func) or "").split(".")[-1] in MEMO_DECORATORS:
                        found.append({"function": short_mod, "where": "%s:%d" % (m.relpath, n.lineno), "construct": norm(n)[:80], "kind": "module-level memo wrapper"})
    return found, scanned


def positive_control(ctx: Ctx) -> bool:
    """the scanner must flag a dict keyed by a BitLengthSet in a tiny embedded fragment (a rule whose expected count is zero)"""
    src = "def f(self, base: 'BitLengthSet'):\n    return self._memo[base]\n"
    fn_node = ast.parse(src).body[0]
    b = ctx.cls("_bit_length_set._bit_length_set.BitLengthSet")
    fi = FuncInfo(b.module, fn_node, b, None)  # type: ignore
    T = Types(ctx.repo)
    loc = T.locals_of(fi)
    sub = next(n for n in ast.walk(fn_node) if isinstance(n, ast.Subscript))
    return _is(T.expr(fi, sub.slice, loc), approx_classes(ctx))


def rule(ctx: Ctx, rid: str, module_prefixes: Sequence[str], message: str, anchor_where: str, roots: Optional[Sequence[str]] = None, min_reached: int = 0) -> None:
    """one instance per scanned module set; every finding is listed in the detail.  With `roots` (function / method names),
    only what the call graph reaches from the functions of that name in the given modules is scanned."""
    from ..core import AnalysisError

    if not positive_control(ctx):
        raise AnalysisError("%s: the positive control (a dict keyed by a BitLengthSet parameter) was not recognised" % rid)
    only = None
    if roots is not None:
        only = reachable_from(ctx, roots, module_prefixes)
        ctx.analysed[rid + ".reached_functions"] = len(only)
        if len(only) < min_reached:
            raise AnalysisError("%s: only %d functions reached from %s (expected at least %d): the anchors are gone" % (rid, len(only), list(roots), min_reached))
    found, scanned = sites(ctx, ["_bit_length_set", "_serializable", "_serdes", "_data_type_builder", "_expression"] if only is not None else module_prefixes, only)
    ctx.count(scanned)
    ctx.analysed[rid + ".functions_scanned"] = scanned
    where = found[0]["where"] if found else anchor_where
    key = "no container or memo identifies a length set / type by its approximate equality (%s)" % ", ".join(module_prefixes)
    ctx.check(not found, ", ".join(module_prefixes), key, message, where, found[:6])
