"""
C11 -- Port-ID and minor-version consistency rules hold for every set of definitions.

The checks touch definitions only through comparisons of a few accessors, so each decision is a function of finitely
many atoms; the extracted path conditions are compared with the Specification on all consistent valuations.
"""
from __future__ import annotations

import ast
import copy
from typing import Any, Dict, List, Optional, Sequence, Tuple

from ..core import AnalysisError, ClassInfo, Ctx, FuncInfo, body_without_docstring, calls_in, dotted, norm, unparse, walk_no_nested
from ..decide import A, Path, f_and, f_atoms, f_eval, f_not, f_or, path_formula, paths_of, to_formula, valuations
from ..regions import exc_class_of

IDE = "_error.InvalidDefinitionError"
NS = "_namespace"


class _DistributeIfExp(ast.NodeTransformer):
    """(X if C else Y).attr  ->  (X.attr if C else Y.attr)"""

    def visit_Attribute(self, n: ast.Attribute) -> ast.AST:
        n = self.generic_visit(n)  # type: ignore
        if isinstance(n.value, ast.IfExp):
            t = n.value
            return ast.IfExp(test=t.test, body=ast.Attribute(value=t.body, attr=n.attr, ctx=n.ctx), orelse=ast.Attribute(value=t.orelse, attr=n.attr, ctx=n.ctx))
        return n


def _canon_access(e: ast.AST) -> Optional[Tuple[str, str]]:
    """a.version.major / a.version[0] / b.full_name ... -> ('a', 'version.major')"""
    if isinstance(e, ast.Subscript) and isinstance(e.slice, ast.Constant) and norm(e.value).endswith(".version"):
        idx = e.slice.value
        base = _canon_access(e.value)
        if base and idx in (0, 1):
            return base[0], base[1] + (".major" if idx == 0 else ".minor")
    d = dotted(e)
    if d and "." in d:
        head, rest = d.split(".", 1)
        if head in ("a", "b"):
            return head, rest
    return None


class Atomizer:
    """Atoms over a pair (a, b) of composite types."""

    def __init__(self, ctx: Ctx, fn: FuncInfo):
        self.ctx = ctx
        self.fn = fn
        self.repo = ctx.repo

    def isinst(self, e: ast.AST) -> Optional[Tuple[str, str]]:
        if isinstance(e, ast.Call) and dotted(e.func) == "isinstance" and len(e.args) == 2 and isinstance(e.args[0], ast.Name) and e.args[0].id in ("a", "b"):
            k = self.repo.resolve_expr(self.fn.module, e.args[1], None)
            if isinstance(k, ClassInfo):
                return e.args[0].id, k.name
        return None

    def formula(self, e: Any) -> Any:
        return to_formula(e, self.atom)

    def atom(self, e: Any) -> Any:
        if isinstance(e, tuple):
            return A("M:%s" % e[0])
        if isinstance(e, ast.IfExp):
            c = self.formula(e.test)
            return f_or(f_and(c, self.formula(e.body)), f_and(f_not(c), self.formula(e.orelse)))
        ii = self.isinst(e)
        if ii is not None:
            who, k = ii
            if k == "ServiceType":
                return A("%s_SVC" % who.upper())
            if k == "DelimitedType":
                return f_not(A("%s_SEALED" % who.upper()))
            raise AnalysisError("isinstance against %s is outside the C11 abstraction" % k)
        acc = _canon_access(e)
        if acc is not None:
            who, path = acc
            if path == "has_fixed_port_id":
                return A("%s_HAS" % who.upper())
            if path == "fixed_port_id":
                # truthiness of an Optional[int]: present and non-zero (0 is a valid subject- and service-ID)
                return f_and(A("%s_HAS" % who.upper()), f_not(A("%s_FPID_ZERO" % who.upper())))
        if isinstance(e, ast.Compare) and len(e.ops) == 1:
            l, op, r = e.left, e.ops[0], e.comparators[0]
            la, ra = _canon_access(l), _canon_access(r)
            opn = type(op).__name__
            # accessor vs constant
            for acc_, const, flip in ((la, r, False), (ra, l, True)):
                if acc_ is not None and isinstance(const, ast.Constant):
                    who, path = acc_
                    o = opn if not flip else {"Lt": "Gt", "Gt": "Lt", "LtE": "GtE", "GtE": "LtE"}.get(opn, opn)
                    if path == "version.major" and isinstance(const.value, int):
                        v = const.value
                        # major is a non-negative integer: released <=> major > 0 <=> major >= 1 <=> major != 0
                        rel = A("%s_REL" % who.upper())
                        if (o, v) in (("Gt", 0), ("GtE", 1), ("NotEq", 0)):
                            return rel
                        if (o, v) in (("Eq", 0), ("Lt", 1), ("LtE", 0)):
                            return f_not(rel)
                        if (o, v) in (("GtE", 0), ("Gt", -1)):
                            return True  # tautology for a non-negative major
                        if (o, v) in (("Lt", 0), ("LtE", -1)):
                            return False
                    if path == "fixed_port_id" and const.value is None:
                        has = A("%s_HAS" % who.upper())
                        if o in ("IsNot", "NotEq"):
                            return has
                        if o in ("Is", "Eq"):
                            return f_not(has)
            # accessor vs accessor of the other side
            if la is not None and ra is not None and la[1] == ra[1] and {la[0], ra[0]} == {"a", "b"}:
                path = la[1]
                names = {"full_name": "NAME", "version.major": "MAJOR", "fixed_port_id": "FPID", "extent": "EXTENT", "has_fixed_port_id": None}
                if path in ("full_name", "version.major", "fixed_port_id", "extent", "version"):
                    base = A({"full_name": "NAME_NEQ", "version.major": "MAJOR_NEQ", "fixed_port_id": "FPID_NEQ", "extent": "EXTENT_NEQ", "version": "VERSION_NEQ"}[path])
                    if opn == "NotEq":
                        return base
                    if opn == "Eq":
                        return f_not(base)
                if path == "version.minor" and opn in ("Gt", "Lt", "GtE", "LtE"):
                    # minors of a compared pair differ (asserted by the callers' grouping), so >= is > here
                    a_newer = A("A_NEWER")
                    first_is_a = la[0] == "a"
                    gt = opn in ("Gt", "GtE")
                    return a_newer if (gt == first_is_a) else f_not(a_newer)
            # boolean (in)equality of two sub-formulas: xor / iff
            if opn in ("Eq", "NotEq"):
                try:
                    lf, rf = self.formula(l), self.formula(r)
                except AnalysisError:
                    lf = rf = None
                if lf is not None and rf is not None and not isinstance(l, ast.Constant) and not isinstance(r, ast.Constant):
                    iff = f_or(f_and(lf, rf), f_and(f_not(lf), f_not(rf)))
                    return iff if opn == "Eq" else f_not(iff)
            if opn in ("Is", "IsNot") and isinstance(l, ast.Name) and isinstance(r, ast.Name) and {l.id, r.id} == {"a", "b"}:
                same = A("SAME_OBJECT")
                return same if opn == "Is" else f_not(same)
        raise AnalysisError("%s: condition outside the C11 abstraction: %s" % (self.fn.qualname, norm(e)))


ZERO_ATOMS = ["A_FPID_ZERO", "B_FPID_ZERO"]


def _zero_consistent(v: Dict[str, bool]) -> bool:
    """x_FPID_ZERO (port-ID == 0; appears only when the code tests a port-ID's truthiness) versus HAS / FPID_NEQ"""
    az, bz = v.get("A_FPID_ZERO", False), v.get("B_FPID_ZERO", False)
    if (az and not v["A_HAS"]) or (bz and not v["B_HAS"]):
        return False
    if az and bz and v["FPID_NEQ"]:
        return False
    if v["A_HAS"] and v["B_HAS"] and az != bz and not v["FPID_NEQ"]:
        return False
    return True


def _exc_name(ctx: Ctx, fn: FuncInfo, p: Path) -> Tuple[str, bool]:
    k = exc_class_of(ctx.repo, fn.module, fn.cls, p.value)
    if isinstance(k, ClassInfo):
        return k.name, ctx.repo.is_subclass(k, IDE)
    return unparse(p.value), False


def _pair_loops(fn: FuncInfo, p: Path) -> List[Tuple[str, str]]:
    return [(c[1], norm(c[2])) for c, pol in p.conds if isinstance(c, tuple) and c[0] == "for" and pol]


def rule_r1(ctx: Ctx) -> None:
    ctx.rule("C11.R1", "fixed port-ID collision: error <=> SAME_KIND & A_HAS & B_HAS & FPID_EQ & (NAME_NEQ | (MAJOR_NEQ & A_REL & B_REL)), over all pairs of the argument", min_instances=2)
    fn = ctx.func(NS + "._ensure_no_fixed_port_id_collisions")
    param = fn.params[0]
    body = [_DistributeIfExp().visit(copy.deepcopy(s)) for s in body_without_docstring(fn.node)]
    from ..decide import PathEnumerator

    paths = PathEnumerator().run(body)
    at = Atomizer(ctx, fn)
    raises = [p for p in paths if p.kind == "raise"]
    if not raises:
        ctx.fail(fn.short, "collision raise", "the collision check no longer raises", where=fn.where())
        return
    # iteration: both loop variables range over the whole argument
    loops_ok = True
    for p in raises:
        loops = _pair_loops(fn, p)
        if sorted(v for v, _ in loops) != ["a", "b"] or any(it != param for _, it in loops):
            loops_ok = False
    ctx.check(loops_ok, fn.short, "all pairs of the argument", "every ordered pair (a, b) of the given types must be compared", fn.where(), [_pair_loops(fn, p) for p in raises])

    def err_formula() -> Any:
        fs = []
        for p in raises:
            fs.append(path_formula(p, lambda e: True if (isinstance(e, tuple) and e[0] == "for") else at.formula(e) if not isinstance(e, tuple) else at.atom(e)))
        return f_or(*fs)

    err = err_formula()
    atoms = ["NAME_NEQ", "MAJOR_NEQ", "A_SVC", "B_SVC", "A_REL", "B_REL", "A_HAS", "B_HAS", "FPID_NEQ"]
    atoms += [a for a in ZERO_ATOMS if a in f_atoms(err)]
    extra = [a for a in f_atoms(err) if a not in atoms]
    if extra:
        raise AnalysisError("%s: atoms outside the vocabulary: %s" % (fn.qualname, extra))

    def consistent(v: Dict[str, bool]) -> bool:
        if not v["A_HAS"] and not v["B_HAS"] and v["FPID_NEQ"]:
            return False
        if v["A_HAS"] != v["B_HAS"] and not v["FPID_NEQ"]:
            return False
        if v["MAJOR_NEQ"] and not v["A_REL"] and not v["B_REL"]:
            return False  # both majors are 0
        return _zero_consistent(v)

    bad = []
    n = 0
    for v in valuations(atoms, consistent):
        n += 1
        same_kind = v["A_SVC"] == v["B_SVC"]
        want = same_kind and v["A_HAS"] and v["B_HAS"] and not v["FPID_NEQ"] and (v["NAME_NEQ"] or (v["MAJOR_NEQ"] and v["A_REL"] and v["B_REL"]))
        got = f_eval(err, v)
        if got != want:
            bad.append({"state": {k: v[k] for k in atoms}, "found": "error" if got else "ok", "expected": "error" if want else "ok"})
    ctx.count(n)
    ctx.check(not bad, fn.short, "collision formula", "port-ID collision decision must equal the Specification on all %d consistent valuations" % n, fn.where(), bad[:4])
    bad_cls = [x for x in (_exc_name(ctx, fn, p) for p in raises) if not x[1]]
    ctx.check(not bad_cls, fn.short, "rejection class", "collisions must be InvalidDefinitionError subclasses", fn.where(), bad_cls)
    from ..decide import f_str

    ctx.sample({"rule": "C11.R1", "extracted": f_str(err), "valuations": n})


def rule_r2(ctx: Ctx) -> None:
    ctx.rule("C11.R2", "minor-version compatibility: same kind; same port-ID or added only in the newer minor; for major>0 equal extent and equal sealing; services recurse into (request,request),(response,response)", min_instances=1)
    fn = ctx.func(NS + "._ensure_minor_version_compatibility_pairwise")
    if fn.params[:2] != ["a", "b"]:
        raise AnalysisError("pairwise check parameters renamed: %s" % fn.params)
    body = [_DistributeIfExp().visit(copy.deepcopy(s)) for s in body_without_docstring(fn.node)]
    from ..decide import PathEnumerator

    paths = PathEnumerator().run(body)
    paths = [p for p in paths]
    # after substitution `must_have` became an IfExp: distribute again on conditions
    at = Atomizer(ctx, fn)

    def cond_formula(p: Path) -> Any:
        fs = []
        for c, pol in p.conds:
            if isinstance(c, tuple):
                if c[0] == "assert":
                    continue
                raise AnalysisError("%s: unexpected marker %s" % (fn.qualname, c[0]))
            c2 = _DistributeIfExp().visit(copy.deepcopy(c))
            f = at.formula(c2)
            fs.append(f if pol else f_not(f))
        return f_and(*fs)

    forms = [(p, cond_formula(p)) for p in paths]
    atoms = ["A_SVC", "B_SVC", "A_HAS", "B_HAS", "FPID_NEQ", "A_NEWER", "A_REL", "EXTENT_NEQ", "A_SEALED", "B_SEALED"]
    used: List[str] = []
    for _, f in forms:
        for a in f_atoms(f):
            if a not in used:
                used.append(a)
    # `elif a.version.major > 0` may equally be spelled on b (majors are equal in a compared pair)
    used = ["A_REL" if a == "B_REL" else a for a in used]
    atoms += [a for a in ZERO_ATOMS if a in used]
    extra = [a for a in used if a not in atoms]
    if extra:
        raise AnalysisError("%s: atoms outside the vocabulary: %s" % (fn.qualname, extra))

    def consistent(v: Dict[str, bool]) -> bool:
        if not v["A_HAS"] and not v["B_HAS"] and v["FPID_NEQ"]:
            return False
        if v["A_HAS"] != v["B_HAS"] and not v["FPID_NEQ"]:
            return False
        return _zero_consistent(v)

    expected_cls = {
        "kind": "VersionsOfDifferentKindError",
        "fpid": "MinorVersionFixedPortIDError",
        "extent": "ExtentConsistencyError",
        "sealing": "SealingConsistencyError",
    }
    bad = []
    n = 0
    for v in valuations(atoms, consistent):
        n += 1
        vv = dict(v)
        vv["B_REL"] = v["A_REL"]
        taken = [p for p, f in forms if f_eval(f, vv)]
        if len(taken) != 1:
            raise AnalysisError("%s: %d feasible paths for %s" % (fn.qualname, len(taken), v))
        p = taken[0]
        violated = []
        if v["A_SVC"] != v["B_SVC"]:
            violated.append("kind")
        else:
            if v["A_HAS"] == v["B_HAS"] and v["FPID_NEQ"]:
                violated.append("fpid")
            if v["A_HAS"] != v["B_HAS"] and not (v["A_HAS"] if v["A_NEWER"] else v["B_HAS"]):
                violated.append("fpid")
            if not v["A_SVC"] and v["A_REL"]:
                if v["EXTENT_NEQ"]:
                    violated.append("extent")
                if v["A_SEALED"] != v["B_SEALED"]:
                    violated.append("sealing")
        rejected = p.kind == "raise"
        if rejected != bool(violated):
            bad.append({"state": v, "found": "reject" if rejected else "accept", "violated_rules": violated})
            continue
        if rejected:
            name, is_ide = _exc_name(ctx, fn, p)
            if not is_ide or name not in {expected_cls[x] for x in violated}:
                bad.append({"state": v, "raises": name, "violated_rules": violated})
        else:
            # both services: the halves must be compared
            if v["A_SVC"] and v["B_SVC"]:
                rec = sorted(norm(ev) for ev in p.events if isinstance(ev, ast.Call) and dotted(ev.func) == fn.name)
                want_rec = sorted(["%s(a.request_type, b.request_type)" % fn.name, "%s(a.response_type, b.response_type)" % fn.name])
                if rec != want_rec:
                    bad.append({"state": v, "recursion": rec, "expected": want_rec})
    ctx.count(n)
    ctx.check(not bad, fn.short, "compatibility decision", "minor-version compatibility must equal the Specification on all %d consistent valuations (incl. recursion into service halves)" % n, fn.where(), bad[:4])
    ctx.sample({"rule": "C11.R2", "paths": len(paths), "valuations": n})


def _loop_chain(fn: FuncInfo) -> Dict[str, Any]:
    """Extract the grouping structure of _ensure_minor_version_compatibility."""
    info: Dict[str, Any] = {"fills": {}, "loops": []}
    for n in ast.walk(fn.node):
        if isinstance(n, ast.For):
            info["loops"].append((norm(n.target), norm(n.iter), n))
            for st in n.body:
                if isinstance(st, ast.Expr) and isinstance(st.value, ast.Call):
                    c = st.value
                    if isinstance(c.func, ast.Attribute) and c.func.attr == "append" and isinstance(c.func.value, ast.Subscript):
                        d = norm(c.func.value.value)
                        key = norm(c.func.value.slice)
                        info["fills"][d] = {"key": key, "item": norm(c.args[0]) if c.args else None, "loop_var": norm(n.target), "loop_iter": norm(n.iter)}
    return info


def rule_r3(ctx: Ctx) -> None:
    ctx.rule("C11.R3", "grouping: by full name, then by major version; every pair of distinct members of a group is checked", min_instances=1)
    fn = ctx.func(NS + "._ensure_minor_version_compatibility")
    param = fn.params[0]
    info = _loop_chain(fn)
    pair = ctx.func(NS + "._ensure_minor_version_compatibility_pairwise").name
    calls = [c for c in calls_in(fn.node) if dotted(c.func) == pair]
    detail: Dict[str, Any] = {"fills": info["fills"]}
    good = len(calls) == 1
    if good:
        call = calls[0]
        args = [norm(a) for a in call.args]
        # find enclosing loops of the call
        chain = []
        for tgt, it, node in info["loops"]:
            if any(c is call for c in ast.walk(node)):
                chain.append((tgt, it, node))
        inner = [x for x in chain if x[0] in args]
        detail["pair_loops"] = [(t, i) for t, i, _ in inner]
        good = len(inner) == 2 and sorted(t for t, _, _ in inner) == sorted(args) and inner[0][1] == inner[1][1]
        group = inner[0][1] if inner else None
        # distinctness guard directly around the call
        guard_ok = False
        for n in ast.walk(fn.node):
            if isinstance(n, ast.If) and any(c is call for c in ast.walk(ast.Module(body=n.body, type_ignores=[]))):
                t = n.test
                if isinstance(t, ast.Compare) and len(t.ops) == 1 and isinstance(t.ops[0], ast.IsNot) and sorted([norm(t.left), norm(t.comparators[0])]) == sorted(args):
                    guard_ok = True
                else:
                    detail["guard"] = norm(t)
        good = good and guard_ok
        # group comes from D.values() where D is filled keyed by version.major from a group that comes from
        # E.values() where E is filled keyed by full_name from the parameter
        def source_of(var: str) -> Optional[str]:
            for tgt, it, _ in info["loops"]:
                if tgt == var and it.endswith(".values()"):
                    return it[: -len(".values()")]
            return None

        d_major = source_of(group) if group else None
        f1 = info["fills"].get(d_major or "")
        detail["major_grouping"] = f1
        good = good and f1 is not None and f1["key"] in ("%s.version.major" % f1["loop_var"], "%s.version[0]" % f1["loop_var"]) and f1["item"] == f1["loop_var"]
        d_name = source_of(f1["loop_iter"]) if f1 else None
        f2 = info["fills"].get(d_name or "")
        detail["name_grouping"] = f2
        good = good and f2 is not None and f2["key"] == "%s.full_name" % f2["loop_var"] and f2["item"] == f2["loop_var"] and f2["loop_iter"] == param
    ctx.check(good, fn.short, "grouping by (full_name, major) and all distinct pairs", "every two different minor versions under one name and major must be compared", fn.where(), detail)


def rule_r4(ctx: Ctx) -> None:
    ctx.rule("C11.R4", "scope: port-ID collisions over the direct (target) types, version compatibility over transitive + direct", min_instances=2)
    fn = ctx.func(NS + "._complete_read_function")
    body = body_without_docstring(fn.node)
    top_calls = {}
    defs_var = None
    for st in body:
        if isinstance(st, ast.Assign) and isinstance(st.value, ast.Call) and dotted(st.value.func) == "read_definitions" and isinstance(st.targets[0], ast.Name):
            defs_var = st.targets[0].id
        if isinstance(st, ast.Expr) and isinstance(st.value, ast.Call):
            n = dotted(st.value.func)
            if n in ("_ensure_no_fixed_port_id_collisions", "_ensure_minor_version_compatibility"):
                top_calls[n] = st.value
    if defs_var is None:
        raise AnalysisError("_complete_read_function: read_definitions result not found")
    def operands(e: ast.AST) -> List[str]:
        if isinstance(e, ast.BinOp) and isinstance(e.op, ast.Add):
            return operands(e.left) + operands(e.right)
        return [norm(e)]

    # C11 demands that the checks *cover* these sets; whether anything beyond them may be looked at is C19's business
    c1 = top_calls.get("_ensure_no_fixed_port_id_collisions")
    ops1 = operands(c1.args[0]) if c1 is not None and len(c1.args) == 1 else []
    ctx.check("%s.direct" % defs_var in ops1, fn.short, "collision check scope", "the port-ID collision check must run unconditionally over (at least) the target types", fn.where(), norm(c1) if c1 else None)
    c2 = top_calls.get("_ensure_minor_version_compatibility")
    ops2 = operands(c2.args[0]) if c2 is not None and len(c2.args) == 1 else []
    ctx.check({"%s.direct" % defs_var, "%s.transitive" % defs_var} <= set(ops2), fn.short, "compatibility check scope", "the minor-version check must run unconditionally over (at least) direct + transitive types", fn.where(), norm(c2) if c2 else None)
    rets = [n for n in body if isinstance(n, ast.Return)]
    ctx.check(len(rets) == 1 and norm(rets[0].value) == defs_var and body.index(rets[0]) > max(body.index(s) for s in body if isinstance(s, ast.Expr) and isinstance(s.value, ast.Call) and s.value in top_calls.values()), fn.short, "checks precede the return", "results are returned only after both checks", fn.where(), nontrivial=False)


def run(ctx: Ctx) -> None:
    ctx.attempt(rule_r1, ctx)
    ctx.attempt(rule_r2, ctx)
    ctx.attempt(rule_r3, ctx)
    ctx.attempt(rule_r4, ctx)
    ctx.assume("major/minor versions are non-negative integers (C05.R3); the minors of a compared pair differ (asserted by the grouping)")
    ctx.analysed["modules"] = ["_namespace"]
