"""
C11 -- Port-ID and minor-version consistency rules hold for every set of definitions.

The checks touch definitions only through a few accessors (full_name, version, kind, fixed port-ID, extent, sealing), so
their decisions are functions of a small abstract state.  The functions are *abstractly evaluated* over a finite family of
abstract definitions that realises every combination of those accessors' relations, and the outcome (accept / which
InvalidDefinitionError) is compared with the Specification.  An accessor outside the family -> ANALYSIS-ERROR.

R1  port-ID collision decision for every pair (names equal/different, majors 0/1/2, kinds, port-IDs none/0/5/6).
R2  pairwise minor-version compatibility (kind, port-ID rules, extent, sealing, recursion into the halves of services).
R3  grouping: every two different minor versions under one name and major are compared; nothing else is.
R4  scope: the checks receive the target types (collisions) and targets + dependencies (compatibility), before returning.
"""
from __future__ import annotations

import ast
import itertools
from typing import Any, Dict, List, Optional, Sequence, Tuple

from ..absint import Raised, Recorder, call_fn, module_call_hook
from ..codec import isa_of
from ..core import AnalysisError, ClassInfo, Ctx, FuncInfo, norm
from ..fold import Sym, Unfoldable

IDE = "_error.InvalidDefinitionError"
NS = "_namespace"
SER = "_serializable._composite."


def _definition(ctx: Ctx, name: str, major: int, minor: int, service: bool, fpid: Optional[int], extent: int = 64, sealed: bool = True, halves: Optional[Tuple[Any, Any]] = None) -> Sym:
    kind = "ServiceType" if service else ("StructureType" if sealed else "DelimitedType")
    d = Sym(
        _isa_=isa_of(ctx, SER + kind), _kind_=kind, full_name=name, version=_version(major, minor), fixed_port_id=fpid, has_fixed_port_id=fpid is not None,
        source_file_path="%s.%d.%d" % (name, major, minor), name=name, short_name=name.split(".")[-1], full_namespace=".".join(name.split(".")[:-1]), root_namespace=name.split(".")[0],
        name_components=name.split("."),
    )
    if not service:
        d.extent = extent
    else:
        rq, rs = halves if halves is not None else (_definition(ctx, name + ".Request", major, minor, False, None), _definition(ctx, name + ".Response", major, minor, False, None))
        d.request_type, d.response_type = rq, rs
    return d


class _V(tuple):
    """Version(major, minor): a named pair"""

    _fields = ("major", "minor")

    @property
    def major(self) -> int:
        return self[0]

    @property
    def minor(self) -> int:
        return self[1]


def _version(major: int, minor: int) -> Any:
    return _V((major, minor))


def _outcome(ctx: Ctx, fn: FuncInfo, args: List[Any], hook: Any = None) -> str:
    if hook is None:
        hook = module_call_hook(ctx, fn.module, [], [], record=[])
    try:
        call_fn(ctx, fn, args, hook=hook, keep=tuple(fn.module.functions))
        return "accept"
    except Raised as r:
        return r.cls_name
    except Unfoldable as ex:
        raise AnalysisError("%s: cannot evaluate over abstract definitions: %s" % (fn.short, ex))


def _is_ide(ctx: Ctx, name: str) -> bool:
    k = next((c for c in ctx.repo.all_classes().values() if c.name == name), None)
    return k is not None and ctx.repo.is_subclass(k, IDE)


def rule_r1(ctx: Ctx) -> None:
    ctx.rule("C11.R1", "fixed port-ID collision: error <=> same kind & both have a port-ID & equal port-IDs & (different names | (different majors & both majors > 0)), for every pair", min_instances=2)
    fn = ctx.func(NS + "._ensure_no_fixed_port_id_collisions")
    bad = []
    classes = set()
    n = 0
    ids: List[Optional[int]] = [None, 0, 5, 6]
    for same_name in (True, False):
        for ma, mb in itertools.product((0, 1, 2), repeat=2):
            for sa_, sb in itertools.product((False, True), repeat=2):
                for ia, ib in itertools.product(ids, repeat=2):
                    if same_name and ma == mb and sa_ != sb:
                        continue  # one name and version cannot be both a message and a service
                    a = _definition(ctx, "ns.A", ma, 0 if not same_name else 1, sa_, ia)
                    b = _definition(ctx, "ns.A" if same_name else "ns.B", mb, 0, sb, ib)
                    must_differ = (sa_ == sb) and ((not same_name) or (ma != mb and ma > 0 and mb > 0))
                    want = must_differ and ia is not None and ib is not None and ia == ib
                    for order in ([a, b], [b, a]):
                        got = _outcome(ctx, fn, [order])
                        n += 1
                        if got != "accept":
                            classes.add(got)
                        if (got != "accept") != want:
                            bad.append({"a": a.source_file_path + (" service" if sa_ else ""), "a port": ia, "b": b.source_file_path + (" service" if sb else ""), "b port": ib, "found": got, "expected": "collision error" if want else "accept"})
    ctx.count(n)
    ctx.check(not bad, fn.short, "collision decision", "port-ID collision decision must equal the Specification on all %d abstract pairs" % n, fn.where(), bad[:4])
    not_ide = sorted(c for c in classes if not _is_ide(ctx, c))
    ctx.check(not not_ide and bool(classes), fn.short, "rejection class %s" % sorted(classes), "collisions must be InvalidDefinitionError subclasses", fn.where(), not_ide)
    # every pair of a longer list is looked at: a colliding pair anywhere in the list is found
    bad2 = []
    for pos in itertools.combinations(range(4), 2):
        lst = [_definition(ctx, "ns.T%d" % i, 1, 0, False, 100 + i) for i in range(4)]
        lst[pos[1]].fixed_port_id = lst[pos[0]].fixed_port_id
        got = _outcome(ctx, fn, [lst])
        ctx.count()
        if got == "accept":
            bad2.append({"colliding positions": pos})
    ctx.check(not bad2, fn.short, "all pairs of the argument", "every pair of the given types must be compared", fn.where(), bad2)
    # lists of three: the decision is the disjunction over all pairs, whatever else is in the list - in particular other
    # minor versions of a colliding definition that carry no port-ID (it may be added in a newer minor) and other majors
    slots = [("ns.A", 1, 0), ("ns.A", 1, 1), ("ns.A", 2, 0), ("ns.B", 1, 0), ("ns.B", 1, 1), ("ns.B", 0, 1)]
    bad3 = []
    n3 = 0
    for chosen in itertools.combinations(slots, 3):
        for ports in itertools.product((None, 5), repeat=3):
            if sum(1 for p_ in ports if p_ is not None) < 2:
                continue
            defs = [_definition(ctx, nm, ma, mi, False, p_) for (nm, ma, mi), p_ in zip(chosen, ports)]
            want = False
            for x, y in itertools.combinations(defs, 2):
                must = x.full_name != y.full_name or (x.version.major != y.version.major and x.version.major > 0 and y.version.major > 0)
                want = want or (must and x.fixed_port_id is not None and x.fixed_port_id == y.fixed_port_id)
            for order in itertools.permutations(defs):
                got = _outcome(ctx, fn, [list(order)])
                n3 += 1
                if (got != "accept") != want:
                    bad3.append({"list": ["%s port %s" % (d.source_file_path, d.fixed_port_id) for d in order], "found": got, "expected": "collision error" if want else "accept"})
    # ... and whatever *kind* the bystanders are: subjects and services number their ports separately, so a service may sit
    # between two colliding messages (in any position of the list) without hiding the collision, and the other way round
    for names in (("ns.A", "ns.B", "ns.C"), ("ns.A", "ns.A", "ns.C")):
        for kinds in itertools.product((False, True), repeat=3):
            for ports in ((5, 5, 5), (5, 5, 6), (5, 6, 5), (6, 5, 5), (5, None, 5)):
                majors = (1, 2, 1) if names[0] == names[1] else (1, 1, 1)
                if names[0] == names[1] and kinds[0] != kinds[1]:
                    continue  # the versions of one name are of one kind (C11.R2's business)
                defs = [_definition(ctx, nm, ma, 0, k_, p_) for nm, ma, k_, p_ in zip(names, majors, kinds, ports)]
                want = False
                for x, y in itertools.combinations(defs, 2):
                    same_kind = (x._kind_ == "ServiceType") == (y._kind_ == "ServiceType")
                    must = same_kind and (x.full_name != y.full_name or (x.version.major != y.version.major and x.version.major > 0 and y.version.major > 0))
                    want = want or (must and x.fixed_port_id is not None and x.fixed_port_id == y.fixed_port_id)
                for order in itertools.permutations(defs):
                    got = _outcome(ctx, fn, [list(order)])
                    n3 += 1
                    if (got != "accept") != want:
                        bad3.append({"list": ["%s%s port %s" % (d.source_file_path, " (service)" if d._kind_ == "ServiceType" else "", d.fixed_port_id) for d in order], "found": got, "expected": "collision error" if want else "accept"})
    ctx.count(n3)
    ctx.check(not bad3, fn.short, "lists of three definitions (%d evaluations)" % n3, "a collision between two definitions is found whatever other versions of them are in the list (a port-ID may be added in a newer minor version)", fn.where(), bad3[:3])


def _spec_pairwise(a: Any, b: Any) -> List[str]:
    """the rules violated by two minor versions of one name and major (several may be: any of their errors is acceptable)"""
    a_svc, b_svc = a._kind_ == "ServiceType", b._kind_ == "ServiceType"
    if a_svc != b_svc:
        return ["VersionsOfDifferentKindError"]
    out = []
    if a.has_fixed_port_id == b.has_fixed_port_id:
        if a.fixed_port_id != b.fixed_port_id:
            out.append("MinorVersionFixedPortIDError")
    else:
        newer = a if a.version.minor > b.version.minor else b
        if not newer.has_fixed_port_id:
            out.append("MinorVersionFixedPortIDError")
    if a_svc:
        out += _spec_pairwise(a.request_type, b.request_type) + _spec_pairwise(a.response_type, b.response_type)
    elif a.version.major > 0:
        if a.extent != b.extent:
            out.append("ExtentConsistencyError")
        if (a._kind_ == "DelimitedType") != (b._kind_ == "DelimitedType"):
            out.append("SealingConsistencyError")
    return out


class _ServiceDef(Sym):
    """a service definition: asking it for a layout (extent / bit_length_set) is what the real class answers with TypeError"""

    def __getattr__(self, name: str) -> Any:
        if name in ("extent", "bit_length_set"):
            raise Raised("TypeError", ast.parse("x.%s" % name, mode="eval").body)
        raise AttributeError(name)


def pairwise_never_asks_a_service_for_its_layout(ctx: Ctx) -> bool:
    """C13's fact F-path: over every abstract pair of minor versions (services included) the pairwise check - with whatever
    helpers it calls - never evaluates `.extent` / `.bit_length_set` of a service type"""
    cached = getattr(ctx, "_c11_fpath", None)
    if cached is not None:
        return cached
    fn = ctx.func(NS + "._ensure_minor_version_compatibility_pairwise")
    ok = True
    try:
        for major in (0, 1):
            for ma, mb in ((1, 2), (2, 1)):
                for sa_, sb in itertools.product((False, True), repeat=2):
                    for ia, ib in itertools.product((None, 5, 6), repeat=2):
                        def mk(minor: int, svc: bool, fpid: Optional[int]) -> Any:
                            d = _definition(ctx, "ns.A", major, minor, svc, fpid)
                            if svc:
                                d2 = _ServiceDef(**{k: v for k, v in d.__dict__.items()})
                                return d2
                            return d

                        hook = module_call_hook(ctx, fn.module, [], [], record=[])
                        try:
                            call_fn(ctx, fn, [mk(ma, sa_, ia), mk(mb, sb, ib)], hook=hook, keep=tuple(fn.module.functions))
                        except Raised as r:
                            if r.cls_name == "TypeError":
                                ok = False
    except (Unfoldable, AnalysisError):
        ok = False
    ctx._c11_fpath = ok  # type: ignore
    return ok


def rule_r2(ctx: Ctx) -> None:
    ctx.rule("C11.R2", "minor-version compatibility: same kind; same port-ID or added only in the newer minor; for major>0 equal extent and equal sealing; services recurse into (request,request),(response,response)", min_instances=1)
    fn = ctx.func(NS + "._ensure_minor_version_compatibility_pairwise")
    mod = fn.module
    bad = []
    n = 0
    ids: List[Optional[int]] = [None, 0, 5, 6]

    def run(a: Any, b: Any) -> str:
        log: List[Any] = []
        hook = module_call_hook(ctx, mod, [], log, record=[])
        return _outcome(ctx, fn, [a, b], hook)

    def judge(a: Any, b: Any, label: str) -> None:
        nonlocal n
        got = run(a, b)
        want = _spec_pairwise(a, b)
        n += 1
        if (got == "accept") != (not want) or (got != "accept" and (got not in want or not _is_ide(ctx, got))):
            bad.append({"pair": label, "found": got, "violated rules": want or "none"})

    for major in (0, 1):
        for a_newer in (False, True):
            ma, mb = (2, 1) if a_newer else (1, 2)
            # messages
            for ia, ib in itertools.product(ids, repeat=2):
                for ea, eb in ((64, 64), (64, 72)):
                    for sa_, sb in itertools.product((True, False), repeat=2):
                        a = _definition(ctx, "ns.A", major, ma, False, ia, ea, sa_)
                        b = _definition(ctx, "ns.A", major, mb, False, ib, eb, sb)
                        judge(a, b, "messages major=%d minors=%d,%d ports=%s,%s extents=%d,%d sealed=%s,%s" % (major, ma, mb, ia, ib, ea, eb, sa_, sb))
            # different kinds
            for sa_, sb in ((True, False), (False, True)):
                a = _definition(ctx, "ns.A", major, ma, sa_, None)
                b = _definition(ctx, "ns.A", major, mb, sb, None)
                judge(a, b, "kinds service=%s,%s" % (sa_, sb))
            # services: port-IDs on the service, extent / sealing on each half
            for ia, ib in itertools.product(ids, repeat=2):
                a = _definition(ctx, "ns.S", major, ma, True, ia)
                b = _definition(ctx, "ns.S", major, mb, True, ib)
                judge(a, b, "services major=%d ports=%s,%s" % (major, ia, ib))
            for half in (0, 1):
                for what in ("extent", "sealing"):
                    def mk(minor: int, odd: bool) -> Any:
                        hs = [_definition(ctx, "ns.S.Request", major, minor, False, None), _definition(ctx, "ns.S.Response", major, minor, False, None)]
                        if odd:
                            hs[half] = _definition(ctx, hs[half].full_name, major, minor, False, None, 72 if what == "extent" else 64, what != "sealing")
                        return _definition(ctx, "ns.S", major, minor, True, 7, halves=(hs[0], hs[1]))

                    judge(mk(ma, True), mk(mb, False), "services major=%d, %s of the %s differs" % (major, what, ("request", "response")[half]))
    ctx.count(n)
    ctx.check(not bad, fn.short, "compatibility decision", "minor-version compatibility must equal the Specification on all %d abstract pairs (incl. recursion into service halves)" % n, fn.where(), bad[:4])
    ctx.sample({"rule": "C11.R2", "pairs": n})


def rule_r3(ctx: Ctx) -> None:
    ctx.rule("C11.R3", "grouping: by full name, then by major version; every pair of distinct members of a group is checked", min_instances=1)
    fn = ctx.func(NS + "._ensure_minor_version_compatibility")
    pair = ctx.func(NS + "._ensure_minor_version_compatibility_pairwise").name
    spec = [("ns.A", 1, 0), ("ns.A", 1, 1), ("ns.A", 1, 2), ("ns.A", 1, 3), ("ns.A", 2, 0), ("ns.B", 1, 0), ("ns.B", 1, 1), ("ns.A", 0, 1), ("ns.A", 0, 2), ("ns.C", 3, 0), ("zz.A", 1, 0), ("zz.A", 1, 1)]
    bad = []
    for rot in (0, 3, 7):
        defs = [_definition(ctx, nm, ma, mi, False, None) for nm, ma, mi in spec[rot:] + spec[:rot]]
        log: List[Any] = []
        hook = module_call_hook(ctx, fn.module, [], log, results={pair: None}, record=[pair])
        try:
            call_fn(ctx, fn, [defs], hook=hook, keep=tuple(fn.module.functions))
        except Raised as r:
            bad.append({"raised over definitions that are compatible": r.cls_name, "definitions": ["%s.%d.%d" % (nm, ma, mi) for nm, ma, mi in spec[rot:] + spec[:rot]]})
            continue
        except Unfoldable as ex:
            raise AnalysisError("%s: cannot evaluate over abstract definitions: %s" % (fn.short, ex))
        got = set()
        foreign = []
        for name, args, _kw in log:
            if name != pair or len(args) != 2:
                continue
            x, y = args
            if x is y or x.full_name != y.full_name or x.version.major != y.version.major:
                foreign.append((x.source_file_path, y.source_file_path))
            got.add(frozenset((x.source_file_path, y.source_file_path)))
        want = {frozenset((x.source_file_path, y.source_file_path)) for x in defs for y in defs if x is not y and x.full_name == y.full_name and x.version.major == y.version.major}
        ctx.count(len(want))
        missing = sorted(tuple(sorted(p)) for p in want - got)
        if missing or foreign:
            bad.append({"not compared": missing[:4], "compared although not versions of one name and major": foreign[:4]})
    ctx.check(not bad, fn.short, "grouping by (full_name, major) and all distinct pairs", "every two different minor versions under one name and major must be compared", fn.where(), bad[:2])


def rule_r4(ctx: Ctx) -> None:
    ctx.rule("C11.R4", "scope: port-ID collisions over the direct (target) types, version compatibility over transitive + direct", min_instances=2)
    fn = ctx.func(NS + "._complete_read_function")
    direct = [_definition(ctx, "ns.D%d" % i, 1, 0, False, None) for i in range(2)]
    transitive = [_definition(ctx, "ns.T%d" % i, 1, 0, False, None) for i in range(2)]
    result = Sym(direct=list(direct), transitive=list(transitive))
    log: List[Any] = []
    rec = ["read_definitions", "_ensure_no_fixed_port_id_collisions", "_ensure_minor_version_compatibility", "_construct_lookup_directories_path_list", "_construct_dsdl_definitions_from_namespaces", "_ensure_no_namespace_name_collisions_or_nested_root_namespaces"]
    hook = module_call_hook(ctx, fn.module, [], log, record=rec, results={"read_definitions": result, "_ensure_no_fixed_port_id_collisions": None, "_ensure_minor_version_compatibility": None, "_construct_lookup_directories_path_list": [], "_construct_dsdl_definitions_from_namespaces": [], "_ensure_no_namespace_name_collisions_or_nested_root_namespaces": None})
    params = fn.params
    args: Dict[str, Any] = {}
    for p_ in params:
        args[p_] = ([] if ("list" in p_ or "definitions" in p_ or "director" in p_) else (None if "handler" in p_ else False))
    try:
        ret = call_fn(ctx, fn, [], args, hook=hook, keep=tuple(fn.module.functions))
    except Raised as r:
        raise AnalysisError("%s raised %s over abstract arguments" % (fn.short, r.cls_name))
    except Unfoldable as ex:
        raise AnalysisError("%s: cannot evaluate over abstract arguments: %s" % (fn.short, ex))
    calls = {name: a for name, a, _ in log}
    c1 = calls.get("_ensure_no_fixed_port_id_collisions")
    c2 = calls.get("_ensure_minor_version_compatibility")
    ids1 = {id(x) for x in (c1[0] if c1 else [])}
    ids2 = {id(x) for x in (c2[0] if c2 else [])}
    # C11 demands that the checks *cover* these sets; whether anything beyond them may be looked at is C19's business
    ctx.check(c1 is not None and {id(x) for x in direct} <= ids1, fn.short, "collision check scope", "the port-ID collision check must run unconditionally over (at least) the target types", fn.where())
    ctx.check(c2 is not None and {id(x) for x in direct + transitive} <= ids2, fn.short, "compatibility check scope", "the minor-version check must run unconditionally over (at least) direct + transitive types", fn.where())
    ctx.check(ret is result, fn.short, "checks precede the return", "the read results are returned, after both checks", fn.where(), nontrivial=False)


def run(ctx: Ctx) -> None:
    ctx.attempt(rule_r1, ctx)
    ctx.attempt(rule_r2, ctx)
    ctx.attempt(rule_r3, ctx)
    ctx.attempt(rule_r4, ctx)
    from . import c11text

    c11text.run(ctx)
    ctx.assume("major/minor versions are non-negative integers (C05.R3); the minors of a compared pair differ (asserted by the grouping)")
    ctx.analysed["modules"] = ["_namespace"]
