"""
C14 -- Delimited (appendable) types evolve without breaking containers or the wire.

R1  container layout depends only on the extent: the delimited type's bit length set is a term over {header width,
    alignment, declared extent} with no flow from the inner type's fields / set / extent (those appear only in guards);
    containers consult a field type only through bit_length_set and alignment_requirement.
R2  header = actual inner length: the writer's header operand is the byte length of the serialized inner object (both
    copies); the reader's payload bit count is 8 x header (both copies).
R3  bounded sub-reader discipline: the inner object is decoded from the *sub*-reader, the parent was advanced by exactly
    the header value when the sub-reader was created, and nothing else is read in that branch afterwards.
R4  limit confinement: the reader's buffer is touched only by read_bits (which enforces the limit), the constructor,
    bounded_subreader (handing it on) and remaining_bits (its length); the decoder uses the reader only through
    read_bits / align_to / bounded_subreader / remaining_bits.
"""
from __future__ import annotations

import ast
import re
from typing import Any, Dict, List, Optional, Set

from ..core import AnalysisError, ClassInfo, Ctx, FuncInfo, body_without_docstring, calls_in, dotted, norm, walk_no_nested
from ..fold import Unfoldable
from ..layout import NotLayout, term_str
from ..trace import Tracer, isinstance_branches, show_all
from ..fold import Sym
from ..layout import TBls, explore
from .c02 import class_layout_exprs, eval_layout

SER = "_serializable."
SD = "_serdes"


def rule_r1(ctx: Ctx) -> None:
    repo = ctx.repo
    ctx.rule("C14.R1", "a delimited type's length set depends only on header width, alignment and declared extent; containers use only bit_length_set / alignment_requirement of their fields' types", min_instances=4)
    d = ctx.cls(SER + "_composite.DelimitedType")
    exprs, fn = class_layout_exprs(ctx, d)
    bad = []
    shown = ""
    for ext in (0, 8, 64, 2040):
        terms = []
        for rev in ("A", "B"):
            # two revisions of the inner type with the same extent but different fields / length sets
            inner = Sym(alignment_requirement=8, extent=ext, bit_length_set=TBls.var("INNER_" + rev, 8), fields=[Sym(data_type=Sym(bit_length_set=TBls.var("F_" + rev), alignment_requirement=1))] * (1 if rev == "A" else 2), inner_type=None)
            env = {"self": Sym(alignment_requirement=8, extent=ext, inner_type=inner, delimiter_header_type=Sym(bit_length=32)), "inner": inner, "extent": ext}
            try:
                runs = explore(lambda: eval_layout(ctx, d, exprs, fn, env))
            except NotLayout as ex:
                raise AnalysisError("DelimitedType.bit_length_set: %s" % ex)
            terms.append(sorted(repr(t) for _, ts in runs for t in ts))
            ctx.count()
        shown = terms[0][0] if terms[0] else "?"
        want = repr(32 + TBls.of(8).repeat_range(ext // 8))
        leaks = [t for t in terms[0] + terms[1] if "INNER" in t or "F_" in t]
        if terms[0] != terms[1] or leaks or any(t != want for t in terms[0]):
            bad.append({"extent": ext, "revision A": terms[0], "revision B": terms[1], "expected": want})
    ctx.check(not bad, d.short + ".bit_length_set", shown, "replacing the inner type by a revision with the same extent must not change the container-visible length set", fn.where(), bad[:2])
    init = d.methods["__init__"]
    # inner.* only in guards / the super() call / assertions
    uses = []
    for st in body_without_docstring(init.node):
        if isinstance(st, (ast.Assert, ast.If)):
            continue
        if isinstance(st, ast.Expr) and isinstance(st.value, ast.Call) and "super()" in norm(st.value.func):
            continue
        for n in ast.walk(st):
            if isinstance(n, ast.Attribute) and isinstance(n.value, ast.Name) and n.value.id == init.params[1] and n.attr in ("bit_length_set", "extent", "fields", "attributes"):
                uses.append(norm(st)[:80])
    ctx.check(not uses, init.short, "inner type consulted only in the extent guard", "the layout must not flow from the inner type's fields", init.where(), uses)
    # containers: what do they ask of a nested type?  The layout functions are evaluated over nested types that answer
    # only `bit_length_set` and `alignment_requirement`; anything else they consult is recorded.
    asked: List[Tuple[str, str]] = []

    class Nested(Sym):
        def __getattr__(self, name: str) -> Any:
            if name.startswith("__"):
                raise AttributeError(name)
            asked.append((self.__dict__.get("name", "?"), name))
            raise Unfoldable("a nested type is consulted for `%s`" % name)

    def nested_grid() -> List[List[Any]]:
        return [[Nested(bit_length_set=TBls.var("T%d" % i, a), alignment_requirement=a, name="T%d" % i) for i, a in enumerate(als)] for als in ([1], [8], [1, 8], [8, 1, 1])]

    from .c02 import aggregate_term
    from ..absint import Evaluator, Raised, make_obj

    sites = []
    for cname in ("StructureType", "UnionType"):
        c = ctx.cls(SER + "_composite." + cname)
        for mname in ("aggregate_bit_length_sets", "iterate_fields_with_offsets"):
            m = c.methods.get(mname)
            if m is None:
                raise AnalysisError("anchor %s.%s missing" % (cname, mname))
            sites.append((c, m))
    fa = ctx.cls(SER + "_array.FixedLengthArrayType")
    m = fa.methods.get("enumerate_elements_with_offsets")
    if m is None:
        raise AnalysisError("anchor enumerate_elements_with_offsets missing")
    sites.append((fa, m))
    from .c02 import _layout_hook

    for c, m in sites:
        del asked[:]
        errors = []
        for ts in nested_grid():
            if c.name == "UnionType" and len(ts) < 2:
                continue
            try:
                if m.name == "aggregate_bit_length_sets":
                    explore(lambda: aggregate_term(ctx, m, ts))
                elif m.name == "iterate_fields_with_offsets":
                    fields = [Sym(data_type=t, name="f%d" % i, _isa_=frozenset({"Field", "Attribute"})) for i, t in enumerate(ts)]
                    me = make_obj(ctx, c, fields=fields, alignment_requirement=8, tag_field_type=Sym(bit_length=8, alignment_requirement=1))

                    def run() -> Any:
                        ev = Evaluator({m.params[0]: me, m.params[1]: TBls.var("BASE")}, repo, m.module, c, _layout_hook(ctx, m.module, c))
                        ev.run(body_without_docstring(ctx.inl(m)))
                        return ev.yielded

                    explore(run)
                else:
                    me = make_obj(ctx, c, element_type=ts[0], capacity=3, alignment_requirement=ts[0].alignment_requirement)

                    def run2() -> Any:
                        ev = Evaluator({m.params[0]: me, m.params[1]: TBls.var("BASE")}, repo, m.module, c, _layout_hook(ctx, m.module, c))
                        ev.run(body_without_docstring(ctx.inl(m)))
                        return ev.yielded

                    explore(run2)
                ctx.count()
            except (Unfoldable, Raised, NotLayout) as ex:
                errors.append(str(ex))
        if errors and not asked:
            raise AnalysisError("%s: cannot evaluate over abstract nested types: %s" % (m.short, errors[0]))
        ctx.check(not asked, m.short, "consults only bit_length_set / alignment_requirement of the nested types", "a container's layout may depend on a nested type only through its length set and alignment", m.where(), sorted(set(a for _, a in asked)), nontrivial=False)


def rule_r2_r3(ctx: Ctx) -> None:
    ctx.rule("C14.R2", "header = byte length of the serialized inner object (writer, both copies); payload = 8 x header (reader, both copies)", min_instances=4)
    ctx.rule("C14.R3", "the inner object is decoded from the bounded sub-reader, created from the header value, and the branch ends there", min_instances=2)
    for fname in ("_serialize_composite", "serialize"):
        fn = ctx.func(SD + "." + fname)
        src = norm(fn.node).replace("\n", " ")
        hdr = [c for c in calls_in(fn.node) if isinstance(c.func, ast.Attribute) and c.func.attr == "write_bits" and ("delimiter_header_type" in norm(c) or "header_bit_length" in norm(c))]
        good = len(hdr) == 1 and norm(hdr[0].args[0]) in ("len(inner_bytes)", "inner_byte_length")
        if good and norm(hdr[0].args[0]) == "inner_byte_length":
            good = "inner_byte_length = len(inner_bytes)" in src
        good = good and re.search(r"inner_bytes = (temp_writer|inner_writer)\.finish\(\)", src) is not None and re.search(r"_serialize_composite\((temp_writer|inner_writer), schema\.inner_type, ", src) is not None
        ctx.check(good, fn.short, norm(hdr[0]) if hdr else "?", "the header announces exactly the bytes that follow, whatever the revision's extent", fn.where(), rule="C14.R2")
    for fname in ("_deserialize_composite", "deserialize"):
        fn = ctx.func(SD + "." + fname)
        body = None
        for st in ast.walk(fn.node):
            if isinstance(st, ast.If) and norm(st.test) == "isinstance(schema, DelimitedType)":
                body = st.body
        if body is None:
            raise AnalysisError("%s: DelimitedType branch not found" % fname)
        if fname == "deserialize":
            # the header is processed only when requested
            inner_if = [st for st in body if isinstance(st, ast.If) and norm(st.test) == "with_delimiter_header"]
            if len(inner_if) != 1:
                raise AnalysisError("deserialize: with_delimiter_header branch not found")
            body = inner_if[0].body
        t = Tracer()
        ev = show_all(t.events(body))
        want = "BITS(schema.delimiter_header_type.bit_length); SUBREADER(payload_byte_length * 8); EMIT@sub_reader(schema.inner_type)"
        want2 = "BITS(schema.delimiter_header_type.bit_length); SUBREADER(reader.read_bits(schema.delimiter_header_type.bit_length) * 8); EMIT@sub_reader(schema.inner_type)"
        src = norm(ast.Module(body=list(body), type_ignores=[])).replace("\n", " ")
        hdr_def = re.search(r"payload_byte_length = reader\.read_bits\((schema\.delimiter_header_type\.bit_length|header_bit_length)\)", src) is not None
        ctx.check(ev in (want, want2) and hdr_def, fn.short + "[DelimitedType]", ev, "the reader confines the nested object to 8 x header bits", fn.where(), {"expected": want}, rule="C14.R2")
        last = body[-1]
        ends = isinstance(last, ast.Return) and isinstance(last.value, ast.Call) and dotted(last.value.func) == "_deserialize_composite" and [norm(a) for a in last.value.args] == ["sub_reader", "schema.inner_type"]
        sub_def = [st for st in body if isinstance(st, ast.Assign) and norm(st.targets[0]) == "sub_reader"]
        ok_sub = len(sub_def) == 1 and norm(sub_def[0].value) == "reader.bounded_subreader(payload_bit_length)" and "payload_bit_length = payload_byte_length * 8" in src
        ctx.check(ends and ok_sub, fn.short + "[DelimitedType]", "return _deserialize_composite(sub_reader, schema.inner_type)", "fields unknown to the reader are skipped (the parent already moved past the object) and fields unknown to the writer read as zeros (reads beyond the limit)", fn.where(), rule="C14.R3")


def rule_r4(ctx: Ctx) -> None:
    repo = ctx.repo
    ctx.rule("C14.R4", "the reader's buffer contents are accessed only where the limit is enforced; the decoder talks to the reader only through members that cannot see past the limit", min_instances=2)
    from .c07 import bitreader_limit_fields

    rd = ctx.cls(SD + "._BitReader")
    _, limit_fields, _ = bitreader_limit_fields(ctx)
    pm_cache: Dict[str, Dict[ast.AST, ast.AST]] = {}

    def content_uses(m: FuncInfo) -> List[ast.AST]:
        """uses of self._data that can observe the bytes (not: the store in __init__, len(), handing the buffer to a sub-reader)"""
        from ..core import parents_map

        pm = pm_cache.setdefault(m.qualname, parents_map(m.node))
        out = []
        for n in ast.walk(m.node):
            if isinstance(n, ast.Attribute) and n.attr == "_data" and norm(n.value) == "self":
                par = pm.get(n)
                if isinstance(n.ctx, ast.Store):
                    continue
                if isinstance(par, ast.Call) and dotted(par.func) == "len":
                    continue
                if isinstance(par, ast.Call) and isinstance(repo.resolve_expr(m.module, par.func, m.cls), ClassInfo) and repo.resolve_expr(m.module, par.func, m.cls).name == "_BitReader":  # type: ignore
                    continue
                out.append(n)
        return out

    touching = {name: content_uses(m) for name, m in rd.methods.items()}
    touching = {k: v for k, v in touching.items() if v}
    if "read_bits" not in touching:
        raise AnalysisError("_BitReader.read_bits no longer reads the buffer: the anchor of C14.R4 / C07.R3 moved")
    for name, uses in sorted(touching.items()):
        m = rd.methods[name]
        if name == "read_bits":
            continue
        mentions_limit = any(isinstance(n, ast.Attribute) and norm(n) in limit_fields for n in ast.walk(m.node))
        if mentions_limit:
            raise AnalysisError("_BitReader.%s reads the buffer and consults the limit: its limit arithmetic is outside what C07.R3 / C14.R4 verify (only read_bits is modelled)" % name)
        ctx.check(False, m.short, "reads self._data without consulting %s" % sorted(limit_fields), "every read of the buffer must honour the sub-reader's limit: bits beyond the nested object's window read as zeros, never as the container's bytes", m.where(uses[0]))
    ctx.check(True, rd.short, "buffer contents read in %s" % sorted(touching), "scan completed", rd.module.relpath, nontrivial=False)
    # in read_bits the limit check precedes any buffer access
    rb = rd.methods["read_bits"]
    first_data = min((n.lineno for n in touching["read_bits"]), default=10**9)
    limit_if = [st for st in body_without_docstring(rb.node) if isinstance(st, ast.If) and isinstance(st.test, ast.Compare) and isinstance(st.test.ops[0], ast.IsNot) and norm(st.test.left) in limit_fields and norm(st.test.comparators[0]) == "None"]
    ctx.check(len(limit_if) == 1 and limit_if[0].lineno < first_data, rb.short, "limit handled before the buffer is touched", "out-of-limit reads yield zeros instead of the container's bytes", rb.where())
    # the decoder's view of the reader
    used: Dict[str, Set[str]] = {}
    for fn in repo.all_functions().values():
        if fn.module.name != "pydsdl._serdes" or fn.cls is not None:
            continue
        for n in ast.walk(fn.node):
            if isinstance(n, ast.Attribute) and isinstance(n.value, ast.Name) and n.value.id in ("reader", "sub_reader"):
                used.setdefault(fn.short, set()).add(n.attr)
    bad: Dict[str, List[str]] = {}
    for f, attrs in used.items():
        for a in sorted(attrs):
            if a in rd.methods:
                if a in touching and a != "read_bits":
                    bad.setdefault(f, []).append(a)
            elif a.startswith("_"):
                bad.setdefault(f, []).append(a)  # the reader's private state
            else:
                raise AnalysisError("%s uses reader.%s, which is not a member of _BitReader" % (f, a))
    ctx.check(not bad and bool(used), "_serdes (decoder functions)", "reader interface used: %s" % sorted(set().union(*used.values())) if used else "?", "decoding must not bypass the limit-aware primitives", "pydsdl/_serdes.py", bad)


def run(ctx: Ctx) -> None:
    rule_r1(ctx)
    rule_r2_r3(ctx)
    rule_r4(ctx)
    ctx.assume("offset accounting of read_bits / bounded_subreader (C07.R3, C07.R5) and the composite alignment of 8 (C02.R4)")
    ctx.undecided("field-value preservation across revisions for all pairs and values (numerical)")
