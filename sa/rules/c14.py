"""
C14 -- Delimited (appendable) types evolve without breaking containers or the wire.

R1  container layout depends only on the extent: the delimited type's bit length set is a term over {header width,
    alignment, declared extent} with no flow from the inner type's fields / set / extent (those appear only in guards);
    containers consult a field type only through bit_length_set and alignment_requirement.
R2  header = actual inner length: the writer's header operand is the byte length of the serialized inner object (both
    copies); the reader's payload bit count is 8 x header (both copies).
R3  bounded sub-reader discipline: the inner object is decoded from the *sub*-reader, the parent was advanced by exactly
    the header value when the sub-reader was created, and nothing else is read in that branch afterwards.
R4  limit confinement: the reader's buffer is touched only by read_bits (which enforces the limit), the constructor,
    bounded_subreader (handing it on) and remaining_bits (its length); the decoder uses the reader only through
    read_bits / align_to / bounded_subreader / remaining_bits.
"""
from __future__ import annotations

import ast
import re
from typing import Any, Dict, List, Optional, Set

from ..core import AnalysisError, ClassInfo, Ctx, FuncInfo, body_without_docstring, calls_in, dotted, norm, walk_no_nested
from ..fold import Unfoldable
from ..layout import NotLayout, term_str
from ..trace import Tracer, isinstance_branches, show_all
from ..fold import Sym
from ..layout import TBls, explore

SER = "_serializable."
SD = "_serdes"


def rule_r1(ctx: Ctx) -> None:
    repo = ctx.repo
    ctx.rule("C14.R1", "a delimited type's length set depends only on header width, alignment and declared extent; containers use only bit_length_set / alignment_requirement of their fields' types", min_instances=4)
    from . import c05 as M
    from .c15 import _prop

    d = ctx.cls(SER + "_composite.DelimitedType")
    bad = []
    shown = ""
    # two revisions of the inner type (different fields, different length sets) behind the same declared extent
    revisions = {
        "A": [M.attribute_sym(ctx, "Field", "x", bits=8)],
        "B": [M.attribute_sym(ctx, "Field", "x", bits=8), M.attribute_sym(ctx, "Field", "y", bits=8)],
        "C": [M.attribute_sym(ctx, "Field", "x", bits=16), M.attribute_sym(ctx, "Constant", "K")],
    }
    inners = {}
    for rev, attrs in revisions.items():
        o = M.structure(ctx, attributes=attrs)
        if isinstance(o, str):
            raise AnalysisError("revision %s of the inner type cannot be constructed over abstract arguments: %s" % (rev, o))
        inners[rev] = o
    for ext in (16, 64, 2040):
        terms = {}
        for rev, inner in inners.items():
            try:
                runs = explore(lambda: _prop(ctx, M.build_model(ctx, SER + "_composite.DelimitedType", inner=inner, extent=ext), "bit_length_set"))
            except NotLayout as ex:
                raise AnalysisError("DelimitedType.bit_length_set: %s" % ex)
            want_t = 32 + TBls.of(8).repeat_range(ext // 8)
            # compared as layout terms (closed terms: as the sets they denote), shown as text
            terms[rev] = sorted((repr(want_t) if (isinstance(t, TBls) and t == want_t) else repr(t)) for _, t in runs)
            ctx.count()
        shown = terms["A"][0] if terms["A"] else "?"
        want = repr(32 + TBls.of(8).repeat_range(ext // 8))
        if any(ts != [want] for ts in terms.values()):
            bad.append({"extent": ext, "by revision of the inner type": terms, "expected": want})
    pr = repo.lookup_method(d, "bit_length_set")
    ctx.check(not bad, d.short + ".bit_length_set", shown, "replacing the inner type by a revision with the same extent must not change the container-visible length set", pr.where() if pr else d.module.relpath, bad[:2])
    # containers: what do they ask of a nested type?  The layout functions are evaluated over nested types that answer
    # only `bit_length_set` and `alignment_requirement`; anything else they consult is recorded.
    asked: List[Tuple[str, str]] = []

    class Nested(Sym):
        def __getattr__(self, name: str) -> Any:
            if name.startswith("__"):
                raise AttributeError(name)
            asked.append((self.__dict__.get("name", "?"), name))
            raise Unfoldable("a nested type is consulted for `%s`" % name)

    def nested_grid() -> List[List[Any]]:
        return [[Nested(bit_length_set=TBls.var("T%d" % i, a), alignment_requirement=a, name="T%d" % i) for i, a in enumerate(als)] for als in ([1], [8], [1, 8], [8, 1, 1])]

    from .c02 import aggregate_term
    from ..absint import Evaluator, Raised, make_obj

    sites = []
    for cname in ("StructureType", "UnionType"):
        c = ctx.cls(SER + "_composite." + cname)
        for mname in ("aggregate_bit_length_sets", "iterate_fields_with_offsets"):
            m = ctx.repo.lookup_method(c, mname)
            if m is None:
                raise AnalysisError("anchor %s.%s missing" % (cname, mname))
            sites.append((c, m))
    fa = ctx.cls(SER + "_array.FixedLengthArrayType")
    m = ctx.repo.lookup_method(fa, "enumerate_elements_with_offsets")
    if m is None:
        raise AnalysisError("anchor enumerate_elements_with_offsets missing")
    sites.append((fa, m))
    from .c02 import _layout_hook

    for c, m in sites:
        del asked[:]
        errors = []
        for ts in nested_grid():
            if c.name == "UnionType" and len(ts) < 2:
                continue
            try:
                if m.name == "aggregate_bit_length_sets":
                    explore(lambda: aggregate_term(ctx, m, ts))
                elif m.name == "iterate_fields_with_offsets":
                    fields = [Sym(data_type=t, name="f%d" % i, _isa_=frozenset({"Field", "Attribute"})) for i, t in enumerate(ts)]
                    me = make_obj(ctx, c, fields=fields, alignment_requirement=8, tag_field_type=Sym(bit_length=8, alignment_requirement=1))

                    def run() -> Any:
                        ev = Evaluator({m.params[0]: me, m.params[1]: TBls.var("BASE")}, repo, m.module, c, _layout_hook(ctx, m.module, c))
                        ev.run(body_without_docstring(ctx.inl(m)))
                        return ev.yielded

                    explore(run)
                else:
                    me = make_obj(ctx, c, element_type=ts[0], capacity=3, alignment_requirement=ts[0].alignment_requirement)

                    def run2() -> Any:
                        ev = Evaluator({m.params[0]: me, m.params[1]: TBls.var("BASE")}, repo, m.module, c, _layout_hook(ctx, m.module, c))
                        ev.run(body_without_docstring(ctx.inl(m)))
                        return ev.yielded

                    explore(run2)
                ctx.count()
            except (Unfoldable, Raised, NotLayout) as ex:
                errors.append(str(ex))
        if errors and not asked:
            raise AnalysisError("%s: cannot evaluate over abstract nested types: %s" % (m.short, errors[0]))
        ctx.check(not asked, m.short, "consults only bit_length_set / alignment_requirement of the nested types", "a container's layout may depend on a nested type only through its length set and alignment", m.where(), sorted(set(a for _, a in asked)), nontrivial=False)


def rule_r2_r3(ctx: Ctx) -> None:
    """both copies of the delimited writer / reader, from the abstract runs of the codec (sa/codec.py)"""
    from .. import codec as C
    from . import codec_common as K

    ctx.rule("C14.R2", "header = byte length of the serialized inner object (writer, both copies); payload window = 8 x header (reader, both copies)", min_instances=4)
    ctx.rule("C14.R3", "the inner object is decoded from the bounded sub-reader created from the header value, its value is the result, and nothing else is consumed from the parent in that branch", min_instances=2)
    S = K.schemas(ctx)
    where = "pydsdl/_serdes.py"
    for d in S["delimited"]:
        inner = d.inner_type
        val = K.value_for(inner) if inner._kind_ == "StructureType" else {inner.fields[0].name: "V_" + inner.fields[0].name}
        for fname, kw in (("_serialize_composite", {}), ("serialize", {"with_delimiter_header": True})):
            wr = K.only(K.writer_runs(ctx, fname, d, val, **kw), "%s of %s" % (fname, d.name))
            if wr.raised:
                raise AnalysisError("%s of %s raised %s" % (fname, d.name, wr.raised))
            writers: List[str] = []
            for ev in wr.events:
                if ev[0] == "NEW" and ev[1] not in writers:
                    writers.append(ev[1])
            outer = "w" if fname == "_serialize_composite" else getattr(wr.result, "origin", None)
            inners = [x for x in writers if x != outer]
            evs = C.normalize(wr.events, True)
            o_ev = C.of_io(evs, outer) if outer else []
            good = outer is not None and len(inners) == 1 and o_ev == [("BITS", 32, ("byte-length-of", inners[0])), ("COPY", inners[0])]
            # the inner writer received the inner type's encoding of the same value, whatever the extent
            i_ev = C.of_io(C.normalize(wr.events), inners[0]) if len(inners) == 1 else []
            alone = K.only(K.writer_runs(ctx, "_serialize_composite", inner, val), "writer of %s alone" % inner.name)
            good = good and i_ev == C.of_io(C.normalize(alone.events), "w")  # whether that encoding is the Specification's is C06's question
            ctx.count()
            ctx.check(good, "_serdes.%s[DelimitedType %s]" % (fname, d.name), C.show(o_ev), "the header announces exactly the bytes that follow, whatever the revision's extent", where, {"inner": C.show(i_ev)}, rule="C14.R2")
        for fname, kw in (("_deserialize_composite", {}), ("deserialize", {"with_delimiter_header": True})):
            runs = [r for r in K.reader_runs(ctx, fname, d, **kw) if not r.raised]
            if not runs:
                raise AnalysisError("%s of %s: no completing run" % (fname, d.name))
            bad2, bad3 = [], []
            for r in runs:
                evs = C.normalize(r.events, True)
                ios: List[str] = []
                for ev in evs:
                    if ev[0] != "REPEAT" and len(ev) > 1 and isinstance(ev[1], str) and ev[1] not in ios:
                        ios.append(ev[1])
                parent = ios[0] if ios else "?"
                p_ev = C.of_io(evs, parent)
                subs = [e for e in p_ev if e[0] == "SUB"]
                hdr = [e for e in p_ev if e[0] == "BITS"]
                ctx.count()
                ok2 = len(hdr) == 1 and hdr[0][1] == 32 and len(subs) == 1
                if ok2:
                    widths = set()
                    for h in (0, 1, 5, 255, 2**32 - 1):
                        try:
                            widths.add(C.eval_abs(C._subst_atoms(subs[0][1], {"read": h}), {}) == 8 * h)
                        except (KeyError, TypeError):
                            widths.add(False)
                    ok2 = widths == {True} and subs[0][1] != 8 and ("read", hdr[0][2]) in _atoms(subs[0][1])
                if not ok2:
                    bad2.append(C.show(p_ev))
                # R3: after the sub-reader is made the parent is not touched; everything else happens on the sub-reader; the result
                # is what the inner decoder returned
                after = p_ev[p_ev.index(subs[0]) + 1 :] if subs else ["?"]
                others = [io for io in ios if io != parent and not io.startswith(parent + "/sub")]
                sub_ev = C.of_io(C.normalize(r.events), parent + "/sub")
                idx = next((v for e, v in r.assumptions if e[0] == "index"), 0)
                alone_r = [x for x in K.reader_runs(ctx, "_deserialize_composite", inner) if not x.raised]
                if inner._kind_ == "UnionType":
                    alone_r = [x for x in alone_r if any(e[0] == "index" and v == idx for e, v in x.assumptions)]
                want_sub = C.of_io(C.normalize(alone_r[0].events), "r") if alone_r else ["?"]  # as the inner type is decoded on its own (C06 compares that with the Specification)
                keys = list(r.result) if isinstance(r.result, dict) else None
                want_keys = [f.name for f in inner.fields_except_padding] if inner._kind_ == "StructureType" else None
                ok3 = not after and not others and sub_ev == want_sub and (want_keys is None or keys == want_keys)
                if not ok3:
                    bad3.append({"parent after the window": C.show(after) if after != ["?"] else "?", "sub-reader": C.show(sub_ev), "result keys": keys})
            ctx.check(not bad2, "_serdes.%s[DelimitedType %s]" % (fname, d.name), "header, then a window of 8 x header bits", "the reader confines the nested object to 8 x header bits", where, bad2[:2], rule="C14.R2")
            ctx.check(not bad3, "_serdes.%s[DelimitedType %s]" % (fname, d.name), "inner object decoded from the window; the branch ends there", "fields unknown to the reader are skipped (the parent already moved past the object) and fields unknown to the writer read as zeros (reads beyond the limit)", where, bad3[:2], rule="C14.R3")


def _atoms(e: Any) -> set:
    out = set()
    if isinstance(e, tuple):
        if e and e[0] in ("read", "remaining", "byte-length-of"):
            out.add(e)
        for x in e:
            out |= _atoms(x)
    return out


def rule_r4(ctx: Ctx) -> None:
    """the bit reader evaluated through its public interface (bitreader_common) + closure of that interface"""
    from ..absint import Raised, construct
    from ..fold import Folder, Unfoldable
    from . import bitreader_common as BR

    repo = ctx.repo
    ctx.rule("C14.R4", "the reader's buffer contents are accessed only where the limit is enforced; the decoder talks to the reader only through members that cannot see past the limit", min_instances=2)
    rd = ctx.cls(SD + "._BitReader")
    bad = BR.run_model(ctx)
    rb = repo.lookup_method(rd, "read_bits")
    ctx.check(not bad["value"], rd.short + ".read_bits", "reads inside / across / beyond a window, nested windows, all-ones and patterned data (%d steps)" % getattr(ctx, "_bitreader_steps", 0), "every read of the buffer must honour the sub-reader's limit: bits beyond the nested object's window read as zeros, never as the container's bytes", rb.where() if rb else rd.module.relpath, bad["value"][:3])
    # closure: which members can observe the bytes?  Those outside the modelled interface are probed for leaks
    modelled = {"__init__", "read_bits", "align_to", "bounded_subreader", "remaining_bits", "bit_offset"}
    init = repo.lookup_method(rd, "__init__")
    data_fields = set()
    if init is not None:
        first = init.params[1] if len(init.params) > 1 else None
        for st in ast.walk(init.node):
            if isinstance(st, (ast.Assign, ast.AnnAssign)) and st.value is not None and first is not None and any(isinstance(x, ast.Name) and x.id == first for x in ast.walk(st.value)):
                for t in (st.targets if isinstance(st, ast.Assign) else [st.target]):
                    d = dotted(t) or ""
                    if d.startswith("self."):
                        data_fields.add(d.split(".")[1])
    if not data_fields:
        raise AnalysisError("_BitReader.__init__: the field that holds the buffer was not found")

    def observes(m: FuncInfo) -> bool:
        for n in ast.walk(m.node):
            if isinstance(n, ast.Subscript) and isinstance(n.value, ast.Attribute) and n.value.attr in data_fields and norm(n.value.value) == "self":
                return True
            if isinstance(n, ast.Call) and any(isinstance(a, ast.Attribute) and a.attr in data_fields and norm(a.value) == "self" for a in n.args) and (dotted(n.func) or "") not in ("len",) and not (isinstance(repo.resolve_expr(m.module, n.func, m.cls) if isinstance(n.func, (ast.Name, ast.Attribute)) else None, ClassInfo)):
                return True
        return False

    def external_callers(name: str) -> List[str]:
        out = []
        for fn2 in repo.all_functions().values():
            if fn2.cls is rd or fn2.name.startswith("_unittest"):
                continue
            if any(isinstance(c.func, ast.Attribute) and c.func.attr == name for c in calls_in(fn2.node, include_nested=True)) or any(isinstance(n, ast.Attribute) and n.attr == name and not isinstance(n.ctx, ast.Store) for n in ast.walk(fn2.node)):
                out.append(fn2.short)
        return out

    leaks, opaque = [], []
    observers = sorted(n for n, m in rd.methods.items() if observes(m))
    for name in observers:
        if name in modelled:
            continue
        m = rd.methods[name]
        reachable_outside = not name.startswith("_") or bool(external_callers(name))
        if not reachable_outside:
            continue  # a private step of the modelled members: its reads are what the model observes
        # probe: a window of 8 bits over all-ones data; anything the member returns beyond those 8 bits must be zero
        try:
            top = construct(ctx, rd, b"\xff\xff\xff\xff", hook=None)
            f = Folder({"r": top}, repo, rd.module, rd, None)
            f.env["s"] = f.fold(ast.parse("r.bounded_subreader(8)", mode="eval").body)
            nparams = len(m.params) - 1
            got = f.fold(ast.parse("s.%s(%s)" % (name, ", ".join(["3"] * nparams)), mode="eval").body) if not m.is_property else f.fold(ast.parse("s." + name, mode="eval").body)
        except (Raised, Unfoldable) as ex:
            opaque.append("%s (%s)" % (name, ex))
            continue
        ctx.count()
        leaked = (isinstance(got, (bytes, bytearray)) and any(b for b in bytes(got)[1:])) or (isinstance(got, int) and not isinstance(got, bool) and got >= 256) or (isinstance(got, (list, tuple)) and any(bool(x) for x in list(got)[8:]))
        if leaked:
            leaks.append({"member": name, "on a window of 8 bits over all-ones data it returns": repr(got)[:60]})
        elif not isinstance(got, (bytes, bytearray, int, list, tuple, type(None))):
            opaque.append("%s (returns %s)" % (name, type(got).__name__))
    if opaque and not leaks:
        raise AnalysisError("_BitReader: members that can observe the buffer and are outside the modelled interface could not be probed: %s" % opaque)
    ctx.check(not leaks, rd.short, "members that observe the buffer: %s" % observers, "every member that hands out buffer contents honours the window", rd.module.relpath, leaks)
    # the decoder uses the reader through its members only (no access to its private state)
    used: Dict[str, Set[str]] = {}
    for fn in repo.all_functions().values():
        if fn.module.name != "pydsdl._serdes" or fn.cls is not None:
            continue
        for n in ast.walk(fn.node):
            if isinstance(n, ast.Attribute) and isinstance(n.value, ast.Name) and n.value.id in ("reader", "sub_reader", "subreader"):
                used.setdefault(fn.short, set()).add(n.attr)
    private = {f: sorted(a for a in attrs if a.startswith("_")) for f, attrs in used.items() if any(a.startswith("_") for a in attrs)}
    ctx.check(not private and bool(used), "_serdes (decoder functions)", "reader interface used: %s" % sorted(set().union(*used.values())) if used else "?", "decoding must not bypass the limit-aware primitives", "pydsdl/_serdes.py", private)


def rule_r5(ctx: Ctx) -> None:
    """two revisions of a type compare equal when name, version and length set agree - which is exactly what a same-extent
    revision of a delimited type preserves - so nothing the codec uses may be memoised by type *equality*"""
    from .c07 import memoised_functions

    ctx.rule("C14.R5", "the codec and the type model hold no memo keyed by type equality (two revisions of an appendable type with the same extent compare equal and would share the entry)", min_instances=1)
    found = []
    mods = ["_serdes"] + sorted(m.name[len("pydsdl."):] for m in ctx.repo.modules.values() if m.name.startswith("pydsdl._serializable."))
    # every function of the codec works on schema objects: any memo there is keyed by them
    found.extend(memoised_functions(ctx, "_serdes"))
    ctx.count(len(mods))
    from . import approx_keys

    ks, scanned = approx_keys.sites(ctx, ["_serdes"])
    ctx.count(scanned)
    found.extend("%s: %s (%s)" % (k["function"], k["construct"], k["kind"]) for k in ks)
    # in the type model, the memos whose key is (or contains) a type / a length set - by the parameters' types; a memo keyed
    # by a plain string or number (e.g. a verdict about a name) identifies nothing by approximate equality
    ks2, scanned2 = approx_keys.sites(ctx, ["_serializable"])
    ctx.count(scanned2)
    found.extend("%s: %s (%s)" % (k["function"], k["construct"], k["kind"]) for k in ks2 if k["kind"].startswith("memo") or k["kind"].startswith("module-level memo"))
    found = sorted(set(found))
    ctx.check(not found, "_serdes, _serializable.*", "no equality-keyed memo (%d modules)" % len(mods), "what is (de)serialized is decided by the schema object given, not by an equal-comparing one seen earlier", "pydsdl/_serdes.py", found)


def rule_r6(ctx: Ctx) -> None:
    """a delimited field that the writer's revision does not know lies in the zero-extension zone of the reader: its header
    reads as zero with nothing remaining, which must be accepted as an empty object (and a header that does fit is never
    rejected): the guard compares the announced payload with what remains *after* the header, nothing else"""
    from . import codec_common as K
    from .c07 import delimiter_guard_table

    ctx.rule("C14.R6", "a nested delimited object whose header lies beyond the data (header 0, nothing remaining) or exactly fills it is accepted with a window of 8 x header bits; only a payload larger than what remains is rejected - at both copies of the header code", min_instances=2)
    S = K.schemas(ctx)
    for d in S["delimited"][:1]:
        for fname, kw in (("_deserialize_composite", {}), ("deserialize", {"with_delimiter_header": True})):
            runs = K.reader_runs(ctx, fname, d, **kw)
            bad = delimiter_guard_table(ctx, fname, runs, rems=(0, 8, 24, 32, 64), headers=(0, 1, 3, 4, 8))
            ctx.check(not bad, "_serdes.%s[DelimitedType]" % fname, "zero-extended and exactly fitting delimiter headers are accepted", "fields unknown to the writer read as zero / empty - also when the unknown field is itself delimited: its header is read from the implicit zeros", "pydsdl/_serdes.py", bad[:4])


def rule_r7_concrete(ctx: Ctx) -> None:
    """R1-R4 decide the layout terms and the reader's window accounting over abstract schemas.  Here two revisions of an
    appendable type are built concretely (real constructors, real length sets, real codec - all evaluated from the source), put
    into the same containers (field, array element, union variant, nested delimited), and data written with one revision is
    read with the other."""
    from . import concrete as C
    from .c06 import _same

    ctx.rule("C14.R7", "two revisions D / D' of a delimited type with the same extent (D' appends fields), nested as field, array element, union variant and inside another delimited type: the containers' bit_length_set and extent are equal, and data serialized with either revision deserializes with the other - common fields keep their values, appended ones read as zero / empty, unknown ones are skipped, and everything after the nested object (further elements, following fields) is read correctly [bounded grid, evaluated from the source]", min_instances=12)
    T = C.Types(ctx)
    u8, u16 = T.uint(8), T.uint(16, True)
    inner = T.struct("Inner {uint8 q}", [("q", u8)])
    inner5 = T.struct("Inner5 {uint5 r}", [("r", T.uint(5))])
    n = 0
    # two families of revisions: byte-sized leading fields; and leading fields that make the reader skip alignment padding
    # inside the payload (a bool before a nested composite, a nested composite whose size is not a whole number of bytes)
    families = [
        ("D", [("a", u8), ("b", T.varr(u8, 2))], [("c", u16, 0), ("d", T.varr(u16, 2), []), ("e", T.boolean(), False)],
         [{"a": 1, "b": [2], "c": 0x1234, "d": [7, 8], "e": True}, {"a": 3, "b": [], "c": 5, "d": [], "e": False}, {"a": 9, "b": [8, 7], "c": 65535, "d": [1], "e": True}]),
        ("G", [("valid", T.boolean()), ("n", inner), ("m", inner5)], [("c", u16, 0), ("f", T.uint(7), 0), ("d", T.varr(u8, 2), [])],
         [{"valid": True, "n": {"q": 0xFF}, "m": {"r": 31}, "c": 0xFFFF, "f": 127, "d": [255, 255]}, {"valid": False, "n": {"q": 1}, "m": {"r": 0}, "c": 1, "f": 1, "d": []}, {"valid": True, "n": {"q": 0x80}, "m": {"r": 17}, "c": 0x8001, "f": 64, "d": [128]}]),
    ]
    # a third family: the appended fields include one that is itself delimited (its header lies in the zero-extension region
    # when an older, shorter payload is read) and a variable-length array of composites
    nested_d = T.delimited(T.struct("Nd {uint8 q}", [("q", u8)]), 64)
    families.append(
        ("H", [("a", u8), ("flag", T.boolean())], [("nd", nested_d, {"q": 0}), ("arr", T.varr(inner, 2), []), ("tail", u8, 0)],
         [{"a": 1, "flag": True, "nd": {"q": 7}, "arr": [{"q": 1}], "tail": 0xFF}, {"a": 255, "flag": False, "nd": {"q": 0}, "arr": [], "tail": 0}, {"a": 0x80, "flag": True, "nd": {"q": 255}, "arr": [{"q": 255}, {"q": 1}], "tail": 0x7F}])
    )
    for fam, old_fields, appended, samples in families:
        n += _revisions(ctx, T, C, fam, old_fields, appended, samples, 256 if fam == "H" else 128)
    ctx.count(n)


def _revisions(ctx: Ctx, T: Any, C: Any, fam: str, old_fields: List[Any], appended: List[Any], samples: List[Dict[str, Any]], extent: int = 128) -> int:
    from .c06 import _same

    u8, u16 = T.uint(8), T.uint(16, True)
    new_fields = old_fields + [(nm, t) for nm, t, _ in appended]
    zero = {nm: z for nm, _, z in appended}
    d_old = T.delimited(T.struct("%s {%s}" % (fam, "; ".join(nm for nm, _ in old_fields)), old_fields), extent)
    d_new = T.delimited(T.struct("%s' {%s}" % (fam, "; ".join(nm for nm, _ in new_fields)), new_fields), extent)

    def containers(d: Any) -> List[Any]:
        st = T.struct("C {uint3 x; %s one; uint8 y; %s[<=3] many; %s[2] pair; uint8 z}" % (fam, fam, fam), [("x", T.uint(3)), ("one", d), ("y", u8), ("many", T.varr(d, 3)), ("pair", T.farr(d, 2)), ("z", u8)])
        un = T.union("V {uint8 k; %s v; uint16 w}" % fam, [("k", u8), ("v", d), ("w", u16)])
        outer = T.delimited(T.struct("O {%s first; V u; uint8 last}" % fam, [("first", d), ("u", un), ("last", u8)]), 2048)
        return [st, un, outer, d]

    olds, news = containers(d_old), containers(d_new)
    old_names = [nm for nm, _ in old_fields]

    def blank(v: Any) -> Any:
        """what a reader of the new revision sees of an object written by the old one"""
        out = {k: v[k] for k in old_names}
        out.update({k: (list(z) if isinstance(z, list) else dict(z) if isinstance(z, dict) else z) for k, z in zero.items()})
        return out

    def strip(v: Any) -> Any:
        return {k: v[k] for k in old_names}

    def convert(v: Any, f: Any, t_from: Any) -> Any:
        """the value v of container type t_from with every object of the family mapped by f"""
        if t_from.kind == "delimited" and t_from.inner is not None and t_from.inner.label.startswith(fam):
            return f(v)
        if t_from.kind == "delimited":
            return convert(v, f, t_from.inner)
        if t_from.kind == "struct":
            return {nm: convert(v[nm], f, ft) for nm, ft in t_from.fields if nm}
        if t_from.kind == "union":
            (nm, x), = v.items()
            return {nm: convert(x, f, dict(t_from.fields)[nm])}
        if t_from.kind in ("farr", "varr"):
            return [convert(x, f, t_from.elem) for x in v]
        return v

    n1, n2, n3 = samples
    values_new = {
        0: [{"x": 5, "one": n1, "y": 0xAA, "many": [n2, n3, n1], "pair": [n3, n2], "z": 0x55}, {"x": 1, "one": n2, "y": 0xFF, "many": [], "pair": [n1, n1], "z": 0xFF}, {"x": 7, "one": n3, "y": 0xFF, "many": [n1, n1], "pair": [n1, n3], "z": 0xFF}],
        1: [{"v": n1}, {"k": 7}, {"w": 300}],
        2: [{"first": n3, "u": {"v": n1}, "last": 0x77}, {"first": n2, "u": {"k": 255}, "last": 0xFF}, {"first": n1, "u": {"v": n3}, "last": 0xFF}],
        3: [n1, n2],
    }
    n = 0
    for i, (t_old, t_new) in enumerate(zip(olds, news)):
        bad = []
        same_layout = _eval_layout(ctx, T, t_old) == _eval_layout(ctx, T, t_new)
        if not same_layout:
            bad.append({"layout": "bit_length_set / extent of the container differ between the revisions", "old": repr(_eval_layout(ctx, T, t_old))[:120], "new": repr(_eval_layout(ctx, T, t_new))[:120]})
        for v_new in values_new[i]:
            v_old = convert(v_new, strip, t_new)
            for hdr in ((False, True) if t_new.kind == "delimited" else (False,)):
                # written by the new revision, read by the old one: the appended fields are skipped
                data = C.run_codec(ctx, T, "serialize", t_new, v_new, hdr)
                got = C.run_codec(ctx, T, "deserialize", t_old, bytes(data), hdr) if isinstance(data, (bytes, bytearray)) else data
                want = C.decode(t_old, C.encode(t_new, v_new, hdr), hdr)
                n += 2
                if not (_same(got, want) and (_same(want, v_old) or (i == 3 and not hdr))):
                    bad.append({"written with": fam + "'", "read with": fam, "value": repr(v_new)[:100], "found": repr(got)[:160], "expected": repr(v_old)[:160]})
                # written by the old revision, read by the new one: the appended fields read as zero / empty
                data = C.run_codec(ctx, T, "serialize", t_old, v_old, hdr)
                got = C.run_codec(ctx, T, "deserialize", t_new, bytes(data), hdr) if isinstance(data, (bytes, bytearray)) else data
                want2 = convert(v_old, blank, t_old)
                n += 2
                if not _same(got, want2):
                    bad.append({"written with": fam, "read with": fam + "'", "value": repr(v_old)[:100], "found": repr(got)[:160], "expected": repr(want2)[:160]})
        ctx.check(not bad, t_new.label, "%d values x both directions" % len(values_new[i]), "revisions of an appendable type are interchangeable inside their containers: layout unchanged, common fields kept, appended fields zero / skipped, whatever follows read correctly", "pydsdl/_serdes.py", bad[:3])
    return n


def _eval_layout(ctx: Ctx, T: Any, t: Any) -> Any:
    """(sorted bit lengths, extent) of a concrete type, evaluated from the source"""
    from ..absint import Raised
    from ..fold import Folder, Unfoldable

    try:
        f = Folder({"x": t.obj}, ctx.repo, T.prim.module, None, T.hook_for(T.prim))
        return (sorted(f.fold(ast.parse("set(x.bit_length_set)", mode="eval").body)), f.fold(ast.parse("x.extent", mode="eval").body))
    except (Raised, Unfoldable) as ex:
        raise AnalysisError("the layout of %s cannot be evaluated from the source: %s" % (t.label, ex))


def run(ctx: Ctx) -> None:
    ctx.attempt(rule_r6, ctx)
    ctx.attempt(rule_r1, ctx)
    ctx.attempt(rule_r2_r3, ctx)
    ctx.attempt(rule_r4, ctx)
    ctx.attempt(rule_r5, ctx)
    ctx.attempt(rule_r7_concrete, ctx)
    ctx.assume("offset accounting of read_bits / bounded_subreader (C07.R3, C07.R5) and the composite alignment of 8 (C02.R4)")
    ctx.undecided("field-value preservation across revisions for all pairs and values (numerical)")
