"""
C09 -- Versioned references resolve to exactly the named definition or fail cleanly.

R1  match predicate (case-insensitive full name AND exact version, over the lookup list) and the outcome table over
    (#matches in {0, 1, >=2}, exact-case): 0 -> UndefinedDataTypeError, >=2 -> DataTypeCollisionError,
    (1, differs by case) -> DataTypeNameCollisionError, (1, exact) -> read exactly that definition.
R2  relative names are completed with the referrer's own namespace.
R3  self-exclusion and termination: the definition being read is removed (by identity of name+version) from the lookup
    list it hands to its builder, and the builder passes that same list on: the lookup list strictly shrinks along any
    reference chain, so a cycle ends in UndefinedDataTypeError instead of recursing forever.
R4  cache discipline: the composite is cached once, after finalize() returned, outside any handler; a hit returns it
    untouched; one definition object per file.
"""
from __future__ import annotations

import ast
from typing import Any, Dict, List, Optional, Set, Tuple

from ..core import AnalysisError, ClassInfo, Ctx, FuncInfo, body_without_docstring, calls_in, dotted, kwarg, norm, walk_no_nested
from ..decide import A, f_and, f_atoms, f_eval, f_not, path_formula, paths_of, valuations
from ..regions import exc_class_of

IDE = "_error.InvalidDefinitionError"


def rule_r1_r2(ctx: Ctx) -> None:
    repo = ctx.repo
    ctx.rule("C09.R1", "reference resolution: filter = (case-insensitive full name) and (exact version) over the lookup list; outcome table over match count and letter case", min_instances=3)
    fn = ctx.func("_data_type_builder.DataTypeBuilder.resolve_versioned_data_type")
    name_p, ver_p = fn.params[1], fn.params[2]
    # the filter
    fdefs = [st for st in walk_no_nested(fn.node) if isinstance(st, ast.Assign) and norm(st.targets[0]) == "found"]
    good = len(fdefs) == 1
    pred = None
    src = None
    if good:
        v = fdefs[0].value
        inner = v.args[0] if isinstance(v, ast.Call) and dotted(v.func) == "list" and v.args else v
        if isinstance(inner, ast.Call) and dotted(inner.func) == "filter" and len(inner.args) == 2 and isinstance(inner.args[0], ast.Lambda):
            pred, src = inner.args[0], norm(inner.args[1])
        elif isinstance(inner, ast.ListComp) and len(inner.generators) == 1 and len(inner.generators[0].ifs) == 1:
            g = inner.generators[0]
            pred = ast.Lambda(args=ast.arguments(posonlyargs=[], args=[ast.arg(arg=norm(g.target))], kwonlyargs=[], kw_defaults=[], defaults=[]), body=g.ifs[0])
            src = norm(g.iter)
    conj: Set[str] = set()
    if pred is not None:
        d = pred.args.args[0].arg
        body = pred.body
        terms = body.values if isinstance(body, ast.BoolOp) and isinstance(body.op, ast.And) else [body]
        for t in terms:
            s = norm(t)
            if s in ("%s.full_name.lower() == full_name.lower()" % d, "full_name.lower() == %s.full_name.lower()" % d):
                conj.add("NAME_CI_EQ")
            elif s in ("%s.version == %s" % (d, ver_p), "%s == %s.version" % (ver_p, d)):
                conj.add("VERSION_EQ")
            elif s in ("%s.version.major == %s.major" % (d, ver_p), "%s.version[0] == %s[0]" % (d, ver_p)):
                conj.add("MAJOR_EQ")
            elif s in ("%s.version.minor == %s.minor" % (d, ver_p), "%s.version[1] == %s[1]" % (d, ver_p)):
                conj.add("MINOR_EQ")
            elif s in ("%s.full_name == full_name" % d,):
                conj.add("NAME_EQ")
            else:
                conj.add("?" + s)
    if {"MAJOR_EQ", "MINOR_EQ"} <= conj:
        conj -= {"MAJOR_EQ", "MINOR_EQ"}
        conj.add("VERSION_EQ")
    ctx.check(conj == {"NAME_CI_EQ", "VERSION_EQ"} and src == "self._lookup_definitions", fn.short, "filter: %s over %s" % (sorted(conj), src), "a reference matches definitions with the same full name (ignoring case) and exactly the same version, among the lookup definitions", fn.where(fdefs[0]) if fdefs else fn.where())

    # outcome table
    paths = paths_of(fn.node, opaque=["found", "full_name", "target_definition", "dt", "lookup_nss", "requested_ns", "subroot_ns", "error_description"])

    def atom(e: Any) -> Any:
        if isinstance(e, tuple):
            if e[0] == "for":
                return A("LOOP:" + str(e[1]))
            raise AnalysisError("resolve_versioned_data_type: unexpected marker %s" % e[0])
        s = norm(e)
        table = {
            "found": f_not(A("N0")),
            "len(found) == 0": A("N0"),
            "len(found) > 1": A("N2"),
            "len(found) >= 2": A("N2"),
            "found[0].full_name != found[1].full_name": A("CASE2"),
            "found[0].full_name.lower() == found[1].full_name.lower()": True,
            "found[0].full_name != full_name": f_not(A("EXACT")),
            "found[0].full_name.lower() == full_name.lower()": True,
            "_serializable.CompositeType.NAME_COMPONENT_SEPARATOR in %s" % name_p: A("HAS_SEP"),
        }
        if s in table:
            return table[s]
        return A("FREE:" + s)  # conditions that only shape the error message

    forms = [(p, path_formula(p, atom)) for p in paths]
    free = sorted({a for _, f in forms for a in f_atoms(f) if a.startswith("FREE:") or a.startswith("LOOP:")})
    atoms = ["N0", "N2", "CASE2", "EXACT", "HAS_SEP"] + free
    bad = []
    n = 0
    for v in valuations(atoms, lambda v: not (v["N0"] and v["N2"])):
        taken = [p for p, f in forms if f_eval(f, v)]
        n += 1
        if len(taken) != 1:
            raise AnalysisError("resolve_versioned_data_type: %d feasible paths for %s" % (len(taken), {k: v[k] for k in atoms[:5]}))
        p = taken[0]
        k = exc_class_of(repo, fn.module, fn.cls, p.value) if p.kind == "raise" else None
        kname = k.name if isinstance(k, ClassInfo) else None
        is_ide = isinstance(k, ClassInfo) and repo.is_subclass(k, IDE)
        if v["N0"]:
            ok = p.kind == "raise" and kname == "UndefinedDataTypeError" and is_ide
        elif v["N2"]:
            ok = p.kind == "raise" and isinstance(k, ClassInfo) and repo.is_subclass(k, ctx.cls("_data_type_builder.DataTypeCollisionError")) and is_ide
        elif not v["EXACT"]:
            ok = p.kind == "raise" and kname == "DataTypeNameCollisionError" and is_ide
        else:
            ok = p.kind == "return" and norm(p.value) == "dt"
        if not ok:
            bad.append({"matches": 0 if v["N0"] else 2 if v["N2"] else 1, "exact_case": v["EXACT"], "found": "%s %s" % (p.kind, kname or (norm(p.value) if p.value is not None else ""))})
    ctx.count(n)
    ctx.check(not bad, fn.short, "outcome table", "no match -> undefined type; several -> collision; one differing by letter case -> name collision; exactly one -> that definition is read", fn.where(), bad[:4])
    # what is read is found[0], with the builder's own lookup list and settings
    reads = [c for c in calls_in(fn.node) if isinstance(c.func, ast.Attribute) and c.func.attr == "read"]
    good = len(reads) == 1
    if good:
        c = reads[0]
        recv = norm(c.func.value)
        tdef = [norm(st.value) for st in walk_no_nested(fn.node) if isinstance(st, ast.Assign) and norm(st.targets[0]) == recv]
        kws = {k.arg: norm(k.value) for k in c.keywords}
        good = tdef == ["found[0]"] and kws.get("lookup_definitions") == "self._lookup_definitions" and kws.get("allow_unregulated_fixed_port_id") == "self._allow_unregulated_fixed_port_id" and kws.get("definition_visitors") == "self._definition_visitors"
        assigned = [norm(st.targets[0]) for st in walk_no_nested(fn.node) if isinstance(st, ast.Assign) and st.value is c]
        good = good and assigned == ["dt"]
    ctx.check(good, fn.short, "dt = found[0].read(lookup_definitions=self._lookup_definitions, ...)", "the single match is read with the referrer's lookup list and settings, and its type is the result", fn.where())

    ctx.rule("C09.R2", "a name without a namespace separator is completed with the referring definition's full namespace", min_instances=1)
    env_ok = []
    for p in paths_of(fn.node, opaque=["found", "target_definition", "dt"]):
        fnm = p.env.get("full_name")
        has_sep = None
        for c, pol in p.conds:
            if not isinstance(c, tuple) and norm(c) == "_serializable.CompositeType.NAME_COMPONENT_SEPARATOR in %s" % name_p:
                has_sep = pol
        if fnm is None or has_sep is None:
            continue
        want = name_p if has_sep else "_serializable.CompositeType.NAME_COMPONENT_SEPARATOR.join([self._definition.full_namespace, %s])" % name_p
        env_ok.append(norm(fnm) == want)
    ctx.check(bool(env_ok) and all(env_ok), fn.short, "full_name = name | <own full namespace>.name", "relative references are resolved in the referring definition's own namespace", fn.where())
    b = ctx.cls("_data_type_builder.DataTypeBuilder")
    init = b.methods["__init__"]
    stores = {norm(st.targets[0]): norm(st.value) for st in walk_no_nested(init.node) if isinstance(st, ast.Assign) and len(st.targets) == 1}
    ctx.check(stores.get("self._definition") == "definition" and stores.get("self._lookup_definitions") == "list(lookup_definitions)", init.short, "definition / lookup list stored as given", "the builder resolves against exactly the list it was given", init.where(), nontrivial=False)


def rule_r3(ctx: Ctx) -> None:
    ctx.rule("C09.R3", "self-exclusion: read() filters itself (by name+version equality) out of the lookup list before building, hands exactly that list to the builder; the builder forwards the same list", min_instances=2)
    rd = ctx.func("_dsdl_definition.DSDLDefinition.read")
    lp = rd.params[1]
    filt = [st for st in walk_no_nested(rd.node) if isinstance(st, ast.Assign) and norm(st.targets[0]) == lp]
    good = len(filt) == 1
    detail = None
    if good:
        v = filt[0].value
        inner = v.args[0] if isinstance(v, ast.Call) and dotted(v.func) == "list" and v.args else v
        pred_s = src = None
        if isinstance(inner, ast.Call) and dotted(inner.func) == "filter" and isinstance(inner.args[0], ast.Lambda):
            d = inner.args[0].args.args[0].arg
            pred_s, src = norm(inner.args[0].body).replace(d, "d"), norm(inner.args[1])
        elif isinstance(inner, ast.ListComp) and len(inner.generators) == 1 and len(inner.generators[0].ifs) == 1:
            d = norm(inner.generators[0].target)
            pred_s, src = norm(inner.generators[0].ifs[0]).replace(d, "d"), norm(inner.generators[0].iter)
        detail = {"predicate": pred_s, "source": src}
        good = pred_s in ("d != self", "self != d", "not d == self", "not self == d") and src == lp
    ctx.check(good, rd.short, "lookup list minus self: %s" % (detail or {}).get("predicate"), "the definition being read must not be able to resolve a reference to itself (equality is by full name and version, so a same-named twin in another directory is excluded too)", rd.where(filt[0]) if filt else rd.where(), detail)
    # equality is by name and version
    eq = ctx.func("_dsdl_definition.DSDLDefinition.__eq__")
    rets = [norm(r.value) for r in walk_no_nested(eq.node) if isinstance(r, ast.Return) and norm(r.value) != "NotImplemented"]
    ctx.check(rets == ["self.full_name == other.full_name and self.version == other.version"], eq.short, str(rets), "definitions are identified by full name and version", eq.where(), nontrivial=False)
    # the filtered list is what the builder receives; the filter precedes the builder
    builders = [c for c in calls_in(rd.node) if (dotted(c.func) or "").endswith("DataTypeBuilder")]
    good = len(builders) == 1 and norm(kwarg(builders[0], "lookup_definitions", 1)) == lp and norm(kwarg(builders[0], "definition", 0)) == "self" and bool(filt) and filt[0].lineno < builders[0].lineno
    ctx.check(good, rd.short, "DataTypeBuilder(definition=self, lookup_definitions=<filtered list>)", "the builder works on the list from which the current definition has been removed: the list shrinks along every reference chain (termination)", rd.where())


def rule_r4(ctx: Ctx) -> None:
    ctx.rule("C09.R4", "cache discipline: single non-None store of the cached type, from finalize(), outside handlers; a hit returns it; one definition object per file path", min_instances=3)
    c = ctx.cls("_dsdl_definition.DSDLDefinition")
    stores = []
    for name, fn in c.methods.items():
        for st in ast.walk(fn.node):
            if isinstance(st, (ast.Assign, ast.AnnAssign)):
                t = st.targets[0] if isinstance(st, ast.Assign) else st.target
                if norm(t) == "self._cached_type" and st.value is not None:
                    in_handler = False
                    for tr in ast.walk(fn.node):
                        if isinstance(tr, ast.Try):
                            for h in tr.handlers:
                                if any(x is st for x in ast.walk(h)):
                                    in_handler = True
                    stores.append((name, norm(st.value), in_handler))
    want = [("__init__", "None", False), ("read", "builder.finalize()", False)]
    ctx.check(sorted(stores) == sorted(want), c.short, "stores: %s" % stores, "the cached composite is set exactly once per definition object, to the finished type", c.module.relpath)
    rd = c.methods["read"]
    body = body_without_docstring(rd.node)
    hit = None
    for i, st in enumerate(body):
        if isinstance(st, ast.If) and norm(st.test) == "self._cached_type is not None":
            rets = [r for r in st.body if isinstance(r, ast.Return)]
            if rets and norm(rets[0].value) == "self._cached_type":
                hit = i
    first_effect = next((i for i, st in enumerate(body) if any(isinstance(x, ast.Call) and (dotted(x.func) or "").endswith(("DataTypeBuilder", "parse")) for x in ast.walk(st))), len(body))
    ctx.check(hit is not None and hit < first_effect, rd.short, "cache hit returns the cached type before any parsing", "a definition is evaluated once; later reads return the same object", rd.where())
    acc = c.methods.get("composite_type")
    from ..regions import trivial_property_expr

    e = trivial_property_expr(ctx.repo, c, "composite_type")
    ctx.check(e is not None and norm(e) == "self._cached_type", c.short + ".composite_type", norm(e) if e is not None else "?", "the accessor exposes the cache", c.module.relpath, nontrivial=False)
    nsr = ctx.func("_namespace_reader._read_definitions")
    pool = [norm(st.value) for st in walk_no_nested(nsr.node) if isinstance(st, ast.Assign) and isinstance(st.value, ast.Call) and norm(st.value.func) == "file_pool.setdefault"]
    ctx.check(len(pool) == 1 and pool[0].startswith("file_pool.setdefault(") and ".file_path, " in pool[0], nsr.short, str(pool), "one definition object (and therefore one cached type) per file path", nsr.where())


def run(ctx: Ctx) -> None:
    ctx.attempt(rule_r1_r2, ctx)
    ctx.attempt(rule_r3, ctx)
    ctx.attempt(rule_r4, ctx)
    ctx.assume("the lookup list handed to the builder is finite; equality of DSDLDefinition is by (full name, version)")
    ctx.undecided("equality of the nested type with a stand-alone read for all graphs and visiting orders (depends on run-time lookup contents)")
