"""
C09 -- Versioned references resolve to exactly the named definition or fail cleanly.

The resolver, DSDLDefinition.read and the namespace reader are *abstractly evaluated* from their source over a small
world of abstract definition files (reader_common); what is compared are observations: which definition was read, with
which arguments, what came back, which error.

R1  outcome table of reference resolution over (#matches in {0, 1, >=2}) x (letter case exact / differs): 0 ->
    UndefinedDataTypeError; several -> DataTypeCollisionError; one differing by case -> DataTypeNameCollisionError; exactly
    one -> that definition, and only that one, is read - with the referrer's lookup list, visitors and settings - and its type
    is the result; the visitors are told.
R2  a name without a namespace separator is completed with the referring definition's own namespace.
R3  self-exclusion and termination: read() hands its builder the lookup list minus everything equal to itself (name and
    version, so a same-named twin elsewhere goes too); a self-reference therefore ends in UndefinedDataTypeError.
R4  cache discipline: a definition is built once; later reads return the same object without touching the file, the
    parser or the builder; the namespace reader keeps one definition object per file path.
"""
from __future__ import annotations

from typing import Any, Dict, List, Optional

from ..core import AnalysisError, Ctx
from . import reader_common as R

IDE = "_error.InvalidDefinitionError"


def _is_ide(ctx: Ctx, name: Optional[str]) -> bool:
    k = next((c for c in ctx.repo.all_classes().values() if c.name == name), None)
    return k is not None and ctx.repo.is_subclass(k, IDE)


def _is_sub(ctx: Ctx, name: Optional[str], base: str) -> bool:
    """the error raised is the expected class or a more specific one"""
    k = next((c for c in ctx.repo.all_classes().values() if c.name == name), None)
    b = next((c for c in ctx.repo.all_classes().values() if c.name == base), None)
    return k is not None and b is not None and ctx.repo.is_subclass(k, b)


def rule_r1_r2(ctx: Ctx) -> None:
    ctx.rule("C09.R1", "reference resolution: outcome table over match count and letter case; the single match - and nothing else - is read with the referrer's lookup list and settings, and its type is the result", min_instances=3)
    fn = ctx.func("_data_type_builder.DataTypeBuilder.resolve_versioned_data_type")
    w = R.World()
    A = R.ADef(w, "ns.sub.A", 1, 0)
    B10 = R.ADef(w, "ns.sub.B", 1, 0)
    B11 = R.ADef(w, "ns.sub.B", 1, 1)
    B20 = R.ADef(w, "ns.sub.B", 2, 0)
    Bdup = R.ADef(w, "ns.sub.B", 1, 1, root="/elsewhere")  # a second file with the same name and version
    Blow = R.ADef(w, "ns.sub.b", 2, 0, root="/elsewhere")  # differs from B.2.0 by letter case only
    O = R.ADef(w, "other.B", 1, 0)
    cases = [
        # (reference, version, lookup list, expected error or the definition expected to be read)
        ("ns.sub.B", (1, 0), [A, B10, B11, B20, O], B10),
        ("ns.sub.B", (2, 0), [A, B10, B11, B20, O], B20),
        ("ns.sub.B", (1, 1), [B11, A, O], B11),
        ("other.B", (1, 0), [A, B10, O], O),
        ("ns.sub.B", (1, 2), [A, B10, B11, B20, O], "UndefinedDataTypeError"),
        ("ns.sub.C", (1, 0), [A, B10, B11, B20, O], "UndefinedDataTypeError"),
        ("ns.sub.B", (1, 0), [], "UndefinedDataTypeError"),
        ("ns.sub.B", (1, 1), [A, B11, Bdup], "DataTypeCollisionError"),
        ("ns.sub.B", (2, 0), [A, B20, Blow], "DataTypeCollisionError"),
        ("ns.sub.b", (1, 0), [A, B10, B11], "DataTypeNameCollisionError"),
        ("NS.SUB.B", (1, 1), [A, B10, B11], "DataTypeNameCollisionError"),
        ("ns.SUB.B", (1, 1), [A, B10, B11], "DataTypeNameCollisionError"),
        ("Ns.sub.B", (1, 0), [A, B10, B11], "DataTypeNameCollisionError"),
        ("ns.sub.b", (2, 0), [A, Blow], Blow),
    ]
    bad_table, bad_read, bad_vis, bad_cls = [], [], [], []
    for case_no, (ref, ver, lookups, want) in enumerate(cases):
        del w.log[:]
        for d in w.defs:
            d.__dict__["composite_type"] = None
        vis = R.VisitorLog()
        allow_here = case_no % 2 == 0  # both settings of the port-ID policy occur among the cases (also across root namespaces)
        o = R.resolve(ctx, A, lookups, ref, ver[0], ver[1], visitors=[vis], allow_unregulated=allow_here)
        ctx.count()
        label = "%s.%d.%d among %s" % (ref, ver[0], ver[1], [d.label for d in lookups])
        if isinstance(want, str):
            if not _is_sub(ctx, o["raised"], want):
                bad_table.append({"reference": label, "found": o["raised"] or "resolved to %s" % getattr(o["result"], "label", o["result"]), "expected": want})
            elif not _is_ide(ctx, o["raised"]):
                bad_cls.append(o["raised"])
            if w.reads() or w.texts():
                bad_read.append({"reference": label, "read although the reference failed": w.reads() + w.texts()})
            continue
        if o["raised"] or getattr(o["result"], "label", None) != want.label:
            bad_table.append({"reference": label, "found": o["raised"] or getattr(o["result"], "label", o["result"]), "expected": want.label})
            continue
        reads = [e for e in w.log if e[0] == "read"]
        others = [e for e in w.log if e[0] in ("text", "other")]
        ok = len(reads) == 1 and reads[0][1] is want and not others
        if ok:
            _, _, lk, vs, handler, allow, kw = reads[0]
            ok = [id(x) for x in lk] == [id(x) for x in lookups] and list(vs) == [vis] and handler is o["handler"] and allow is allow_here
        if not ok:
            bad_read.append({"reference": label, "reads": [e[1].label for e in reads], "other accesses": [(e[1].label, e[0]) for e in others]})
        if [(a is A, b is want) for a, b in vis.calls] != [(True, True)]:
            bad_vis.append({"reference": label, "visitor calls": [(getattr(a, "label", a), getattr(b, "label", b)) for a, b in vis.calls]})
    # the outcome does not depend on what has been read before: with the exactly-named candidate already read (its type
    # cached) a duplicate or a letter-case twin is still a collision, and a unique candidate still resolves to itself
    from ..fold import Sym as _Sym

    for ref, ver, lookups, want in cases:
        exact = [d for d in lookups if d.full_name == ref and tuple(d.version) == tuple(ver)]
        if not exact:
            continue
        del w.log[:]
        for d in w.defs:
            d.__dict__["composite_type"] = None
        done = _Sym(_kind_="StructureType", _isa_=frozenset({"CompositeType", "StructureType", "SerializableType"}), label=exact[0].label)
        exact[0].__dict__["composite_type"] = done
        o = R.resolve(ctx, A, lookups, ref, ver[0], ver[1])
        ctx.count()
        label = "%s.%d.%d among %s, %s already read" % (ref, ver[0], ver[1], [d.label for d in lookups], exact[0].label)
        if isinstance(want, str):
            if not _is_sub(ctx, o["raised"], want):
                bad_table.append({"reference": label, "found": o["raised"] or "resolved to %s" % getattr(o["result"], "label", o["result"]), "expected": want})
        elif o["raised"] or getattr(o["result"], "label", None) != want.label:
            bad_table.append({"reference": label, "found": o["raised"] or getattr(o["result"], "label", o["result"]), "expected": want.label})
    for d in w.defs:
        d.__dict__["composite_type"] = None
    ctx.check(not bad_table, fn.short, "outcome table", "no match -> undefined type; several -> collision; one differing by letter case -> name collision; exactly one -> that definition is read", fn.where(), bad_table[:4])
    ctx.check(not bad_cls, fn.short, "rejection class", "failed references are InvalidDefinitionError subclasses", fn.where(), sorted(set(bad_cls)), nontrivial=False)
    ctx.check(not bad_read, fn.short, "the single match is read, with the referrer's lookup list, visitors, handler and settings", "the single match - and nothing else - is read with the referrer's lookup list and settings, and its type is the result", fn.where(), bad_read[:3])
    ctx.check(not bad_vis, fn.short, "visitors are told (referrer, dependency)", "dependency discovery relies on the visitors being told about every resolved reference", fn.where(), bad_vis[:3], nontrivial=False)

    # the outcome of a reference does not depend on what the same builder resolved before it
    seq = [("ns.sub.B", 1, 0), ("ns.sub.b", 1, 0), ("NS.sub.B", 1, 0), ("ns.sub.B", 1, 0), ("ns.sub.B", 1, 1), ("ns.sub.C", 1, 0)]
    for d in w.defs:
        d.__dict__["composite_type"] = None
    got_seq = R.resolve_sequence(ctx, A, [A, B10, B11, O], seq)
    ctx.count(len(seq))
    want_seq = [B10.label, "DataTypeNameCollisionError", "DataTypeNameCollisionError", B10.label, B11.label, "UndefinedDataTypeError"]
    ctx.check(got_seq == want_seq, fn.short, "a sequence of references on one builder: %s" % got_seq, "every reference is judged on its own: an earlier, correctly spelled reference must not make a later, wrongly cased one succeed", fn.where(), {"expected": want_seq})

    ctx.rule("C09.R2", "a name without a namespace separator is completed with the referring definition's full namespace", min_instances=1)
    bad = []
    X = R.ADef(w, "ns.B", 1, 0)
    Y = R.ADef(w, "B", 1, 0, root="/rootless")
    Bns = R.ADef(w, "ns.SUB.B", 1, 0, root="/elsewhere")  # the *namespace* differs from the referrer's by letter case only
    Bns2 = R.ADef(w, "NS.sub.B", 1, 0, root="/elsewhere2")
    rel_cases = (
        ("B", [A, B10, X, O], B10),
        ("B", [A, X, O], "UndefinedDataTypeError"),
        ("sub.B", [A, B10], "UndefinedDataTypeError"),
        # letter case, relative references: the completed full name is what must match exactly - in the short name and in
        # every namespace component
        ("b", [A, B10, O], "DataTypeNameCollisionError"),
        ("B", [A, Bns, O], "DataTypeNameCollisionError"),
        ("B", [A, Bns2, X], "DataTypeNameCollisionError"),
        ("B", [A, Bns, B10], "DataTypeCollisionError"),
    )
    for ref, lookups, want in rel_cases:
        del w.log[:]
        for d in w.defs:
            d.__dict__["composite_type"] = None
        o = R.resolve(ctx, A, lookups, ref, 1, 0)
        ctx.count()
        got = o["raised"] or getattr(o["result"], "label", o["result"])
        if isinstance(want, str) and o["raised"] and _is_sub(ctx, o["raised"], want):
            continue
        if got != (want if isinstance(want, str) else want.label):
            bad.append({"reference": ref, "referrer": A.label, "lookup": [d.label for d in lookups], "found": got, "expected": want if isinstance(want, str) else want.label})
    # referrers whose short name occurs earlier in their own full name (a namespace spelled like, or containing, the short
    # name; a one-letter name): the referrer's namespace is everything before the *last* component
    for ref_name, sibling, decoy in (("ns.Status.Status", "ns.Status.Code", "ns.Code"), ("ns.AB.A", "ns.AB.Code", "ns.Code"), ("ns.s.s", "ns.s.Code", "nCode"), ("ns.a.a.a", "ns.a.a.Code", "ns.a.Code"), ("ns.XStatus.Status", "ns.XStatus.Code", "ns.XCode")):
        S = R.ADef(w, ref_name, 1, 0)
        sib = R.ADef(w, sibling, 1, 0)
        dec = R.ADef(w, decoy, 1, 0) if "." in decoy else None
        for lookups, want in (([S, sib] + ([dec] if dec else []), sib), ([S] + ([dec] if dec else []), "UndefinedDataTypeError")):
            del w.log[:]
            for d in w.defs:
                d.__dict__["composite_type"] = None
            o = R.resolve(ctx, S, lookups, "Code", 1, 0)
            ctx.count()
            got = o["raised"] or getattr(o["result"], "label", o["result"])
            if isinstance(want, str) and o["raised"] and _is_sub(ctx, o["raised"], want):
                continue
            if got != (want if isinstance(want, str) else want.label):
                bad.append({"reference": "Code.1.0", "referrer": S.label, "lookup": [d.label for d in lookups], "found": got, "expected": want if isinstance(want, str) else want.label})
    ctx.check(not bad, fn.short, "relative names resolve in the referrer's namespace", "relative references are resolved in the referring definition's own namespace, nowhere else", fn.where(), bad)


def rule_r3(ctx: Ctx) -> None:
    ctx.rule("C09.R3", "self-exclusion: read() hands its builder the lookup list minus everything equal to itself (name and version); the other arguments unchanged", min_instances=2)
    rd = ctx.func("_dsdl_definition.DSDLDefinition.read")
    w = R.World()
    B10, B11 = R.ADef(w, "ns.sub.B", 1, 0), R.ADef(w, "ns.sub.B", 1, 1)
    own = R.own_definition(ctx, "ns.sub.T", 1, 2)
    twin = R.own_definition(ctx, "ns.sub.T", 1, 2, root="/elsewhere")
    older = R.own_definition(ctx, "ns.sub.T", 1, 1)
    lookups = [B10, own, twin, B11, older]
    o = R.read_own(ctx, own, lookups)
    ctx.count()
    if o["raised"]:
        raise AnalysisError("DSDLDefinition.read over the abstract world raised %s" % o["raised"])
    good = len(o["builders"]) == 1
    passed: List[Any] = []
    kw: Dict[str, Any] = {}
    if good:
        kw = o["builders"][0].kw
        passed = list(kw.get("lookup_definitions") or [])
        good = [id(x) for x in passed] == [id(B10), id(B11), id(older)]
    ctx.check(good, rd.short, "lookup list minus self: %s" % [getattr(x, "label", None) or "%s (own class)" % getattr(x, "_file_path", "?") for x in passed], "the definition being read must not be able to resolve a reference to itself (equality is by full name and version, so a same-named twin in another directory is excluded too); everything else stays, in order", rd.where())
    good2 = kw.get("definition") is own and list(kw.get("definition_visitors") or []) == [o["visitor"]] and kw.get("print_output_handler") is o["handler"] and kw.get("allow_unregulated_fixed_port_id") is True
    ctx.check(good2, rd.short, "DataTypeBuilder(definition=self, lookup_definitions=<filtered list>, visitors, handler, settings as given)", "the builder works for this definition with the caller's visitors, handler and settings", rd.where(), {k: repr(v)[:60] for k, v in kw.items()})
    # the text parsed is the definition's own file, by that builder
    parses = o["parses"]
    ctx.check(len(parses) == 1 and parses[0][0][:2] == ["FILE-TEXT", o["builders"][0]] if o["builders"] else False, rd.short, "parse(<own text>, <that builder>)", "the definition's own text is parsed into that builder", rd.where(), nontrivial=False)


def rule_r4(ctx: Ctx) -> None:
    ctx.rule("C09.R4", "cache discipline: a definition is built once; later reads return the same object without touching file, parser or builder; a failed build caches nothing; one definition object per file path", min_instances=3)
    rd = ctx.func("_dsdl_definition.DSDLDefinition.read")
    own = R.own_definition(ctx, "ns.sub.T", 1, 2)
    o = R.read_own(ctx, own, [], times=3)
    ctx.count(3)
    if o["raised"]:
        raise AnalysisError("DSDLDefinition.read over the abstract world raised %s" % o["raised"])
    same = len(o["results"]) == 3 and all(r is o["final"] for r in o["results"])
    ctx.check(same and len(o["builders"]) == 1 and o["opens"] == 1 and o["finalizes"] == 1 and len(o["parses"]) == 1 and o["order"] == ["builder", "parse", "finalize"], rd.short, "3 reads: %d builders, %d file opens, %d parses, %d finalizations" % (len(o["builders"]), o["opens"], len(o["parses"]), o["finalizes"]), "a definition is evaluated once; later reads return the same object", rd.where())
    # a build that fails caches nothing: the next read starts over (and fails or succeeds on its own)
    bad_def = R.own_definition(ctx, "ns.sub.T", 1, 2)
    o2 = R.read_own(ctx, bad_def, [], times=2, parse_fails=1)
    ctx.count(2)
    ctx.check(o2["results"][:1] == ["raise DSDLSyntaxError"] and len(o2["results"]) == 2 and o2["results"][1] is o2["final"] and len(o2["builders"]) == 2, rd.short, "failed build, then a read again: %s" % [r if isinstance(r, str) else "built" for r in o2["results"]], "a failed build leaves nothing in the cache: a definition is never represented by a half-built type", rd.where())
    # the accessor exposes exactly that object (None before the first read)
    fresh = R.own_definition(ctx, "ns.sub.T", 1, 2)
    from ..fold import Folder, Unfoldable
    import ast as _ast

    try:
        before = Folder({"d": fresh}, ctx.repo, fresh._cls_.module, fresh._cls_).fold(_ast.parse("d.composite_type", mode="eval").body)
        after = Folder({"d": own}, ctx.repo, own._cls_.module, own._cls_).fold(_ast.parse("d.composite_type", mode="eval").body)
    except Unfoldable as ex:
        raise AnalysisError("DSDLDefinition.composite_type: %s" % ex)
    ctx.check(before is None and after is o["final"], "_dsdl_definition.DSDLDefinition.composite_type", "None before the first read, the built type afterwards", "the accessor exposes the cache", rd.module.relpath, nontrivial=False)
    # the namespace reader works on one object per file path: a second object for the same file is replaced by the first
    nsr = ctx.func("_namespace_reader.read_definitions")
    w = R.World()
    D = R.ADef(w, "ns.D", 1, 0)
    A1 = R.ADef(w, "ns.A", 1, 0, deps=[D])
    A2 = R.ADef(w, "ns.A", 1, 0, deps=[D])  # another object for the same path
    out = R.run_reader(ctx, [A1, A2], [A1, D])
    ctx.count()
    if out["raised"]:
        raise AnalysisError("read_definitions over the abstract world raised %s" % out["raised"])
    first_reads = [e[1] for e in w.log if e[0] == "read" and e[1].full_name == "ns.A"]
    ctx.check(bool(first_reads) and all(x is A1 for x in first_reads) and R.names_of(out["result"].direct) == [A1.label], nsr.short, "two objects for one path: read %s" % sorted({("first" if x is A1 else "second") for x in first_reads}), "one definition object (and therefore one cached type) per file path", nsr.where())


def rule_r5_lookup_from_directories(ctx: Ctx) -> None:
    """R1 decides what the resolver does with the lookup list it is given.  This rule decides what it is given: the definitions
    the entry points construct from directories and files (an abstract file system of syntactic paths; the definition objects
    are built by their own constructor, and the containers of the evaluated program compare and hash them by the class's own
    __eq__ / __hash__, i.e. by name and version).  Two files of one directory that spell the same name and version must both
    arrive - only then is a reference to them a collision rather than an arbitrary choice."""
    from ..absint import APath, Raised, call_fn
    from ..fold import Unfoldable

    ctx.rule("C09.R5", "the lookup list constructed from directories / files holds one definition per file - files of one directory (or of two) that spell the same name and version are all there - and a reference to such a name and version, resolved against that list, is a DataTypeCollisionError", min_instances=2)
    cons = ctx.func("_namespace._construct_dsdl_definitions_from_namespaces")
    mod = cons.module
    worlds = {
        "a port-ID prefix on one copy": ["/w/ns/A.1.0.dsdl", "/w/ns/sub/Foo.1.0.dsdl", "/w/ns/sub/7509.Foo.1.0.dsdl", "/w/ns/sub/Foo.1.1.dsdl"],
        "legacy suffix next to the current one": ["/w/ns/A.1.0.dsdl", "/w/ns/sub/Foo.1.0.dsdl", "/w/ns/sub/Foo.1.0.uavcan", "/w/ns/sub/Foo.1.1.dsdl"],
        "two directories": ["/w/ns/A.1.0.dsdl", "/w/ns/sub/Foo.1.0.dsdl", "/elsewhere/ns/sub/Foo.1.0.dsdl", "/w/ns/sub/Foo.1.1.dsdl"],
    }
    saved = list(APath.FS)
    try:
        for label, files in worlds.items():
            APath.FS = list(files)
            hook = R._hook(ctx, mod, [], record=[], results={"dsdl_file_sort": lambda xs: list(xs), "file_sort": lambda xs: list(xs)})
            roots = [APath("/w/ns")] + ([APath("/elsewhere/ns")] if label == "two directories" else [])
            try:
                got = call_fn(ctx, cons, [roots], hook=hook, keep=tuple(mod.functions))
            except (Raised, Unfoldable) as ex:
                raise AnalysisError("%s: cannot evaluate over the abstract file system: %s" % (cons.short, ex))
            got = list(got)
            paths = sorted(str(d.file_path if hasattr(d, "file_path") else d._file_path) for d in got)
            ctx.count()
            listed = paths == sorted(files)
            # the same list, given to a builder: the twins are a collision, the single 1.1 resolves
            w = R.World()
            referrer = R.ADef(w, "ns.A", 1, 0)
            if listed:
                out = R.resolve(ctx, referrer, got, "ns.sub.Foo", 1, 0)
            else:
                out = {"raised": None, "result": "(not asked: the lookup list already lacks a file)"}
            ctx.count()
            ctx.check(listed and out["raised"] == "DataTypeCollisionError", cons.short + " -> DataTypeBuilder.resolve_versioned_data_type", label, "two definitions with the same name and version are reported (DataTypeCollisionError), not resolved arbitrarily: both reach the lookup list", cons.where(), {"files": files, "definitions constructed": paths, "reference ns.sub.Foo.1.0": out["raised"] or "resolved to %r" % getattr(out["result"], "label", out["result"])})
    finally:
        APath.FS = saved


def run(ctx: Ctx) -> None:
    ctx.attempt(rule_r1_r2, ctx)
    ctx.attempt(rule_r3, ctx)
    ctx.attempt(rule_r4, ctx)
    ctx.attempt(rule_r5_lookup_from_directories, ctx)
    from . import c09text

    c09text.run(ctx)
    ctx.assume("the lookup list handed to the builder is finite; the builder forwards its lookup list unchanged (R1) and read() removes the definition itself (R3), so the list strictly shrinks along any reference chain")
    ctx.undecided("equality of the nested type with a stand-alone read for all graphs and visiting orders (depends on run-time lookup contents)")
