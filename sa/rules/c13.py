"""
C13 -- Bad input yields InvalidDefinitionError with a path, never a crash / InternalError.

An error-discipline property decided by the interprocedural exception-flow analysis (E4).

R1  explicit raises: every `raise C` reachable from the roots with C not an InvalidDefinitionError must be translated
    before leaving the root, discharged by a typed-guard argument (kind inference at every call site of the guarded
    constructor), or listed in the internal-consistency table (one symbol + reason each).
R2  implicit partial operations on input-derived operands (fixed table) need a translating handler or a recorded
    discharge (dominating guard / regex-language inclusion / total operand kinds).
R3  every InvalidDefinitionError that escapes a read passes a handler that stamps the file path.
Roots: read_namespace / read_files (everything driven by definition text and file names).
"""
from __future__ import annotations

import ast
import string
from typing import Any, Dict, List, Optional, Set, Tuple

from .. import rx
from ..callgraph import CallGraph, Site, Ty
from ..core import AnalysisError, ClassInfo, Ctx, External, FuncInfo, body_without_docstring, calls_in, dotted, norm, parents_map, walk_no_nested
from ..excflow import ExcFlow, Witness, exc_name
from ..peg import Grammar

IDE = "_error.InvalidDefinitionError"

# modules whose code evaluates definition text / file names (implicit operations are considered only here)
INPUT_SCOPE = (
    "pydsdl._parser",
    "pydsdl._data_type_builder",
    "pydsdl._data_schema_builder",
    "pydsdl._expression",
    "pydsdl._serializable",
    "pydsdl._dsdl_definition",
    "pydsdl._error",
    "pydsdl._port_id_ranges",
)
OUT_OF_SCOPE_MODULES = ("pydsdl._serdes",)  # the codec is not reachable from reading definitions (C06/C07)

# ---- documented non-definition failures (outside the property), whitelisted by raising site ------------------
WHITELIST = {
    # (origin function suffix, exception name): reason
    ("_dsdl.normalize_paths_argument_to_list.<locals>._convert", "TypeError"): "invalid *argument* type passed by the caller (documented)",
    ("_dsdl.normalize_paths_argument_to_list", "TypeError"): "invalid *argument* type passed by the caller (documented) - wherever in the function the test is written",
    ("_namespace_reader._read_definitions", "TypeError"): "invalid *argument* type passed by the caller",
    ("DSDLDefinition._infer_path_to_root_from_first_found", "ValueError"): "internal API misuse guard: valid_dsdl_roots is always a list at the only call site",
    ("DSDLDefinition._infer_path_to_root_from_first_found", "IndexError"): "indexing .parts of caller-supplied *path arguments* (empty only for Path('')): argument validation, not definition input",
}
# ---- internal-consistency raises: reachable in the graph, trusted with a reason ----------------------------------
INTERNAL_CONSISTENCY = {
    ("ServiceType.__init__", "ValueError"): "request/response halves are built by finalize from one definition (name, version, path, flags agree by construction - C15.R3)",
    ("_auto_swap.<locals>.decorator.<locals>.wrapper", "ValueError"): "operands are results of visitors that return expression.Any (typed lifters)",
    ("_auto_swap.<locals>.decorator", "TypeError"): "decoration-time check, runs at import",
    ("_operator.attribute", "ValueError"): "name is a str from the identifier visitor; value is an expression.Any",
    ("_ParseTreeProcessor.visit_expression_atom", "InternalError"): "resolve_top_level_identifier returns expression.Any by construction (constants' values / Set)",
    ("Set.__init__", "ValueError"): "elements are visitor results, whose classes derive from Any",
    ("ConcatenationOperator.__init__", "ValueError"): "called with a two-element list by BitLengthSet.__add__ / non-empty lists",
    ("UnionOperator.__init__", "ValueError"): "UnionType.aggregate_bit_length_sets unites >= 2 variants (length guard above the call)",
    ("PaddingOperator.__init__", "ValueError"): "alignment_requirement folds to >= 1 (C02.R4)",
    ("PaddingField.__init__", "TypeParameterError"): "is an InvalidDefinitionError anyway",
    ("NullaryOperator.__init__", "TypeError"): "elements are ints computed by the library (widths, alignments, residues); BitLengthSet(x) with foreign x is an API argument error, and the only definition-driven call with arbitrary x (__eq__) handles TypeError",
    ("NullaryOperator.__init__", "ValueError"): "leaf sets are built from a single width / the residues of a non-empty set",
}
# ---- implicit operations discharged by an argument that the syntactic guards cannot see (one symbol + reason each)
DISCHARGED_SITES = {
    ("CompositeType.__init__.<locals>.search_up_for_root", "namespace_components[-1]"): "the list has >= 1 element: the name contains a separator (guard above) so there is at least one namespace component, and the recursion stops at length 1",
}


def in_scope_module(name: str) -> bool:
    return any(name == m or name.startswith(m + ".") for m in INPUT_SCOPE)


# ------------------------------------------------------------------------------------------------ kinds
NUMERIC_OK = {"int", "float", "Fraction", "bool"}
OPERATOR_RESULT = {
    "add": {"Fraction"}, "sub": {"Fraction"}, "mul": {"Fraction"}, "truediv": {"Fraction"}, "mod": {"Fraction"}, "floordiv": {"int"},
    "pow": {"Fraction", "float", "complex"},
    "or_": {"int"}, "xor": {"int"}, "and_": {"int"},
    "eq": {"bool"}, "le": {"bool"}, "ge": {"bool"}, "lt": {"bool"}, "gt": {"bool"}, "ne": {"bool"},
}
OPERATOR_RAISES = {
    "truediv": {"ext:ZeroDivisionError"}, "mod": {"ext:ZeroDivisionError"}, "floordiv": {"ext:ZeroDivisionError"},
    "pow": {"ext:ZeroDivisionError", "ext:OverflowError"},
}


class Kinds:
    """Value-kind inference for the few expressions that feed guarded constructors."""

    def __init__(self, ctx: Ctx, g: CallGraph):
        self.ctx = ctx
        self.g = g
        self.repo = ctx.repo
        self._impl_values: Dict[Tuple[str, str], Set[str]] = {}

    def impl_values(self, fn: FuncInfo, param: str) -> Set[str]:
        """operator.* functions passed for callable parameter `param` of method fn at its call sites"""
        key = (fn.qualname, param)
        if key in self._impl_values:
            return self._impl_values[key]
        out: Set[str] = set()
        idx = fn.params.index(param)
        for other, c in self.repo.all_calls():
            if True:
                f = c.func
                if isinstance(f, ast.Attribute) and f.attr == fn.name or isinstance(f, ast.Name) and f.id == fn.name:
                    args = list(c.args)
                    pos = idx - (1 if fn.cls is not None and not fn.is_static else 0)
                    a = args[pos] if 0 <= pos < len(args) else next((k.value for k in c.keywords if k.arg == param), None)
                    if a is not None:
                        d = dotted(a) or norm(a)
                        out.add(d.split(".")[-1] if d.startswith("operator.") else "?" + d)
        self._impl_values[key] = out
        return out

    def kind(self, fn: FuncInfo, e: ast.AST, at: Optional[ast.AST] = None, depth: int = 0) -> Set[str]:
        if depth > 6:
            return {"?"}
        if isinstance(e, ast.Constant):
            return {type(e.value).__name__}
        if isinstance(e, ast.UnaryOp):
            if isinstance(e.op, ast.Not):
                return {"bool"}
            return self.kind(fn, e.operand, at, depth + 1)
        if isinstance(e, (ast.Compare, ast.BoolOp)):
            if isinstance(e, ast.BoolOp):
                out: Set[str] = set()
                for v in e.values:
                    out |= self.kind(fn, v, at, depth + 1)
                return out
            return {"bool"}
        if isinstance(e, ast.BinOp):
            l, r = self.kind(fn, e.left, at, depth + 1), self.kind(fn, e.right, at, depth + 1)
            if l == {"str"} and r == {"str"}:
                return {"str"}
            if l <= NUMERIC_OK and r <= NUMERIC_OK and not isinstance(e.op, ast.Pow):
                return (l | r) - {"bool"} or {"int"}
            if l <= NUMERIC_OK and r <= NUMERIC_OK and isinstance(e.op, ast.Pow) and "complex" not in (l | r) and l <= {"int", "bool"}:
                # an integer base: the power is an int, or a float for a negative exponent - never complex
                return ((l | r) - {"bool"}) | {"float"}
            return {"?"}
        if isinstance(e, ast.IfExp):
            return self.kind(fn, e.body, at, depth + 1) | self.kind(fn, e.orelse, at, depth + 1)
        if isinstance(e, ast.Subscript) and isinstance(e.value, ast.Dict):
            out2: Set[str] = set()
            for v in e.value.values:
                out2 |= self.const_kind(fn, v) or self.kind(fn, v, at, depth + 1)
            return out2
        if isinstance(e, ast.Subscript) and isinstance(e.value, (ast.Name, ast.Attribute)):
            # a constant table (module / class level, possibly built by a private helper): the kinds of its values
            from ..fold import Folder, Unfoldable

            try:
                tbl = Folder({}, self.repo, fn.module, fn.cls).fold(e.value)  # type: ignore
            except Exception:
                tbl = None
            if isinstance(tbl, dict) and tbl:
                return {type(v).__name__ for v in tbl.values()}
        if isinstance(e, ast.Call):
            name = dotted(e.func) or ""
            last = name.split(".")[-1]
            if name in ("int", "len", "ord", "round", "hash"):
                return {"int"}
            if last == "Fraction":
                return {"Fraction"}
            if name in ("str", "repr", "chr", "unicodedata.normalize"):
                return {"str"}
            if name == "bool":
                return {"bool"}
            if name == "float":
                return {"float"}
            if isinstance(e.func, ast.Attribute) and e.func.attr in ("as_native_integer", "bit_length", "line", "column"):
                return {"int"}
            if isinstance(e.func, ast.Name):
                # local alias of a constructor, e.g. `frac = fractions.Fraction`
                for st in walk_no_nested(fn.node):
                    if isinstance(st, ast.Assign) and any(isinstance(t, ast.Name) and t.id == e.func.id for t in st.targets):
                        if (dotted(st.value) or "").split(".")[-1] == "Fraction":
                            return {"Fraction"}
            if isinstance(e.func, ast.Attribute) and e.func.attr in ("join", "lower", "upper", "strip", "replace", "format"):
                return {"str"}
            if isinstance(e.func, ast.Name) and e.func.id in fn.params:
                vals = self.impl_values(fn, e.func.id)
                out = set()
                for v in vals:
                    out |= OPERATOR_RESULT.get(v, {"?"})
                return out or {"?"}
            r = self.repo.resolve_expr(fn.module, e.func, fn.cls)
            if r is None and isinstance(e.func, ast.Attribute) and isinstance(e.func.value, ast.Name) and e.func.value.id == "self" and fn.cls is not None:
                r = self.repo.lookup_method(fn.cls, e.func.attr)
            if r is None and isinstance(e.func, ast.Name):
                f2: Optional[FuncInfo] = fn
                while f2 is not None and r is None:
                    r = f2.nested.get(e.func.id)
                    f2 = f2.parent
            if isinstance(r, FuncInfo):
                t = self.g.types.ann(r.module, r.cls, r.node.returns)
                return self._ty_kinds(t)
            if r is None and isinstance(e.func, ast.Name):
                # a local bound to an instance of a class of the package that defines __call__ (a callable object in place of
                # a closure): what a call yields is what `__call__` is declared to return
                for st in walk_no_nested(fn.node):
                    if isinstance(st, (ast.Assign, ast.AnnAssign)) and st.value is not None and isinstance(st.value, ast.Call) and any(isinstance(t_, ast.Name) and t_.id == e.func.id for t_ in (st.targets if isinstance(st, ast.Assign) else [st.target])):
                        k_ = self.repo.resolve_expr(fn.module, st.value.func, fn.cls)
                        if isinstance(k_, ClassInfo):
                            m_ = self.repo.lookup_method(k_, "__call__")
                            if m_ is not None:
                                return self._ty_kinds(self.g.types.ann(m_.module, m_.cls, m_.node.returns))
            return {"?"}
        if isinstance(e, ast.Attribute):
            if e.attr in ("numerator", "denominator"):
                return {"int"}
            t = self.g.types.expr(fn, e, self.g.types.locals_of(fn))
            k = self._ty_kinds(t)
            if k != {"?"}:
                return k
            # instance attribute `self._value` of the value classes
            if isinstance(e.value, ast.Name) and e.value.id in ("self", "right", "other") and e.attr == "_value" and fn.cls is not None:
                return {"Rational": {"Fraction"}, "String": {"str"}, "Boolean": {"bool"}}.get(fn.cls.name, {"?"})
            return {"?"}
        if isinstance(e, ast.Name):
            # local: union over its assignments, then narrowing by dominating isinstance guards
            vals: Set[str] = set()
            found = False
            for st in walk_no_nested(fn.node):
                if isinstance(st, ast.Assign) and any(isinstance(t, ast.Name) and t.id == e.id for t in st.targets):
                    vals |= self.kind(fn, st.value, at, depth + 1)
                    found = True
                elif isinstance(st, ast.AugAssign) and isinstance(st.target, ast.Name) and st.target.id == e.id:
                    vals |= self.kind(fn, st.value, at, depth + 1)
                    found = True
                elif isinstance(st, ast.Assign) and len(st.targets) == 1 and isinstance(st.targets[0], ast.Tuple):
                    # `a, b = <pair>`: the kind of the element that lands in the name
                    idx = [i_ for i_, t_ in enumerate(st.targets[0].elts) if isinstance(t_, ast.Name) and t_.id == e.id]
                    if idx:
                        vals |= self._element_kind(fn, st.value, idx[0], len(st.targets[0].elts), at, depth + 1)
                        found = True
            if not found:
                t = self.g.types.locals_of(fn).get(e.id)
                vals = self._ty_kinds(t)
            return self._narrow(fn, e.id, vals, at)
        if isinstance(e, ast.JoinedStr):
            return {"str"}
        if isinstance(e, ast.Subscript) and self.kind(fn, e.value, at, depth + 1) == {"str"}:
            return {"str"}  # a character or a slice of a string is a string
        return {"?"}

    def _element_kind(self, fn: FuncInfo, v: ast.AST, i: int, n: int, at: Optional[ast.AST], depth: int) -> Set[str]:
        """kind of element i of an n-tuple valued expression: a tuple display, or a call of a function of the package all of
        whose returns are n-tuple displays (element i of each, in the callee's own scope)"""
        if depth > 6:
            return {"?"}
        if isinstance(v, ast.Tuple) and len(v.elts) == n and not any(isinstance(x, ast.Starred) for x in v.elts):
            return self.kind(fn, v.elts[i], at, depth + 1)
        if isinstance(v, ast.Call):
            r = self.repo.resolve_expr(fn.module, v.func, fn.cls)
            if r is None and isinstance(v.func, ast.Attribute) and isinstance(v.func.value, ast.Name) and v.func.value.id in ("self", "cls") and fn.cls is not None:
                r = self.repo.lookup_method(fn.cls, v.func.attr)
            if r is None and isinstance(v.func, ast.Name):
                f2: Optional[FuncInfo] = fn
                while f2 is not None and r is None:
                    r = f2.nested.get(v.func.id)
                    f2 = f2.parent
            if isinstance(r, FuncInfo):
                rets = [x for x in walk_no_nested(r.node) if isinstance(x, ast.Return)]
                if rets and all(isinstance(x.value, ast.Tuple) and len(x.value.elts) == n and not any(isinstance(y, ast.Starred) for y in x.value.elts) for x in rets):
                    out: Set[str] = set()
                    for x in rets:
                        out |= self.kind(r, x.value.elts[i], x, depth + 1)  # type: ignore
                    return out
        return {"?"}

    def const_kind(self, fn: FuncInfo, e: ast.AST) -> Set[str]:
        """kind of a constant expression, by folding it (locals that alias Fraction are substituted)"""
        from ..decide import substitute
        from ..fold import Folder, Unfoldable

        env = {}
        for st in walk_no_nested(fn.node):
            if isinstance(st, ast.Assign) and len(st.targets) == 1 and isinstance(st.targets[0], ast.Name) and (dotted(st.value) or "").split(".")[-1] == "Fraction":
                env[st.targets[0].id] = st.value
        try:
            v = Folder({}, self.repo, fn.module, fn.cls).fold(substitute(e, env))  # type: ignore
        except Exception:
            return set()
        return {type(v).__name__}

    @staticmethod
    def _ty_kinds(t: Optional[Ty]) -> Set[str]:
        if t is None:
            return {"?"}
        if t.classes or t.elem is not None:
            return {"obj:" + c.name for c in t.classes} or {"?"}
        return set(t.ext) or {"?"}

    def _narrow(self, fn: FuncInfo, name: str, vals: Set[str], at: Optional[ast.AST]) -> Set[str]:
        """`if isinstance(name, K): raise` before `at` removes K; `if not isinstance(name, K): raise` keeps only K."""
        if at is None:
            return vals
        at_line = getattr(at, "lineno", 10**9)
        for st in walk_no_nested(fn.node):
            if isinstance(st, ast.If) and st.lineno < at_line and st.body and isinstance(st.body[-1], (ast.Raise, ast.Return)) and not st.orelse:
                t = st.test
                neg = False
                if isinstance(t, ast.UnaryOp) and isinstance(t.op, ast.Not):
                    t, neg = t.operand, True
                if isinstance(t, ast.Call) and dotted(t.func) == "isinstance" and len(t.args) == 2 and isinstance(t.args[0], ast.Name) and t.args[0].id == name:
                    ks = t.args[1].elts if isinstance(t.args[1], ast.Tuple) else [t.args[1]]
                    names = {(dotted(k) or "?").split(".")[-1] for k in ks}
                    if neg:
                        vals = {v for v in vals if v in names} if "?" not in vals else set(names)
                    else:
                        vals = {v for v in vals if v not in names}
        return vals


# ------------------------------------------------------------------------------------------------ guarded constructors
class GuardedCtors:
    """
    Constructors whose first statement is `if not isinstance(<param>, K): raise <non-IDE>`: the raise is attributed to
    the *call sites* whose argument kind is not within K (kind inference), not to the constructor itself.
    """

    def __init__(self, ctx: Ctx):
        self.repo = ctx.repo
        self.table: Dict[str, Tuple[ClassInfo, str, Set[str], ast.Raise]] = {}
        for c in ctx.repo.all_classes().values():
            if not c.module.name.startswith("pydsdl._expression"):
                continue
            init = c.methods.get("__init__")
            if init is None:
                continue
            from ..core import body_without_docstring

            body = body_without_docstring(init.node)
            if not body or not isinstance(body[0], ast.If):
                continue
            st = body[0]
            t = st.test
            if isinstance(t, ast.UnaryOp) and isinstance(t.op, ast.Not) and isinstance(t.operand, ast.Call) and dotted(t.operand.func) == "isinstance" and len(st.body) == 1 and isinstance(st.body[0], ast.Raise):
                p = norm(t.operand.args[0])
                if p in init.params:
                    ks = t.operand.args[1].elts if isinstance(t.operand.args[1], ast.Tuple) else [t.operand.args[1]]
                    names = {(dotted(k) or "?").split(".")[-1] for k in ks}
                    if "int" in names:
                        names.add("bool")
                    self.table[c.qualname] = (c, p, names, st.body[0])

    def is_guard_raise(self, fn: FuncInfo, node: ast.Raise) -> bool:
        return fn.cls is not None and fn.name == "__init__" and fn.cls.qualname in self.table and self.table[fn.cls.qualname][3] is node


def _always_raises(m: Optional[FuncInfo]) -> bool:
    if m is None:
        return False
    body = body_without_docstring(m.node)
    return bool(body) and isinstance(body[-1], ast.Raise) and not any(isinstance(x, (ast.Return, ast.Yield)) for x in walk_no_nested(m.node))


def _never_reached_for(repo: Any, s: ClassInfo, name: str) -> bool:
    """instances of class `s` never get as far as the call of `.name(...)`: at every call site of a method of that name in the
    package, an earlier statement of the same block calls, on the same receiver, a method that `s` resolves to a body which
    always raises (e.g. `rule.check_kind(a, b); rule.check_layout(a, b)` with a rule class whose check_kind always raises)"""
    sites = 0
    for fn in repo.all_functions().values():
        if fn.name.startswith("_unittest"):
            continue
        pm = parents_map(fn.node)
        for n in ast.walk(fn.node):
            if isinstance(n, ast.Call) and isinstance(n.func, ast.Attribute) and n.func.attr == name:
                sites += 1
                recv = norm(n.func.value)
                stmt: ast.AST = n
                while stmt in pm and not isinstance(stmt, ast.stmt):
                    stmt = pm[stmt]
                owner = pm.get(stmt)
                dominated = False
                for field in ("body", "orelse", "finalbody"):
                    block = getattr(owner, field, None)
                    if isinstance(block, list) and stmt in block:
                        for prev in block[: block.index(stmt)]:
                            if isinstance(prev, ast.Expr) and isinstance(prev.value, ast.Call) and isinstance(prev.value.func, ast.Attribute) and norm(prev.value.func.value) == recv:
                                if _always_raises(repo.lookup_method(s, prev.value.func.attr)):
                                    dominated = True
                if not dominated:
                    return False
    return sites > 0


def abstract_never_runs(repo: Any, fn: FuncInfo) -> bool:
    """A `raise NotImplementedError` body of method M in class C never executes if C is never instantiated and every
    leaf subclass resolves M to an override."""
    c = fn.cls
    if c is None:
        return False
    subs = repo.subclasses(c, strict=True)
    if not subs:
        return False
    name = fn.name
    for s in subs:
        m = repo.lookup_method(s, name)
        leaf = not repo.subclasses(s, strict=True)
        if leaf and (m is None or m is fn):
            if not _never_reached_for(repo, s, name):
                return False
    # C itself must not be instantiated anywhere in the package
    return c.qualname not in repo.instantiated_classes()


# ------------------------------------------------------------------------------------------------ implicit table
class Implicit:
    def __init__(self, ctx: Ctx, g: CallGraph, kinds: Kinds, ctors: Optional["GuardedCtors"] = None):
        self.ctors = ctors
        self.ctx = ctx
        self.g = g
        self.kinds = kinds
        self.repo = ctx.repo
        self.discharged: List[Dict[str, Any]] = []
        self.assumed_asserts = 0
        self.assumed_unpacks = 0
        self.grammar = Grammar.load(ctx.repo)

    def __call__(self, fn: FuncInfo, q: str, root: ast.AST, loc: Dict[str, Optional[Ty]]) -> List[Tuple[Any, ast.AST, str]]:
        out: List[Tuple[Any, ast.AST, str]] = []
        if not in_scope_module(fn.module.name):
            return out
        pm = parents_map(fn.node)
        stack = [root]
        first = True
        while stack:
            n = stack.pop()
            if not first and isinstance(n, (ast.FunctionDef, ast.AsyncFunctionDef, ast.ClassDef, ast.Lambda)):
                continue
            first = False
            stack.extend(ast.iter_child_nodes(n))
            if isinstance(n, ast.Assert):
                self.assumed_asserts += 1
                continue
            if isinstance(n, ast.Call) and self.ctors is not None:
                r = self.repo.resolve_expr(fn.module, n.func, fn.cls) if isinstance(n.func, (ast.Name, ast.Attribute)) else None
                if isinstance(r, ClassInfo) and r.qualname in self.ctors.table and n.args:
                    _, _, allowed, _ = self.ctors.table[r.qualname]
                    k = self.kinds.kind(fn, n.args[0], n)
                    if k <= allowed:
                        self._record(fn, n, "argument kind %s within the constructor's guard %s" % (sorted(k), sorted(allowed)))
                    elif fn.module.name.startswith("pydsdl._expression") and self._expression_outcomes_ok():
                        self._record(fn, n, "every operator outcome over symbolic operands (incl. complex results, zero divisors, non-integers) is a value or an invalid-operand error (expression model, evaluated)")
                    else:
                        out.append(("ext:ValueError", n, "%s(%s) with argument kind %s" % (r.name, norm(n.args[0])[:30], sorted(k))))
                elif dotted(n.func) == "map" and len(n.args) == 2:
                    r0 = self.repo.resolve_expr(fn.module, n.args[0], fn.cls) if isinstance(n.args[0], (ast.Name, ast.Attribute)) else None
                    if isinstance(r0, ClassInfo) and r0.qualname in self.ctors.table:
                        t = self.g.types.expr(fn, n.args[1], loc)
                        elem_int = t is not None and any(c.name == "BitLengthSet" for c in t.classes)
                        if elem_int:
                            self._record(fn, n, "elements of a BitLengthSet are ints (Iterator[int])")
                        else:
                            out.append(("ext:ValueError", n, "map(%s, %s) with unknown element kind" % (r0.name, norm(n.args[1])[:30])))
            if isinstance(n, ast.Call):
                name = dotted(n.func) or ""
                last = name.split(".")[-1]
                if name == "int" and n.args:
                    k = self.kinds.kind(fn, n.args[0], n)
                    if not (k <= {"int", "bool", "Fraction", "float"} and "?" not in k):
                        if not self._text_discharge(fn, n, "int") and not self._numeric_model_site(fn, n):
                            out.append(("ext:ValueError", n, "int(%s)" % norm(n.args[0])[:40]))
                elif last == "Fraction" and len(n.args) == 1:
                    k = self.kinds.kind(fn, n.args[0], n)
                    if not (k <= {"int", "bool", "Fraction", "float"} and "?" not in k):
                        if not self._text_discharge(fn, n, "Fraction") and not self._numeric_model_site(fn, n):
                            out.append(("ext:ValueError", n, "Fraction(%s)" % norm(n.args[0])[:40]))
                elif name == "chr" and n.args:
                    out.append(("ext:ValueError", n, "chr(%s)" % norm(n.args[0])[:40]))
                elif name == "next" and len(n.args) == 1:
                    why = self._next_over_widths(fn, n) or self._next_of_endless(fn, n)
                    if why:
                        self._record(fn, n, why)
                    else:
                        out.append(("ext:StopIteration", n, norm(n)))
                elif last == "reduce" and name in ("reduce", "functools.reduce") and len(n.args) == 2:
                    # reduce(f, xs) without an initial value raises TypeError on an empty xs
                    why = self._never_empty(fn, n.args[1])
                    if why:
                        self._record(fn, n, why)
                    else:
                        out.append(("ext:TypeError", n, "reduce(..., %s) of a possibly empty iterable without an initial value%s" % (norm(n.args[1])[:30], ("; not dischargeable because " + self._why_not) if getattr(self, "_why_not", "") else "")))
                elif last in ("log2", "log", "sqrt") and name.startswith("math.") and n.args:
                    if not self._positive_arg(fn, n.args[0], n) and not self._numeric_model_site(fn, n, any_module=True):
                        out.append(("ext:ValueError", n, norm(n)[:50]))
                elif isinstance(n.func, ast.Attribute) and n.func.attr == "encode":
                    # str.encode("utf8") fails on lone surrogates, which DSDL string escapes can produce - unless an error
                    # handler that never raises is named
                    eh = next((k.value for k in n.keywords if k.arg == "errors"), n.args[1] if len(n.args) > 1 else None)
                    if isinstance(eh, ast.Constant) and eh.value in ("replace", "ignore", "backslashreplace", "xmlcharrefreplace", "namereplace", "surrogatepass"):
                        self._record(fn, n, "errors=%r never raises" % eh.value)
                    else:
                        out.append(("ext:UnicodeEncodeError", n, norm(n)[:60]))
                elif isinstance(n.func, ast.Name) and n.func.id in fn.params:
                    vals = self.kinds.impl_values(fn, n.func.id)
                    raised: Set[str] = set()
                    for v in vals:
                        raised |= OPERATOR_RAISES.get(v, set())
                    for r in sorted(raised):
                        out.append((r, n, "%s(...) with %s in {%s}" % (n.func.id, n.func.id, ",".join(sorted(vals)))))
            elif isinstance(n, ast.Subscript) and isinstance(n.ctx, ast.Load):
                if isinstance(n.value, ast.Dict) and not isinstance(n.slice, ast.Constant):
                    if not self._dict_total(fn, n):
                        out.append(("ext:KeyError", n, "literal table[%s]" % norm(n.slice)[:30]))
                elif isinstance(n.slice, ast.Constant) and isinstance(n.slice.value, int) or (isinstance(n.slice, ast.UnaryOp) and isinstance(n.slice.operand, ast.Constant)):
                    v = norm(n.value)
                    if isinstance(n.value, ast.Name) and fn.name.startswith("visit_"):
                        # a local that names (a part of) the visited children
                        binds = [st_ for st_ in walk_no_nested(fn.node) if isinstance(st_, ast.Assign) and any(isinstance(t_, ast.Name) and t_.id == n.value.id for t_ in st_.targets)]
                        if len(binds) == 1 and norm(binds[0].value).startswith("children"):
                            v = norm(binds[0].value)
                    if v in ("children", "literal", "path_tuple", "path_tuple_with_result", "check_result", "self._structs") or v.startswith("children["):
                        continue  # grammar arity / fixed-size tuples / non-empty by construction (assumption A-arity)
                    if isinstance(n.value, (ast.Tuple, ast.List, ast.Call)) and not (isinstance(n.value, ast.Call) and dotted(n.value.func) in ("list",)):
                        continue
                    if not self._len_guard(fn, n, pm):
                        out.append(("ext:IndexError", n, norm(n)[:50]))
            elif isinstance(n, ast.Assign) and isinstance(n.targets[0], (ast.Tuple, ast.List)):
                self.assumed_unpacks += 1
        return out

    # ---- discharges
    def _numeric_model_site(self, fn: FuncInfo, n: ast.AST, any_module: bool = False) -> bool:
        """a numeric conversion / logarithm inside the type model whose operand comes from the constructor's numeric
        parameters (widths, capacities, variant counts): the constructors and their public numeric properties are evaluated over
        the boundary domain and every outcome is acceptance or an InvalidDefinitionError"""
        mod = fn.module.name
        numeric = mod in ("pydsdl._serializable._primitive", "pydsdl._serializable._array", "pydsdl._serializable._void")
        if not (numeric or (any_module and mod.startswith("pydsdl._serializable."))):
            return False
        if not self._model_outcomes_ok():
            return False
        return self._record(fn, n, "the type model's constructors and numeric properties, evaluated over the boundary domain (widths -1..67, capacities, variant counts), only ever accept or raise an InvalidDefinitionError")

    def _composite_ctor_site(self, fn: FuncInfo) -> bool:
        """fn is CompositeType.__init__, a function nested in it, or a private method it calls"""
        comp = self.ctx.cls("_serializable._composite.CompositeType")
        init = comp.methods.get("__init__")
        if init is None:
            return False
        top = fn
        while top.parent is not None:
            top = top.parent
        if top.cls is not comp:
            return False
        called = {c.func.attr for c in ast.walk(init.node) if isinstance(c, ast.Call) and isinstance(c.func, ast.Attribute) and isinstance(c.func.value, ast.Name) and c.func.value.id == "self"}
        if not (top is init or (top.name.startswith("_") and top.name in called)):
            return False
        if not hasattr(self, "_comp_ok"):
            self._comp_ok = _composite_outcomes_ok(self.ctx)
        return self._comp_ok

    def _model_outcomes_ok(self) -> bool:
        if not hasattr(self, "_model_ok"):
            self._model_ok = _model_outcomes_ok(self.ctx)
        return self._model_ok

    def _expression_outcomes_ok(self) -> bool:
        if not hasattr(self, "_expr_ok"):
            self._expr_ok = _expression_outcomes_ok(self.ctx)
        return self._expr_ok

    def _next_of_endless(self, fn: FuncInfo, n: ast.Call) -> Optional[str]:
        """`next(c)` where c is bound, once, to an endless iterator (itertools.count / cycle / repeat without a count): never
        StopIteration"""
        a = n.args[0]
        if not isinstance(a, ast.Name):
            return None
        top = fn
        while top.parent is not None:
            top = top.parent
        binds = [st.value for st in ast.walk(top.node) if isinstance(st, ast.Assign) and any(isinstance(t, ast.Name) and t.id == a.id for t in st.targets)]
        other = [st for st in ast.walk(top.node) if isinstance(st, (ast.AugAssign, ast.For, ast.NamedExpr, ast.comprehension, ast.withitem)) and any(isinstance(x, ast.Name) and x.id == a.id and isinstance(x.ctx, ast.Store) for x in ast.walk(st.target if hasattr(st, "target") else (st.optional_vars or st)))]
        if len(binds) != 1 or other:
            return None
        v = binds[0]
        if isinstance(v, ast.Call):
            try:
                r = self.repo.resolve_expr(fn.module, v.func, fn.cls)
            except Exception:
                r = None
            d = getattr(r, "dotted", "") if isinstance(r, External) else ""
            if d in ("itertools.count", "itertools.cycle") or (d == "itertools.repeat" and len(v.args) == 1 and not v.keywords):
                return "an endless iterator (%s): next() always has an element" % d
        return None

    def _next_over_widths(self, fn: FuncInfo, call: ast.Call) -> Optional[str]:
        """`next(w for w in WIDTHS if E.bit_length() <= w)` where WIDTHS folds to integers up to at least 64 and E is a container
        length (minus / plus constants): lengths are below 2**63, so some width always fits and the generator is never empty"""
        g = call.args[0]
        if not (isinstance(g, ast.GeneratorExp) and len(g.generators) == 1 and len(g.generators[0].ifs) == 1 and isinstance(g.generators[0].target, ast.Name)):
            return None
        gen = g.generators[0]
        w = gen.target.id
        if not (isinstance(g.elt, ast.Name) and g.elt.id == w):
            return None
        try:
            from ..fold import Folder

            widths = Folder({}, self.ctx.repo, fn.module, fn.cls).fold(gen.iter)
            widths = [int(x) for x in widths]
        except Exception:
            return None
        if not widths or max(widths) < 64:
            return None
        cond = gen.ifs[0]
        if not (isinstance(cond, ast.Compare) and len(cond.ops) == 1):
            return None
        l, r, op = cond.left, cond.comparators[0], cond.ops[0]
        if isinstance(op, ast.GtE) and isinstance(l, ast.Name) and l.id == w:
            l, r, op = r, l, ast.LtE()
        if not (isinstance(op, ast.LtE) and isinstance(r, ast.Name) and r.id == w and isinstance(l, ast.Call) and isinstance(l.func, ast.Attribute) and l.func.attr == "bit_length" and not l.args):
            return None
        e = l.func.value
        local = {}
        for st in ast.walk(fn.node):
            if isinstance(st, ast.Assign) and len(st.targets) == 1 and isinstance(st.targets[0], ast.Name):
                local.setdefault(st.targets[0].id, []).append(st.value)

        def length_like(x: ast.AST, depth: int = 0) -> bool:
            if depth > 4:
                return False
            if isinstance(x, ast.Call) and dotted(x.func) == "len" and len(x.args) == 1:
                return True
            if isinstance(x, ast.Constant) and isinstance(x.value, int) and not isinstance(x.value, bool) and abs(x.value) < 2**32:
                return True
            if isinstance(x, ast.BinOp) and isinstance(x.op, (ast.Add, ast.Sub)):
                return length_like(x.left, depth + 1) and length_like(x.right, depth + 1)
            if isinstance(x, ast.Name) and x.id in local and len(local[x.id]) == 1:
                return length_like(local[x.id][0], depth + 1)
            return False

        if not length_like(e):
            return None
        return "a width always fits: %s is a container length (< 2**63) and the widths reach %d" % (norm(e)[:30], max(widths))

    def _never_empty(self, fn: FuncInfo, it: ast.AST) -> str:
        """`it` is `self` of a class whose instances are never empty: the constructor rejects an empty collection with an
        InvalidDefinitionError (evaluated), iteration yields what the constructor stored (evaluated), and no code creates an
        instance without the constructor or stores the constructor's fields elsewhere"""
        from ..absint import Raised, construct
        from ..exprmodel import ExprModel, QV
        from ..fold import Unfoldable

        self._why_not = ""
        if not (isinstance(it, ast.Name) and it.id == "self" and fn.cls is not None):
            return ""
        cls = fn.cls
        repo = self.repo
        m = ExprModel(self.ctx)
        try:
            try:
                construct(self.ctx, cls, [], hook=m.hook)
                return ""
            except Raised as r:
                k = next((c for c in repo.all_classes().values() if c.name == r.cls_name), None)
                if k is None or not repo.is_subclass(k, IDE):
                    return ""
            one = m.value("Rational", QV("x", True))
            inst = construct(self.ctx, cls, [one], hook=m.hook)
            if m.elements(inst) != [one]:
                return ""
        except (Unfoldable, AnalysisError):
            return ""
        init = repo.lookup_method(cls, "__init__")
        fields = {dotted(t).split(".")[1] for st in ast.walk(init.node) if isinstance(st, (ast.Assign, ast.AnnAssign)) for t in (st.targets if isinstance(st, ast.Assign) else [st.target]) if (dotted(t) or "").startswith("self.") and (dotted(t) or "").count(".") == 1} if init else set()
        for f2 in repo.all_functions().values():
            for x in ast.walk(f2.node):
                if isinstance(x, ast.Call) and isinstance(x.func, ast.Attribute) and x.func.attr == "__new__":
                    tgt = [norm(a) for a in x.args[:1]] + [norm(x.func.value)]
                    if any(t.split(".")[-1] in (cls.name, "cls", "type(self)", "self.__class__") or t in ("object",) and any(norm(a).split(".")[-1] == cls.name for a in x.args) for t in tgt):
                        self._why_not = "%s creates an instance without the constructor (%s)" % (f2.short, norm(x)[:40])
                        return ""
                if f2 is init or (f2.cls is not None and f2.name == "__init__" and f2.cls is cls):
                    continue
                if isinstance(x, (ast.Assign, ast.AugAssign, ast.AnnAssign)) and f2.module is cls.module:
                    for t in x.targets if isinstance(x, ast.Assign) else [x.target]:
                        if isinstance(t, ast.Attribute) and t.attr in fields:
                            self._why_not = "%s stores the constructor's field %s" % (f2.short, t.attr)
                            return ""
        return "%s is never empty: %s([]) is rejected with an invalid-definition error, iteration yields the stored elements, no construction bypasses __init__ and its fields are stored nowhere else" % (cls.name, cls.name)

    def _record(self, fn: FuncInfo, n: ast.AST, why: str) -> bool:
        self.discharged.append({"site": "%s:%d" % (fn.short, getattr(n, "lineno", 0)), "op": norm(n)[:60], "discharge": why})
        return True

    def _expand_helper_call(self, fn: FuncInfo, e: ast.AST) -> ast.AST:
        """`helper(args)` -> the helper's single returned expression with the arguments substituted (one level; module-level
        functions and methods called on self), so that an extracted one-liner reads like the expression it replaced"""
        from ..decide import substitute

        if not (isinstance(e, ast.Call) and isinstance(e.func, (ast.Name, ast.Attribute)) and not e.keywords and not any(isinstance(a, ast.Starred) for a in e.args)):
            return e
        callee = None
        try:
            if isinstance(e.func, ast.Attribute) and isinstance(e.func.value, ast.Name) and e.func.value.id in ("self", "cls") and fn.cls is not None:
                callee = self.repo.lookup_method(fn.cls, e.func.attr)
            else:
                callee = self.repo.resolve_expr(fn.module, e.func, fn.cls)
        except Exception:
            callee = None
        if isinstance(callee, ast.Call) and len(e.args) == 1 and (dotted(callee.func) or "").split(".")[-1] in ("methodcaller", "attrgetter", "itemgetter") and callee.args and not callee.keywords:
            # NAME = operator.methodcaller("m", *args): NAME(x) reads x.m(*args); attrgetter("a"): x.a; itemgetter(k): x[k]
            kind = (dotted(callee.func) or "").split(".")[-1]
            x = e.args[0]
            if kind == "methodcaller" and isinstance(callee.args[0], ast.Constant) and isinstance(callee.args[0].value, str):
                return ast.copy_location(ast.Call(func=ast.Attribute(value=x, attr=callee.args[0].value, ctx=ast.Load()), args=list(callee.args[1:]), keywords=[]), e)
            if kind == "attrgetter" and len(callee.args) == 1 and isinstance(callee.args[0], ast.Constant) and isinstance(callee.args[0].value, str) and "." not in callee.args[0].value:
                return ast.copy_location(ast.Attribute(value=x, attr=callee.args[0].value, ctx=ast.Load()), e)
            if kind == "itemgetter" and len(callee.args) == 1:
                return ast.copy_location(ast.Subscript(value=x, slice=callee.args[0], ctx=ast.Load()), e)
        if not isinstance(callee, FuncInfo):
            return e
        from ..decide import paths_of

        try:
            ps = paths_of(callee.node)
        except Exception:
            return e
        rets = [p_ for p_ in ps if p_.kind == "return"]
        if len(rets) != 1 or len(ps) != 1 or rets[0].value is None:
            return e
        returned = rets[0].value  # temporaries substituted
        params = [a.arg for a in callee.node.args.posonlyargs + callee.node.args.args]
        if callee.cls is not None and not callee.is_static and params:
            params = params[1:]
        if len(params) != len(e.args):
            return e
        return substitute(returned, dict(zip(params, e.args)))

    def _text_discharge(self, fn: FuncInfo, call: ast.Call, ctor: str) -> bool:
        """int(node.text...) / Fraction(node.text...) in a visitor: regex language of the terminal within the ctor's syntax."""
        arg = self._expand_helper_call(fn, call.args[0])
        src = norm(arg)
        if fn.cls is not None and fn.name.startswith("visit_") and src.startswith("node.text"):
            rule = fn.name[len("visit_"):]
            lang = self.grammar.terminal_language(rule)
            if lang is None:
                return False
            underscore_removed = ".replace('_', '')" in src
            ok, why = syntax_within(lang, ctor, underscore_removed, call)
            if ok:
                return self._record(fn, call, "terminal `%s` %s" % (rule, why))
            return False
        # int(h, 16) where every character was checked against the hex alphabet just above
        if ctor == "int" and len(call.args) == 2 and isinstance(call.args[1], ast.Constant) and call.args[1].value == 16 and isinstance(arg, ast.Name):
            for st in ast.walk(fn.node):
                if isinstance(st, ast.If) and isinstance(st.test, ast.Compare) and isinstance(st.test.ops[0], ast.NotIn):
                    c = st.test.comparators[0]
                    if isinstance(c, ast.Constant) and isinstance(c.value, str) and set(c.value) <= set(string.hexdigits) and st.body and isinstance(st.body[-1], ast.Raise):
                        # the checked symbol is what is appended to the accumulated name
                        appended = any(isinstance(a, ast.AugAssign) and isinstance(a.target, ast.Name) and a.target.id == arg.id and norm(a.value) == norm(st.test.left) for a in ast.walk(fn.node))
                        nonempty = any(isinstance(f2, ast.For) and isinstance(f2.iter, ast.Call) and dotted(f2.iter.func) == "range" for f2 in ast.walk(fn.node))
                        if appended and nonempty:
                            return self._record(fn, call, "every appended character is checked against %r" % c.value)
        return False

    def _positive_arg(self, fn: FuncInfo, a: ast.AST, at: ast.AST) -> bool:
        if isinstance(a, ast.Call) and dotted(a.func) == "max":
            for x in a.args:
                try:
                    from ..fold import Folder

                    v = Folder({}, self.repo, fn.module, fn.cls).fold(x)
                    if isinstance(v, int) and v >= 1:
                        return self._record(fn, at, "argument is max(%d, ...) >= 1" % v)
                except Exception:
                    pass
                if isinstance(x, ast.Name) and x.id in fn.params and not any(isinstance(t_, ast.Name) and t_.id == x.id and isinstance(t_.ctx, ast.Store) for t_ in ast.walk(fn.node)):
                    # a parameter that every call site of the function gives a positive constant (a width threaded through)
                    vals = self._param_constants(fn, x.id)
                    if vals and all(isinstance(v_, int) and not isinstance(v_, bool) and v_ >= 1 for v_ in vals):
                        return self._record(fn, at, "argument is max(%s, ...) and every call site passes %s = %s" % (x.id, x.id, sorted(set(vals))))
        s = norm(a)
        for st in walk_no_nested(fn.node):
            if isinstance(st, ast.If) and st.lineno < getattr(at, "lineno", 0) and st.body and isinstance(st.body[-1], ast.Raise):
                t = norm(st.test)
                if t in ("%s < 1" % s, "%s <= 0" % s):
                    return self._record(fn, at, "dominated by `if %s: raise`" % t)
        return False

    def _param_constants(self, fn: FuncInfo, param: str) -> List[Any]:
        """the values of parameter `param` at every call site of fn in the package, when each is a constant expression of the
        calling module / class; [] if some site is not (or there is none)"""
        from ..fold import Folder

        idx = fn.params.index(param)
        pos = idx - (1 if fn.cls is not None and not fn.is_static else 0)
        out: List[Any] = []
        for other, c in self.repo.all_calls():
            f = c.func
            if not ((isinstance(f, ast.Attribute) and f.attr == fn.name) or (isinstance(f, ast.Name) and f.id == fn.name)):
                continue
            if any(isinstance(a_, ast.Starred) for a_ in c.args):
                return []
            a = c.args[pos] if 0 <= pos < len(c.args) else next((k.value for k in c.keywords if k.arg == param), None)
            if a is None:
                d_ = dict(zip(reversed(fn.params), reversed(fn.node.args.defaults))).get(param)
                if d_ is None:
                    return []
                a = d_
            try:
                out.append(Folder({}, self.repo, other.module, other.cls).fold(a))
            except Exception:
                return []
        return out

    def _dict_total(self, fn: FuncInfo, n: ast.Subscript) -> bool:
        """literal dict indexed by an enum-valued key whose members are all present"""
        d: ast.Dict = n.value  # type: ignore
        keys = [dotted(k) for k in d.keys if k is not None]
        if all(keys) and len(keys) >= 1:
            owners = {".".join(k.split(".")[:-1]) for k in keys}  # type: ignore
            if len(owners) == 1:
                owner = owners.pop()
                r = self.repo.resolve_expr(fn.module, ast.parse(owner, mode="eval").body, fn.cls)
                if r is None and owner.startswith("self.") and fn.cls is not None:
                    r = self.repo.member_of(fn.cls, owner.split(".", 1)[1])
                if isinstance(r, ClassInfo) and any(isinstance(b, External) and b.dotted.endswith("Enum") for b in self.repo.bases(r)):
                    members = {m for m in r.assigns if not m.startswith("_")}
                    if members == {k.split(".")[-1] for k in keys}:  # type: ignore
                        return self._record(fn, n, "literal table covers every member of %s" % r.name)
        return False

    @staticmethod
    def _constraints_at(node: ast.AST, pm: Dict[ast.AST, ast.AST]) -> List[Tuple[ast.AST, bool]]:
        """the tests that must hold (or fail) on the way to `node` inside its function: enclosing if / else branches, conditional
        expressions, conjunctions, and earlier `if T: <leave>` statements of the enclosing blocks"""
        constraints: List[Tuple[ast.AST, bool]] = []
        cur: ast.AST = node
        while cur in pm:
            par = pm[cur]
            if isinstance(par, ast.If):
                if any(cur is s_ for s_ in par.body):
                    constraints.append((par.test, True))
                elif any(cur is s_ for s_ in par.orelse):
                    constraints.append((par.test, False))
            elif isinstance(par, ast.IfExp):
                if cur is par.body:
                    constraints.append((par.test, True))
                elif cur is par.orelse:
                    constraints.append((par.test, False))
            elif isinstance(par, ast.BoolOp) and isinstance(par.op, ast.And):
                for x in par.values:
                    if x is cur:
                        break
                    constraints.append((x, True))
            # earlier statements of the same block that leave when their test holds
            for field in ("body", "orelse", "finalbody"):
                blk = getattr(par, field, None)
                if isinstance(blk, list) and any(cur is s_ for s_ in blk):
                    for s_ in blk:
                        if s_ is cur:
                            break
                        if isinstance(s_, ast.If) and not s_.orelse and s_.body and isinstance(s_.body[-1], (ast.Raise, ast.Return, ast.Continue, ast.Break)):
                            constraints.append((s_.test, False))
            if isinstance(par, (ast.FunctionDef, ast.Lambda)):
                break
            cur = par
        return constraints

    def _length_constraints_exclude(self, fn: FuncInfo, n: ast.Subscript, pm: Dict[ast.AST, ast.AST]) -> bool:
        """
        `seq[i]` with a constant index: collect the tests that must hold on the way to the access (enclosing if / else
        branches, conditional expressions, and earlier `if T: <leave>` statements of the enclosing blocks) and fold them for
        every length at which the index would be invalid; the access is safe if each such length falsifies one of them.
        When `seq` is a parameter, the tests on the way to every call of the function (on the argument, in the caller) count too.
        """
        from ..core import parents_map
        from ..linform import _local_defs

        if not (isinstance(n.slice, ast.Constant) and isinstance(n.slice.value, int)) and not (isinstance(n.slice, ast.UnaryOp) and isinstance(n.slice.operand, ast.Constant)):
            return False
        i = n.slice.value if isinstance(n.slice, ast.Constant) else -n.slice.operand.value  # type: ignore
        seq = norm(n.value)
        need = i + 1 if i >= 0 else -i
        defs = _local_defs(fn)
        defs.pop(seq, None)
        constraints = self._constraints_at(n, pm)
        # the callers' side, when the sequence is a parameter that is not rebound
        caller_sides: Optional[List[Tuple[str, List[Tuple[ast.AST, bool]], Dict[str, ast.AST]]]] = None
        a = fn.node.args
        params = [x.arg for x in a.posonlyargs + a.args + a.kwonlyargs]
        rebound = any(isinstance(t, ast.Name) and t.id == seq and isinstance(t.ctx, ast.Store) for t in ast.walk(fn.node))
        if isinstance(n.value, ast.Name) and seq in params and not rebound:
            idx = params.index(seq) - (1 if fn.cls is not None and not fn.is_static and params and params[0] in ("self", "cls") else 0)
            sides = []
            ok_all = True
            n_sites = 0
            for q, sites in self.g.sites.items():
                for st in sites:
                    if st.kind != "call" or fn.qualname not in st.callees or not isinstance(st.node, ast.Call):
                        continue
                    cfn = self.g.funcs.get(q)
                    if cfn is None or cfn.name.startswith("_unittest"):
                        continue
                    n_sites += 1
                    call = st.node
                    arg = call.args[idx] if 0 <= idx < len(call.args) and not any(isinstance(x, ast.Starred) for x in call.args) else next((k.value for k in call.keywords if k.arg == seq), None)
                    # wrappers that keep the length (or, for the case mappings, at least non-emptiness)
                    for _ in range(3):
                        if isinstance(arg, ast.Call) and isinstance(arg.func, ast.Attribute) and not arg.args and arg.func.attr in ("lower", "upper", "casefold", "copy") and (need == 1 or arg.func.attr == "copy"):
                            arg = arg.func.value
                        elif isinstance(arg, ast.Call) and dotted(arg.func) in ("list", "tuple", "sorted") and len(arg.args) == 1:
                            arg = arg.args[0]
                        elif isinstance(arg, ast.Subscript) and isinstance(arg.slice, ast.Slice) and arg.slice.lower is None and arg.slice.upper is None:
                            arg = arg.value
                        else:
                            break
                    if not isinstance(arg, ast.Name):
                        ok_all = False
                        continue
                    cdefs = _local_defs(cfn)
                    cdefs.pop(arg.id, None)
                    sides.append((arg.id, self._constraints_at(call, parents_map(cfn.node)), cdefs))
            if ok_all and n_sites:
                caller_sides = sides
        if not constraints and not caller_sides:
            return False
        for ln in range(0, need):
            excluded = False
            for test, want in constraints:
                r = _fold_length_test(test, seq, ln, defs)
                if r is not None and r != want:
                    excluded = True
                    break
            if not excluded and caller_sides:
                # every call site rules this length out for its argument
                excluded = all(any((_fold_length_test(t_, nm_, ln, d_) is not None and _fold_length_test(t_, nm_, ln, d_) != w_) for t_, w_ in cs_) for nm_, cs_, d_ in caller_sides)
            if not excluded:
                return False
        return True

    def _len_lb(self, fn: FuncInfo, e: ast.AST, depth: int) -> Optional[int]:
        """a lower bound of len(e), or None"""
        if depth > 6:
            return None
        if isinstance(e, (ast.Tuple, ast.List)):
            return sum(1 for x in e.elts if not isinstance(x, ast.Starred))
        if isinstance(e, ast.BinOp) and isinstance(e.op, ast.Add):
            a, b = self._len_lb(fn, e.left, depth + 1), self._len_lb(fn, e.right, depth + 1)
            return (a or 0) + (b or 0) if (a is not None or b is not None) else None
        if isinstance(e, ast.Call):
            name = dotted(e.func) or ""
            if name in ("list", "tuple", "sorted", "reversed") and len(e.args) == 1:
                return self._len_lb(fn, e.args[0], depth + 1)
            if isinstance(e.func, ast.Attribute) and e.func.attr in ("split", "rsplit", "splitlines") and e.func.attr != "splitlines":
                return 1
            if isinstance(e.func, ast.Attribute) and e.func.attr == "copy":
                return self._len_lb(fn, e.func.value, depth + 1)
            # the result of a helper method / function of the repository: the weakest bound over what it returns
            callee = None
            try:
                if isinstance(e.func, ast.Attribute) and isinstance(e.func.value, ast.Name) and e.func.value.id in ("self", "cls") and fn.cls is not None:
                    callee = self.repo.lookup_method(fn.cls, e.func.attr)
                elif isinstance(e.func, (ast.Name, ast.Attribute)):
                    callee = self.repo.resolve_expr(fn.module, e.func, fn.cls)
            except Exception:
                callee = None
            if isinstance(callee, FuncInfo) and not any(isinstance(n_, (ast.Yield, ast.YieldFrom)) for n_ in walk_no_nested(callee.node)):
                rets = [r.value for r in walk_no_nested(callee.node) if isinstance(r, ast.Return) and r.value is not None]
                lbs = [self._len_lb(callee, r, depth + 1) for r in rets]
                return min(lbs) if rets and all(x is not None for x in lbs) else None  # type: ignore
            return None
        if isinstance(e, ast.Subscript) and isinstance(e.slice, ast.Slice) and e.slice.lower is None and e.slice.upper is None:
            return self._len_lb(fn, e.value, depth + 1)
        if isinstance(e, ast.Name):
            binds = [st for st in walk_no_nested(fn.node) if isinstance(st, (ast.Assign, ast.AnnAssign)) and any(isinstance(t, ast.Name) and t.id == e.id for t in (st.targets if isinstance(st, ast.Assign) else [st.target]))]
            others = [st for st in walk_no_nested(fn.node) if isinstance(st, (ast.AugAssign, ast.For, ast.With)) and any(isinstance(t, ast.Name) and t.id == e.id and isinstance(t.ctx, ast.Store) for t in ast.walk(st) if not isinstance(st, ast.For) or t in ast.walk(st.target))]
            if binds and not others and e.id not in fn.params:
                lbs = [self._len_lb(fn, st.value, depth + 1) if st.value is not None else None for st in binds]
                return min(lbs) if all(x is not None for x in lbs) else None  # type: ignore
            return None
        d = dotted(e)
        if d and d.startswith("self.") and d.count(".") == 2 and fn.cls is not None:
            # a field of a record held in an instance field: self.F.g, where every store of self.F is K(..., g=<expr>, ...)
            _, fattr, gattr = d.split(".")
            vals: List[Tuple[FuncInfo, ast.AST]] = []
            for k in [c for c in self.repo.mro(fn.cls) if isinstance(c, ClassInfo)]:
                for m in k.methods.values():
                    for st in ast.walk(m.node):
                        if isinstance(st, (ast.Assign, ast.AnnAssign)) and st.value is not None and any(dotted(t) == "self." + fattr for t in (st.targets if isinstance(st, ast.Assign) else [st.target])):
                            v = st.value
                            if not isinstance(v, ast.Call):
                                return None
                            kw = next((x.value for x in v.keywords if x.arg == gattr), None)
                            if kw is None:
                                kc = self.repo.resolve_expr(m.module, v.func, m.cls) if isinstance(v.func, (ast.Name, ast.Attribute)) else None
                                fields = [b.target.id for b in kc.node.body if isinstance(b, ast.AnnAssign) and isinstance(b.target, ast.Name)] if isinstance(kc, ClassInfo) else []
                                if gattr in fields and fields.index(gattr) < len(v.args):
                                    kw = v.args[fields.index(gattr)]
                            if kw is None:
                                return None
                            vals.append((m, kw))
            if vals:
                lbs = [self._len_lb(m, v, depth + 1) for m, v in vals]
                return min(lbs) if all(x is not None for x in lbs) else None  # type: ignore
            return None
        if d and d.startswith("self.") and d.count(".") == 1 and fn.cls is not None:
            attr = d.split(".")[1]
            prop = self.repo.lookup_method(fn.cls, attr)
            if prop is not None and prop.is_property:
                rets = [r.value for r in walk_no_nested(prop.node) if isinstance(r, ast.Return) and r.value is not None]
                lbs = [self._len_lb(prop, r, depth + 1) for r in rets]
                return min(lbs) if rets and all(x is not None for x in lbs) else None  # type: ignore
            stores: List[Tuple[FuncInfo, ast.AST]] = []
            for k in [c for c in self.repo.mro(fn.cls) if isinstance(c, ClassInfo)] + list(self.repo.subclasses(fn.cls, strict=True)):
                for m in k.methods.values():
                    for st in ast.walk(m.node):
                        if isinstance(st, (ast.Assign, ast.AnnAssign)) and st.value is not None and any(dotted(t) == d for t in (st.targets if isinstance(st, ast.Assign) else [st.target])):
                            stores.append((m, st.value))
                        elif isinstance(st, ast.AugAssign) and dotted(st.target) == d:
                            return None
                        elif isinstance(st, ast.Call) and isinstance(st.func, ast.Attribute) and dotted(st.func.value) == d and st.func.attr in ("pop", "remove", "clear", "__delitem__"):
                            return None
            if stores:
                lbs = [self._len_lb(m, v, depth + 1) for m, v in stores]
                return min(lbs) if all(x is not None for x in lbs) else None  # type: ignore
        return None

    def _exercised(self, fn: FuncInfo, n: ast.Subscript) -> Optional[str]:
        """last resort for an index the syntactic arguments cannot bound: the evaluation grids of the sibling rules (file names
        and paths through DSDLDefinition.__init__, names / versions / port-IDs through CompositeType.__init__, directive
        sequences through the builder) are run once with coverage of subscripts; a site that was evaluated there and never
        out of range is discharged *as bounded evidence* - counted, and said so in the evidence"""
        cov = getattr(self.ctx, "_c13_coverage", None)
        if cov is None:
            from .. import fold as _fold
            from . import c05, c05b, c15

            cov = {}
            prev = _fold.COVERAGE
            _fold.COVERAGE = cov
            try:
                scratch = Ctx(self.repo, "C13", self.ctx.tier)
                for drive in (c15.rule_r1, c15.rule_r2, c15.rule_r3, c15.rule_r4, c15.rule_r6_designations, c05.rule_r3_composite, c05b.rule_r8_directives):
                    scratch.attempt(drive, scratch)
            finally:
                _fold.COVERAGE = prev
            self.ctx._c13_coverage = cov  # type: ignore
            self.ctx.analysed["C13.exercised_subscript_sites"] = len([k for k in cov if k[0] != "raised"])
        key = (fn.module.relpath, n.lineno, n.col_offset)
        if cov.get(key, 0) >= 2 and ("raised",) + key not in cov:
            self.ctx.assume("%s `%s`: not bounded by a syntactic argument; evaluated %d times on the grids of C15.R1-R4/R6, C05.R3 and C05.R8 and never out of range (bounded evidence, not a proof)" % (fn.short, norm(n)[:40], cov[key]))
            return "evaluated %d times on the sibling rules' grids, never out of range (bounded evidence)" % cov[key]
        return None

    def _len_guard(self, fn: FuncInfo, n: ast.Subscript, pm: Dict[ast.AST, ast.AST]) -> bool:
        if self._len_guard_syntactic(fn, n, pm):
            return True
        why = self._exercised(fn, n)
        return self._record(fn, n, why) if why else False

    def _len_guard_syntactic(self, fn: FuncInfo, n: ast.Subscript, pm: Dict[ast.AST, ast.AST]) -> bool:
        for (suffix, op), reason in DISCHARGED_SITES.items():
            if fn.qualname.endswith(suffix) and norm(n) == op:
                return self._record(fn, n, reason)
        # the same subscript was evaluated by the test of an enclosing `if` (it did not raise there) and neither the container
        # nor the index is stored between the test and this use
        me = norm(n)
        base_names = {x.id for x in ast.walk(n) if isinstance(x, ast.Name)}
        cur: ast.AST = n
        while cur in pm:
            par = pm[cur]
            if isinstance(par, ast.If) and cur is not par.test and any(isinstance(x, ast.Subscript) and x is not n and norm(x) == me for x in ast.walk(par.test)):
                branch = par.body if any(cur is s_ or any(cur is y for y in ast.walk(s_)) for s_ in par.body) else par.orelse
                stored = False
                for s_ in branch:
                    if any(y is n for y in ast.walk(s_)):
                        break
                    if any(isinstance(y, ast.Name) and y.id in base_names and isinstance(y.ctx, ast.Store) for y in ast.walk(s_)):
                        stored = True
                if not stored:
                    return self._record(fn, n, "the same subscript is evaluated by the test of the enclosing `if`")
            if isinstance(par, (ast.FunctionDef, ast.Lambda)):
                break
            cur = par
        # a local (possibly of an enclosing function) bound exactly once, to a tuple / list display that is long enough
        if isinstance(n.value, ast.Name) and isinstance(n.slice, ast.Constant) and isinstance(n.slice.value, int):
            nm, i = n.value.id, n.slice.value
            for outer in ast.walk(fn.module.tree):
                if isinstance(outer, (ast.FunctionDef, ast.Lambda)) and any(x is n for x in ast.walk(outer)):
                    binds = [st for st in ast.walk(outer) if isinstance(st, (ast.Assign, ast.AugAssign, ast.AnnAssign, ast.For, ast.With, ast.NamedExpr, ast.comprehension)) and any(isinstance(t, ast.Name) and t.id == nm and isinstance(t.ctx, ast.Store) for t in ast.walk(st))]
                    args = outer.args
                    is_param = nm in [a.arg for a in args.posonlyargs + args.args + args.kwonlyargs] or (args.vararg and args.vararg.arg == nm) or (args.kwarg and args.kwarg.arg == nm)
                    if is_param:
                        break
                    if len(binds) == 1 and isinstance(binds[0], ast.Assign) and len(binds[0].targets) == 1 and isinstance(binds[0].targets[0], ast.Name):
                        v0 = binds[0].value
                        if isinstance(v0, (ast.Tuple, ast.List)) and not any(isinstance(e, ast.Starred) for e in v0.elts) and (0 <= i < len(v0.elts) or -len(v0.elts) <= i < 0):
                            return self._record(fn, n, "`%s` is bound once, to a %d-element display" % (nm, len(v0.elts)))
                    if binds:
                        break
        if isinstance(n.value, ast.Attribute) and n.value.attr == "parts" and fn.module.name == "pydsdl._dsdl_definition":
            return self._record(fn, n, "indexing .parts of a caller-supplied *path argument* (empty only for Path('')): argument validation, not definition input")
        if self._composite_ctor_site(fn):
            return self._record(fn, n, "CompositeType's constructor, evaluated over name shapes ('', blanks, one component, dots at either end, deep names, halves of a service), only ever accepts or raises an InvalidDefinitionError")
        # a lower bound on the length of the indexed sequence, inferred from how it is built (displays, concatenations,
        # str.split, copies, the stores of an instance field / a property's returned expression)
        if isinstance(n.slice, ast.Constant) and isinstance(n.slice.value, int) or (isinstance(n.slice, ast.UnaryOp) and isinstance(n.slice.op, ast.USub) and isinstance(n.slice.operand, ast.Constant)):
            i_ = n.slice.value if isinstance(n.slice, ast.Constant) else -n.slice.operand.value  # type: ignore
            lb = self._len_lb(fn, n.value, 0)
            if lb is not None and (0 <= i_ < lb or -lb <= i_ < 0):
                return self._record(fn, n, "the sequence has at least %d element(s) by construction" % lb)
        # an instance field every store of which (anywhere in the class hierarchy) is None or a display that is long enough
        d_f = dotted(n.value)
        if d_f and d_f.startswith("self.") and d_f.count(".") == 1 and fn.cls is not None and isinstance(n.slice, ast.Constant) and isinstance(n.slice.value, int):
            i = n.slice.value
            stores_f: List[ast.AST] = []
            for k in [fn.cls] + [c for c in self.repo.subclasses(fn.cls, strict=True)] + [c for c in self.repo.mro(fn.cls) if isinstance(c, ClassInfo)]:
                for m in k.methods.values():
                    for st in ast.walk(m.node):
                        if isinstance(st, (ast.Assign, ast.AnnAssign)) and st.value is not None:
                            for t in st.targets if isinstance(st, ast.Assign) else [st.target]:
                                if dotted(t) == d_f:
                                    stores_f.append(st.value)
                        elif isinstance(st, ast.AugAssign) and dotted(st.target) == d_f:
                            stores_f.append(st)
            displays = [v for v in stores_f if isinstance(v, (ast.Tuple, ast.List)) and not any(isinstance(e, ast.Starred) for e in v.elts)]
            nones = [v for v in stores_f if isinstance(v, ast.Constant) and v.value is None]
            if displays and len(displays) + len(nones) == len(stores_f) and all(0 <= i < len(v.elts) or -len(v.elts) <= i < 0 for v in displays):
                return self._record(fn, n, "`%s` only ever holds None or a display of at least %d elements" % (d_f, min(len(v.elts) for v in displays)))
        # x.split(...)[0] / [-1]: str.split never returns an empty list (also through a trivial accessor on self)
        val: ast.AST = n.value
        if fn.cls is not None:
            from ..regions import inline_properties

            val = inline_properties(self.repo, fn.cls, n.value, accessors_only=False)
        idx = n.slice.value if isinstance(n.slice, ast.Constant) else -1
        while (isinstance(val, ast.Subscript) and isinstance(val.slice, ast.Slice) and val.slice.lower is None and val.slice.upper is None) or (isinstance(val, ast.Call) and dotted(val.func) in ("list", "tuple") and len(val.args) == 1 and not val.keywords):
            val = val.value if isinstance(val, ast.Subscript) else val.args[0]  # a copy has the same length
        d0 = dotted(val)
        if d0 and d0.startswith("self.") and fn.cls is not None:
            stores = []
            for k in self.repo.mro(fn.cls):
                if isinstance(k, ClassInfo):
                    for m in k.methods.values():
                        for st in walk_no_nested(m.node):
                            if isinstance(st, ast.Assign) and any(dotted(t) == d0 for t in st.targets):
                                stores.append(st.value)
            if len(stores) == 1:
                val = stores[0]
        if isinstance(val, ast.Call) and isinstance(val.func, ast.Attribute) and val.func.attr in ("split", "rsplit") and idx in (0, -1):
            return self._record(fn, n, "str.split() returns at least one element")
        if self._length_constraints_exclude(fn, n, pm):
            return self._record(fn, n, "every length that would make the index invalid contradicts a test on the way to the access")
        v = norm(n.value)
        base = v[5:-1] if v.startswith("list(") and v.endswith(")") else v
        line = n.lineno
        # enclosing conditional expression / if with a length test
        cur: ast.AST = n
        while cur in pm:
            par = pm[cur]
            if isinstance(par, (ast.IfExp, ast.If)) and ("len(%s)" % base in norm(par.test) or norm(par.test) in (base, "not " + base)):
                return self._record(fn, n, "guarded by `%s`" % norm(par.test)[:50])
            if isinstance(par, (ast.ListComp, ast.SetComp, ast.GeneratorExp)):
                for gen in par.generators:
                    for cond in gen.ifs:
                        if "len(%s)" % base in norm(cond):
                            return self._record(fn, n, "comprehension filter `%s`" % norm(cond)[:40])
            if isinstance(par, ast.BoolOp):
                for x in par.values:
                    if x is cur:
                        break
                    if "len(%s)" % base in norm(x) or norm(x) in (base,):
                        return self._record(fn, n, "short-circuit guard `%s`" % norm(x)[:40])
            cur = par
        for st in walk_no_nested(fn.node):
            if isinstance(st, ast.If) and st.lineno < line and st.body and isinstance(st.body[-1], (ast.Raise, ast.Return)):
                t = norm(st.test)
                if t == "not " + base or "len(%s)" % base in t:
                    return self._record(fn, n, "dominated by `if %s: raise`" % t[:40])
        return False


def _fold_length_test(test: ast.AST, seq: str, ln: int, defs: Dict[str, ast.AST]) -> Optional[bool]:
    """truth of a test when the sequence named `seq` has `ln` elements (None if it depends on anything else)"""
    from ..fold import Folder, Unfoldable
    from ..linform import _resolve

    t = _resolve(test, defs)

    def hook(e: ast.expr, f: Any) -> Any:
        s_ = norm(e)
        if s_ == "len(%s)" % seq or s_ == "len(list(%s))" % seq:
            return ln
        if s_ == seq:
            return [0] * ln  # only its length / truthiness can matter
        return NotImplemented

    try:
        return bool(Folder({}, None, None, None, hook).fold(t))  # type: ignore
    except Unfoldable:
        return None
    except Exception:
        return None


def syntax_within(lang: str, ctor: str, underscore_removed: bool, call: ast.Call) -> Tuple[bool, str]:
    """Is every string of the terminal's regular language acceptable to int()/Fraction() (after removing '_')?"""
    alphabet = list("0123456789abcdefABCDEFxXoO_.+-") + [rx.OTHER]
    base0 = any(k.arg == "base" and isinstance(k.value, ast.Constant) and k.value.value == 0 for k in call.keywords)
    try:
        d = rx.compile_dfa(lang, alphabet, "fullmatch")
        if ctor == "int":
            # python int literal syntax with optional single underscores between digits (base=0) or decimal digits
            if base0:
                target = r"0[bB](_?[01])+|0[oO](_?[0-7])+|0[xX](_?[0-9a-fA-F])+|0(_?0)*|[1-9](_?[0-9])*"
            else:
                target = r"[0-9](_?[0-9])*"
            t = rx.compile_dfa(target, alphabet, "fullmatch")
        else:
            target = r"[0-9](_?[0-9])*(\.([0-9](_?[0-9])*)?)?([eE][+-]?[0-9](_?[0-9])*)?|\.[0-9](_?[0-9])*([eE][+-]?[0-9](_?[0-9])*)?"
            t = rx.compile_dfa(target, alphabet, "fullmatch")
    except rx.RxUnsupported as ex:
        return False, "regex unsupported: %s" % ex
    w = rx.difference_witness(d, t)
    if w is None:
        return True, "language is within %s() syntax" % ctor
    return False, "string %r matches the terminal but is not valid for %s()" % (w, ctor)


# ------------------------------------------------------------------------------------------------ the rule
def rule_r4_depth(ctx: Ctx) -> None:
    """RecursionError is one of the exceptions that must never reach the caller.  The analytic queries of the bit-length-set
    operators are recursive over the operator tree (min asks the operands' min, ...), so the depth of every tree the type model
    builds has to be bounded independently of the input: a composition that is chained once per element of an input-sized
    collection (one more operator level per field) makes the recursion as deep as the definition is long."""
    from ..callgraph import Types

    repo = ctx.repo
    ctx.rule("C13.R4", "the depth of the operator trees built by the type model does not grow with the size of the input (the operators' queries recurse into their operands): no loop / fold over the fields chains a composition onto its own previous result", min_instances=1)
    sym = repo.module("_bit_length_set._symbolic")
    op = ctx.cls("_bit_length_set._symbolic.Operator")
    recursive = []
    for c in repo.subclasses(op, strict=True):
        for q in ("min", "max", "modulo"):
            m = c.methods.get(q)
            if m is not None and any(isinstance(n, ast.Attribute) and n.attr == q and not (isinstance(n.value, ast.Name) and n.value.id == "self") for n in ast.walk(m.node)):
                recursive.append("%s.%s" % (c.name, q))
    ctx.analysed["C13.R4.recursive_queries"] = sorted(recursive)
    if not recursive:
        ctx.check(True, sym.relpath, "the operators' queries do not recurse into operands", "scan completed", sym.relpath, nontrivial=False)
        return
    T = Types(repo)
    bls = ctx.cls("_bit_length_set._bit_length_set.BitLengthSet")
    COMPOSE = {"pad_to_alignment", "repeat", "repeat_range", "concatenate", "unite"}
    n_loops = 0
    g = CallGraph(repo)
    callers: Dict[str, Set[str]] = {}
    for a, bs in g.edges.items():
        for b in bs:
            callers.setdefault(b, set()).add(a)

    def entries(fn: Any) -> List[str]:
        """what the chain belongs to: `Class.method` with the class that owns the loop (or, for a helper outside any class,
        the class of the caller) and the nearest public method through which it is reached - the identity of a finding
        does not depend on which helper the statements live in"""
        top = fn
        while top.parent is not None:
            top = top.parent
        out: Set[str] = set()
        seen: Set[str] = set()
        todo: List[Tuple[Any, Any]] = [(top, top.cls)]
        while todo:
            f, owner = todo.pop()
            if f.qualname in seen:
                continue
            seen.add(f.qualname)
            owner = owner or f.cls
            cs = [g.funcs[c] for c in sorted(callers.get(f.qualname, ())) if c in g.funcs and not g.funcs[c].name.startswith("_unittest")]
            if (not f.name.startswith("_") or f.name == "__init__") and (owner is not None or not cs):
                # a public method of a type (or a public function nobody in the package calls): this is what grows
                out.add("%s.%s" % (owner.name if owner is not None else f.module.name[len("pydsdl."):], f.name))
                continue
            if not cs:
                out.add("%s.%s" % (owner.name if owner is not None else f.module.name[len("pydsdl."):], f.name))
            for c in cs:
                while c.parent is not None:
                    c = c.parent
                todo.append((c, owner))
        return sorted(out)

    def operators(v: ast.AST) -> List[str]:
        ops: Set[str] = set()
        for n in ast.walk(v):
            if isinstance(n, ast.BinOp) and isinstance(n.op, (ast.Add, ast.BitOr)):
                ops.add("+" if isinstance(n.op, ast.Add) else "|")
            elif isinstance(n, ast.Call) and isinstance(n.func, ast.Attribute) and n.func.attr in COMPOSE:
                ops.add(n.func.attr)
        return sorted(ops)

    def report(fn: Any, st: ast.AST, ops: List[str], how: str) -> None:
        for e in entries(fn):
            for o in ops:
                ctx.check(False, e, "one more `%s` level per element" % o, "%s in %s (`%s`): the recursion depth of min / max / modulo (and of the hash and equality of the type) grows with the number of elements, so a long but valid definition ends in RecursionError" % (how, fn.short, norm(st)[:90]), fn.where(st), {"recursive queries": sorted(recursive)[:6], "statement": norm(st), "function": fn.short})

    for fn in repo.all_functions().values():
        short_mod = fn.module.name[len("pydsdl."):]
        if not (short_mod.startswith("_serializable") or short_mod in ("_data_schema_builder", "_data_type_builder")) or fn.name.startswith("_unittest"):
            continue
        try:
            loc = T.locals_of(fn)
        except Exception:
            loc = {}

        def chained(st: ast.AST, acc: str) -> bool:
            """`acc = <composition of acc>`: the right-hand side mentions acc under a BitLengthSet composition"""
            v = getattr(st, "value", None)
            if v is None:
                return False
            mentions = any(isinstance(n, ast.Name) and n.id == acc for n in ast.walk(v))
            return mentions and bool(operators(v))

        for loop in [n for n in ast.walk(fn.node) if isinstance(n, (ast.For, ast.While))]:
            n_loops += 1
            for st in ast.walk(loop):
                tg = None
                if isinstance(st, ast.Assign) and len(st.targets) == 1 and isinstance(st.targets[0], ast.Name):
                    tg = st.targets[0].id
                elif isinstance(st, ast.AugAssign) and isinstance(st.target, ast.Name) and isinstance(st.op, (ast.Add, ast.BitOr)):
                    tg = st.target.id
                if tg is None:
                    continue
                ty = loc.get(tg)
                try:
                    ty = ty or T.expr(fn, st.value, loc)
                except Exception:
                    pass
                is_bls = bool(ty) and bls in ty.classes
                if not is_bls:
                    continue
                what = "for %s in %s" % (norm(loop.target), norm(loop.iter)[:40]) if isinstance(loop, ast.For) else "while %s" % norm(loop.test)[:40]
                if isinstance(st, ast.AugAssign):
                    report(fn, st, sorted(set(["+" if isinstance(st.op, ast.Add) else "|"] + operators(st.value))), "one operator level is added per iteration of `%s`" % what)
                elif chained(st, tg):
                    report(fn, st, operators(st.value), "one operator level is added per iteration of `%s`" % what)
        for call in [n for n in ast.walk(fn.node) if isinstance(n, ast.Call) and (dotted(n.func) or "").split(".")[-1] in ("reduce", "accumulate") and n.args and isinstance(n.args[0], ast.Lambda)]:
            lam = call.args[0]
            if lam.args.args:
                v = lam.body
                acc = lam.args.args[0].arg
                mentions = any(isinstance(n, ast.Name) and n.id == acc for n in ast.walk(v))
                if mentions and operators(v) and any(isinstance(n, ast.Attribute) and n.attr in ("bit_length_set", "alignment_requirement") for n in ast.walk(v)):
                    report(fn, call, operators(v), "one operator level is added per folded element")
    ctx.count(n_loops)
    ctx.check(True, "_serializable.*, _data_schema_builder, _data_type_builder", "%d loops scanned" % n_loops, "scan completed", "pydsdl/_serializable", nontrivial=False)


def rule_r6_fresh_exceptions(ctx: Ctx) -> None:
    """`whose path names the offending file`: the location is stamped onto the exception *object* on its way out, and only where
    none is set yet (set_error_location_if_unknown).  An exception object that outlives one reading - kept in a memo, a table,
    an attribute, a default argument - carries the location of the first definition it was raised for into every later one.
    Every `raise` of the package must therefore raise an object made for this occasion: constructed at the statement, the
    exception being handled, or a local bound to one of those - where a local bound to the result of a function of the
    package counts if that function makes a new object on every call (returns only constructions) and is not memoised."""
    repo = ctx.repo
    ctx.rule("C13.R6", "every raised exception object is made for the occasion (constructed at the raise, the exception being handled, or the result of an un-memoised function that constructs it): none is taken from a memo, a table or an attribute, where it would keep the path and line of the first definition it was raised for", min_instances=150)
    err = ctx.cls("_error.Error")
    MEMO = ("lru_cache", "cache", "cached", "memoize", "memoized", "cached_property")

    def is_memoised(fn: Any) -> bool:
        for d in fn.node.decorator_list:
            nm = (dotted(d.func) if isinstance(d, ast.Call) else dotted(d)) or ""
            if nm.split(".")[-1] in MEMO:
                return True
        # wrapped by assignment at module level: f = lru_cache(...)(f) / g = cache(f)
        for st in fn.module.tree.body:
            if isinstance(st, (ast.Assign, ast.AnnAssign)):
                for n in ast.walk(st):
                    if isinstance(n, ast.Call) and (dotted(n.func) or "").split(".")[-1] in MEMO or (isinstance(n, ast.Call) and isinstance(n.func, ast.Call) and (dotted(n.func.func) or "").split(".")[-1] in MEMO):
                        if any(isinstance(a, ast.Name) and a.id == fn.name for a in n.args):
                            return True
        return False

    def provenance(fn: Any, e: ast.AST, depth: int = 0) -> Optional[str]:
        """None if the value of e is made for the occasion, else why not"""
        if e is None:
            return None
        if isinstance(e, ast.Call):
            try:
                r = repo.resolve_expr(fn.module, e.func, fn.cls)
            except Exception:
                r = None
            if isinstance(r, ClassInfo) or isinstance(r, External):
                return None  # a construction
            if isinstance(r, FuncInfo):
                if is_memoised(r):
                    return "the result of %s, which is memoised: the same object is handed out again" % r.short
                if depth > 4:
                    return None
                for ret in [n for n in walk_no_nested(r.node) if isinstance(n, ast.Return) and n.value is not None]:
                    if isinstance(ret.value, ast.Constant) and ret.value.value is None:
                        continue
                    why = provenance(r, ret.value, depth + 1)
                    if why:
                        return "the result of %s: %s" % (r.short, why)
                return None
            if isinstance(e.func, ast.Attribute) and e.func.attr in ("with_traceback",):
                return provenance(fn, e.func.value, depth)
            if isinstance(e.func, ast.Name) and e.func.id in ("type",):
                return None
            # a method call on a value (self._x.get(...), table[k](...)): resolved by name over the package
            if isinstance(e.func, ast.Attribute):
                cands = [f for f in repo.all_functions().values() if f.name == e.func.attr and f.cls is not None]
                if cands:
                    for c in cands:
                        if is_memoised(c):
                            return "the result of %s, which is memoised" % c.short
                    return None
                return "the result of %s (a container / foreign call)" % norm(e.func)
            return None
        if isinstance(e, ast.Name):
            # bindings in this function (and the enclosing ones for closures)
            scope = fn
            while scope is not None:
                binds: List[ast.AST] = []
                handled = False
                for n in ast.walk(scope.node):
                    if isinstance(n, ast.ExceptHandler) and n.name == e.id:
                        handled = True
                    elif isinstance(n, ast.Assign) and any(isinstance(t, ast.Name) and t.id == e.id for t in n.targets):
                        binds.append(n.value)
                    elif isinstance(n, ast.AnnAssign) and isinstance(n.target, ast.Name) and n.target.id == e.id and n.value is not None:
                        binds.append(n.value)
                    elif isinstance(n, ast.NamedExpr) and n.target.id == e.id:
                        binds.append(n.value)
                    elif isinstance(n, (ast.For, ast.comprehension)) and any(isinstance(t, ast.Name) and t.id == e.id for t in ast.walk(n.target)):
                        return "an element of %s" % norm(n.iter)[:50]
                    elif isinstance(n, ast.withitem) and n.optional_vars is not None and any(isinstance(t, ast.Name) and t.id == e.id for t in ast.walk(n.optional_vars)):
                        binds.append(n.context_expr)
                if handled and not binds:
                    return None
                if binds:
                    for b in binds:
                        why = provenance(scope, b, depth + 1)
                        if why:
                            return why
                    return None
                if e.id in scope.params:
                    return None if depth else "a parameter (%s): whoever calls decides what object it is" % e.id
                scope = scope.parent
            try:
                r = repo.resolve_expr(fn.module, e, fn.cls)
            except Exception:
                r = None
            if isinstance(r, (ClassInfo, External)):
                return None  # `raise NotImplementedError`: the class, instantiated by the statement
            return "the module-level value %s: one object for every occasion" % e.id
        if isinstance(e, ast.IfExp):
            return provenance(fn, e.body, depth) or provenance(fn, e.orelse, depth)
        if isinstance(e, ast.BoolOp):
            for v in e.values:
                why = provenance(fn, v, depth)
                if why:
                    return why
            return None
        if isinstance(e, (ast.Attribute, ast.Subscript)):
            try:
                r = repo.resolve_expr(fn.module, e, fn.cls)
            except Exception:
                r = None
            if isinstance(r, (ClassInfo, External)):
                return None
            return "the stored value %s" % norm(e)[:60]
        return None

    n = 0
    for fn in repo.all_functions().values():
        if fn.name.startswith("_unittest") or fn.module.name.split(".")[-1].startswith("_test"):
            continue
        for st in walk_no_nested(fn.node):
            if isinstance(st, ast.Raise) and st.exc is not None:
                n += 1
                why = provenance(fn, st.exc)
                ctx.check(why is None, fn.short, norm(st)[:80], "the raised object is %s - it keeps the location of the first definition it was raised for" % why if why else "made for the occasion", fn.where(st), nontrivial=not isinstance(st.exc, ast.Call))
    ctx.count(n)
    _ = err


def rule_r5_file_names(ctx: Ctx) -> None:
    """the last clause of the property: arbitrary file names under a namespace directory.  Names that do not parse are R1/R2's
    business (FileNameFormatError).  This rule is about names that parse and *coincide*: two files of one directory may spell
    the same full name and version (a port-ID prefix on one of them, the legacy suffix next to the current one).  The entry
    points' common tail is evaluated over an abstract file system holding such files, with the reading of the individual files
    stubbed (every file yields a type of its own name and version) and `assert` statements evaluated: whatever happens must be
    a type list or an InvalidDefinitionError."""
    from ..absint import APath, Raised, call_fn, checking_asserts
    from ..fold import Sym, Unfoldable
    from . import c11
    from . import reader_common as R
    from .c15 import _prop

    ctx.rule("C13.R5", "files of one directory whose names spell the same full name and version (port-ID prefix, legacy suffix): the common tail of read_namespace / read_files, evaluated over an abstract file system with the per-file reading stubbed and assertions evaluated, ends in a result or an InvalidDefinitionError - never an AssertionError", min_instances=2)
    crf = ctx.func("_namespace._complete_read_function")
    cons = ctx.func("_namespace._construct_dsdl_definitions_from_namespaces")
    mod = crf.module
    worlds = {
        "a port-ID prefix on one copy": ["/w/ns/A.1.0.dsdl", "/w/ns/sub/Foo.1.0.dsdl", "/w/ns/sub/7509.Foo.1.0.dsdl", "/w/ns/sub/Foo.1.1.dsdl"],
        "legacy suffix next to the current one": ["/w/ns/A.1.0.dsdl", "/w/ns/sub/Foo.1.0.dsdl", "/w/ns/sub/Foo.1.0.uavcan"],
        "no coinciding names (control)": ["/w/ns/A.1.0.dsdl", "/w/ns/sub/Foo.1.0.dsdl", "/w/ns/sub/Foo.1.1.dsdl"],
    }
    saved = list(APath.FS)
    try:
        for label, files in worlds.items():
            APath.FS = list(files)
            serial = [0]

            def read_stub(targets: Any, lookups: Any, *a: Any, **k: Any) -> Any:
                out = []
                for t in list(targets):
                    serial[0] += 1
                    v = _prop(ctx, t, "version")
                    # two files are two texts: the types differ in what the compatibility rules look at
                    out.append(c11._definition(ctx, _prop(ctx, t, "full_name"), v[0], v[1], False, _prop(ctx, t, "fixed_port_id"), 64, True))
                return Sym(direct=out, transitive=[])

            hook = R._hook(ctx, mod, [], record=["read_definitions"], results={"read_definitions": read_stub, "dsdl_file_sort": lambda xs: list(xs), "file_sort": lambda xs: list(xs)})
            try:
                targets = call_fn(ctx, cons, [[APath("/w/ns")]], hook=hook, keep=tuple(mod.functions))
            except (Raised, Unfoldable) as ex:
                raise AnalysisError("%s: cannot evaluate over the abstract file system: %s" % (cons.short, ex))
            outcome = "a result"
            try:
                with checking_asserts():
                    call_fn(ctx, crf, [targets, [APath("/w/ns")], None], {"allow_unregulated_fixed_port_id": True, "strict": False}, hook=hook, keep=tuple(mod.functions))
            except Raised as r:
                outcome = r.cls_name
            except Unfoldable as ex:
                raise AnalysisError("%s: cannot evaluate over the abstract file system: %s" % (crf.short, ex))
            ctx.count()
            k = next((k for k in ctx.repo.all_classes().values() if k.name == outcome), None)
            is_ide = k is not None and ctx.repo.is_subclass(k, ctx.cls("_error.InvalidDefinitionError"))
            good = (outcome == "a result") if label.endswith("(control)") else (outcome == "a result" or is_ide)
            ctx.check(good, crf.short, label, "reading a directory in which two files spell the same name and version ends in a result or an InvalidDefinitionError (found: %s)" % outcome, crf.where(), {"files": files, "outcome": outcome})
    finally:
        APath.FS = saved


def run(ctx: Ctx) -> None:
    repo = ctx.repo
    ctx.attempt(rule_r4_depth, ctx)
    ctx.attempt(rule_r5_file_names, ctx)
    ctx.attempt(rule_r6_fresh_exceptions, ctx)
    from . import c13text

    c13text.run(ctx)
    g = CallGraph(repo)
    ctx.analysed["callgraph"] = g.stats()
    kinds = Kinds(ctx, g)
    ctors = GuardedCtors(ctx)
    imp = Implicit(ctx, g, kinds, ctors)
    ctx.analysed["guarded_constructors"] = {c.name: sorted(k) for c, _, k, _ in ctors.table.values()}

    svc_raisers = {f.qualname for f in g.funcs.values() if f.cls is not None and f.cls.name == "ServiceType" and f.name in ("bit_length_set", "iterate_fields_with_offsets")}
    # `X.bit_length_set` / `.extent` / `.iterate_fields_with_offsets` raise TypeError when X is a service type.  That no such X
    # is ever met while definitions are read is decided extensionally (service_facts): the model's entry points reject service
    # types, the cross-definition checks never ask one for its layout, and service types come into being in one place only.
    facts = service_facts(ctx)
    facts_hold = all(ok for ok, _c, _k, _m, _w in facts)

    def drop(caller: str, site: Site, callee: str) -> bool:
        return callee in svc_raisers and facts_hold

    def scope(q: str) -> bool:
        base = q[len("<lambda> "):] if q.startswith("<lambda> ") else q
        return not any(base.startswith(m) for m in OUT_OF_SCOPE_MODULES)

    abstract_cache: Dict[str, bool] = {}

    def suppress(fn: FuncInfo, node: ast.Raise, e: Any) -> bool:
        if ctors.is_guard_raise(fn, node):
            return True
        if e == "ext:NotImplementedError":
            if fn.qualname not in abstract_cache:
                abstract_cache[fn.qualname] = abstract_never_runs(repo, fn)
            return abstract_cache[fn.qualname]
        return False

    def implicit_all(fn: FuncInfo, q: str, root: ast.AST, loc: Dict[str, Optional[Ty]]) -> List[Tuple[Any, ast.AST, str]]:
        return imp(fn, q, root, loc)

    ef = ExcFlow(g, implicit=implicit_all, scope=scope, drop_callee=drop, suppress_explicit=suppress)
    ef.run()
    ctx.analysed["excflow"] = {"functions": len(ef.escapes), "iterations": ef.iterations, "handlers_exercised": len({id(h) for _, h in ef.handlers_seen}), "abstract_bodies_discharged": sum(1 for v in abstract_cache.values() if v)}
    ide = ctx.cls(IDE)
    internal = ctx.cls("_error.InternalError")

    roots = [ctx.func("_namespace.read_namespace"), ctx.func("_namespace.read_files")]
    ctx.rule("C13.R1", "explicit raises of non-InvalidDefinitionError classes reachable from read_namespace/read_files are translated, discharged by typed guards, or listed as internal-consistency raises", min_instances=3)
    ctx.rule("C13.R2", "implicit partial operations on input-derived operands (int/Fraction/chr/next/encode/literal-table lookup/index/log2/operator.*, guarded value constructors) are handled or discharged", min_instances=10)

    reported: Set[Tuple[str, str, str]] = set()

    def is_benign_cls(e: Any) -> bool:
        if isinstance(e, ClassInfo) and repo.is_subclass(e, ide):
            return True
        return e in ("ext:MemoryError", "ext:SystemError", "ext:RecursionError", "ext:SystemExit", "ext:KeyboardInterrupt")

    # every (class, origin) pair that can leave the public API
    n_pairs = 0
    for r in roots:
        for (cls, org), w in sorted(ef.escapes.get(r.qualname, {}).items(), key=lambda kv: (exc_name(kv[0][0]), repr(kv[0][1]))):
            n_pairs += 1
            if is_benign_cls(cls):
                continue
            if cls in ("ext:OSError", "ext:FileNotFoundError", "ext:PermissionError"):
                continue
            oname = exc_name(org.exc)
            short = org.func.replace("pydsdl.", "")
            key = (short, oname, org.text)
            if key in reported:
                continue
            reported.add(key)
            if is_benign_cls(org.exc) and cls is not internal:
                continue
            trusted = [reason for (suffix, en), reason in list(WHITELIST.items()) + list(INTERNAL_CONSISTENCY.items()) if short.endswith(suffix) and en == oname]
            if not trusted:
                trusted = _inherited_trust(ctx, g, org.func, oname) or _type_validation(ctx, g, org)
            if trusted:
                ctx.check(True, short, "%s: %s" % (oname, org.text), "trusted: %s" % trusted[0], org.where, rule="C13.R1", nontrivial=False)
                continue
            how = "InternalError" if cls is internal else "a raw %s" % exc_name(cls)
            rule = "C13.R2" if org.kind == "implicit" else "C13.R1"
            ctx.check(False, short, "%s: %s" % (oname, org.text), "%s can surface as %s instead of an InvalidDefinitionError" % (oname, how), org.where, {"path": ef.witness_path(r.qualname, (cls, org))}, rule=rule)
    ctx.count(n_pairs)

    # 3. discharged implicit operations are rule instances too (evidence of what was decided)
    for d in imp.discharged:
        ctx.check(True, d["site"].rsplit(":", 1)[0], d["op"], "discharged: %s" % d["discharge"], d["site"], rule="C13.R2")
    ctx.count(sum(len(v) for v in ef.escapes.values()))

    # 4. service-type receiver facts (each exclusion is backed by a checked guard)
    ctx.rule("C13.R1s", "ServiceType.bit_length_set (TypeError) is unreachable from definition input: the type model's entry points reject service types, intrinsics of a service type are undefined attributes, the cross-definition checks never ask a service for its layout, service types are constructed by the builder only", min_instances=4)
    for ok, construct_, key, message, where_ in facts:
        ctx.check(ok, construct_, key, message, where_, rule="C13.R1s")

    ctx.attempt(rule_r3, ctx, g)

    ctx.analysed["implicit_discharged"] = len(imp.discharged)
    ctx.assume("A-assert: %d assert statements in the input-handling modules are beliefs (python -O removes them)" % imp.assumed_asserts)
    ctx.assume("A-arity: %d tuple unpackings of visited children follow the grammar's arity" % imp.assumed_unpacks)
    ctx.assume("A-limits: interpreter resource limits (recursion depth, 4300-digit int<->str limit, memory/time for astronomically large exponents) are outside 'bounded length and nesting'")
    ctx.assume("third-party parsimonious is modelled from nodes.py: visit() wraps everything not in unwrapped_exceptions into VisitationError; Grammar.parse raises ParseError")
    ctx.undecided("termination / resource exhaustion; OSError from the file system; path-argument dependent ValueError of Path.relative_to in read_files (C15)")
    ctx.sample({"rule": "C13", "roots": [r.short for r in roots], "escaping_at_read_namespace": sorted(exc_name(e) for e in ef.escapes.get(roots[0].qualname, {}))})


def _model_outcomes_ok(ctx: Ctx) -> bool:
    from ..fold import Sym, Unfoldable
    from ..layout import TBls
    from . import c05 as M
    from .c15 import _prop

    repo = ctx.repo
    SER = "_serializable."

    def ide(name: Any) -> bool:
        k = next((c for c in repo.all_classes().values() if c.name == name), None)
        return k is not None and repo.is_subclass(k, IDE)

    try:
        for cname in ("UnsignedIntegerType", "SignedIntegerType", "FloatType"):
            c = ctx.cls(SER + "_primitive." + cname)
            for n in range(-1, 68):
                for cm in ("CastMode.SATURATED", "CastMode.TRUNCATED"):
                    o = M._construct_outcome(ctx, c, n, cm)
                    if isinstance(o, str):
                        if not ide(o):
                            return False
                        continue
                    for prop in ("inclusive_value_range", "bit_length_set", "standard_bit_length"):
                        if repo.lookup_method(c, prop) is not None and isinstance(_prop(ctx, o, prop), str) and str(_prop(ctx, o, prop)).startswith("raise "):
                            return False
        c = ctx.cls(SER + "_void.VoidType")
        for n in range(-1, 68):
            o = M._construct_outcome(ctx, c, n)
            if isinstance(o, str) and not ide(o):
                return False
        et = Sym(bit_length_set=TBls.var("E", 1), alignment_requirement=1, _isa_=frozenset({"SerializableType", "PrimitiveType", "UnsignedIntegerType", "Any"}), _kind_="UnsignedIntegerType")
        for cname in ("FixedLengthArrayType", "VariableLengthArrayType"):
            c = ctx.cls(SER + "_array." + cname)
            for cap in list(range(-2, 5)) + [255, 256, 65535, 65536, 2**32 - 1, 2**32, 2**63]:
                o = M._construct_outcome(ctx, c, et, cap)
                if isinstance(o, str) and not ide(o):
                    return False
        for n in (0, 1, 2, 3, 255, 256, 257):
            o = M.structure(ctx, attributes=[M.attribute_sym(ctx, "Field", "f%d" % i) for i in range(n)], kind="UnionType")
            if isinstance(o, str) and not ide(o):
                return False
    except (AnalysisError, Unfoldable):
        return False
    return True


def _composite_outcomes_ok(ctx: Ctx) -> bool:
    from ..fold import Unfoldable
    from . import c05 as M

    repo = ctx.repo

    def ide(name: Any) -> bool:
        k = next((c for c in repo.all_classes().values() if c.name == name), None)
        return k is not None and repo.is_subclass(k, IDE)

    try:
        for half in (False, True):
            # the halves of a service are named <full name of the definition>.Request / .Response by finalize (C15.R3), and a
            # definition's full name has a namespace: at least three components
            names = ("ns.T.Request", "ns.T.Response", "a.b.c.d.Request", "ns..Request", "ns.T.") if half else ("", " ", ".", "a", "a.", ".a", "..", "ns.T", "ns..T", "a.b.c.d.E", "ns.T.Request")
            for nm in names:
                o = M.structure(ctx, name=nm, half=half)
                if isinstance(o, str) and not ide(o):
                    return False
    except (AnalysisError, Unfoldable):
        return False
    return True


def _expression_outcomes_ok(ctx: Ctx) -> bool:
    """every binary / unary operator applied to symbolic rational operands yields a value or an invalid-operand error"""
    from ..absint import Raised
    from ..exprmodel import ExprModel, FnValue, QV
    from ..fold import Unfoldable
    from ..layout import explore

    try:
        m = ExprModel(ctx)
        opmod = ctx.repo.module("_expression._operator")
        ioe = ctx.cls("_expression._any.InvalidOperandError")
        operands = [QV("i", True), QV("j", True), QV("p", False), QV("q", False), 0]
        for name, fn in opmod.functions.items():
            if name.startswith("_") or len(fn.params) != 2 or name == "attribute":
                continue
            f = FnValue(m, fn)
            for a in operands:
                for b in operands:
                    L, R = m.value("Rational", a if not isinstance(a, int) else __import__("fractions").Fraction(a)), m.value("Rational", b if not isinstance(b, int) else __import__("fractions").Fraction(b))

                    def once() -> Any:
                        try:
                            r = m.call(f, L, R)
                            m.native(r) if r._cls_.name != "Set" else None
                            return None
                        except Raised as r:
                            k = next((c for c in ctx.repo.all_classes().values() if c.name == r.cls_name), None)
                            return None if (k is not None and ctx.repo.is_subclass(k, ioe)) else r.cls_name

                    if any(res is not None for _, res in explore(once, max_runs=256)):
                        return False
    except (AnalysisError, Unfoldable):
        return False
    return True


def _inherited_trust(ctx: Ctx, g: CallGraph, func_q: str, exc_name_: str) -> List[str]:
    """a raise in a method that concrete subclasses inherit (logic hoisted into a base class) is trusted when the entry exists
    for every subclass that inherits the method"""
    fn = g.funcs.get(func_q)
    if fn is None or fn.cls is None:
        return []
    subs = [c for c in ctx.repo.subclasses(fn.cls, strict=True) if ctx.repo.lookup_method(c, fn.name) is fn]
    if not subs:
        return []
    reasons = []
    for c in subs:
        r = [reason for (suffix, en), reason in INTERNAL_CONSISTENCY.items() if ("%s.%s" % (c.name, fn.name)).endswith(suffix) and en == exc_name_]
        if not r:
            if any(True for _ in ctx.repo.subclasses(c, strict=True)):
                continue  # an intermediate class: judged through its own subclasses
            return []
        reasons.append("%s: %s" % (c.name, r[0]))
    return ["inherited by " + "; ".join(reasons)] if reasons else []


def _type_validation(ctx: Ctx, g: CallGraph, org: Any) -> List[str]:
    """a TypeError / ValueError whose every guard is a test of the *type* or of the attributes of an object (isinstance, hasattr,
    callable): what is validated is how the API was called or how the code was written, not the text of a definition"""
    fn = g.funcs.get(org.func)
    if fn is None or exc_name(org.exc) not in ("TypeError", "ValueError"):
        return []
    from ..decide import paths_of

    def reflective(c: ast.AST) -> bool:
        if isinstance(c, ast.UnaryOp) and isinstance(c.op, ast.Not):
            return reflective(c.operand)
        if isinstance(c, ast.BoolOp):
            return all(reflective(v) for v in c.values)
        return isinstance(c, ast.Call) and dotted(c.func) in ("isinstance", "hasattr", "callable", "issubclass")

    hits = 0
    for p in paths_of(fn.node):
        if p.kind != "raise" or p.value is None or norm(p.value)[:40] not in org.text and org.text[:40] not in "raise " + norm(p.value):
            continue
        conds = [c for c, _pol in p.conds if not isinstance(c, tuple)]
        if not conds or not any(reflective(c) for c in conds):
            return []
        # the innermost guard decides the raise; outer guards may be anything
        if not reflective(conds[-1]):
            return []
        hits += 1
    return ["type validation: the raise is guarded by isinstance / hasattr tests only (how the API is called, not what a definition says)"] if hits else []


# ------------------------------------------------------------------------------------------------ service-type facts
def service_facts(ctx: Ctx) -> List[Tuple[bool, str, str, str, str]]:
    """[(holds, construct, key, message, where)]: each fact is *evaluated* on the type model / the checks, not read off a shape"""
    from ..fold import Folder, Sym, Unfoldable
    from ..absint import Raised, call_fn, module_call_hook
    from . import c05 as M

    repo = ctx.repo
    out: List[Tuple[bool, str, str, str, str]] = []
    SER = "_serializable."
    rq = M.structure(ctx, name="ns.S.Request", half=True)
    rs = M.structure(ctx, name="ns.S.Response", half=True)
    svc = M.build_model(ctx, SER + "_composite.ServiceType", request=rq, response=rs, fixed_port_id=None) if not (isinstance(rq, str) or isinstance(rs, str)) else "halves"
    if isinstance(svc, str):
        raise AnalysisError("a service type cannot be constructed over abstract arguments: %s" % svc)

    def ide(name: Any) -> bool:
        k = next((c for c in repo.all_classes().values() if c.name == name), None)
        return k is not None and repo.is_subclass(k, IDE)

    # entry points of the model: attributes and array elements
    for cname, args, what in (
        ("_attribute.Field", (svc, "x"), "a service type used as a field type"), ("_attribute.PaddingField", (svc,), "a service type used as a padding type"),
        ("_attribute.Constant", (svc, "K", Sym(_kind_="value", _isa_=frozenset({"Any", "Rational"}))), "a service type used as a constant type"),
        ("_array.FixedLengthArrayType", (svc, 3), "a service type used as an array element"), ("_array.VariableLengthArrayType", (svc, 3), "a service type used as an array element"),
    ):
        c = ctx.cls(SER + cname)
        o = M._construct_outcome(ctx, c, *args)
        ctx.count()
        out.append((isinstance(o, str) and ide(o), c.short + ".__init__", "rejects ServiceType: %s" % (o if isinstance(o, str) else "accepted"), "%s must be rejected with an InvalidDefinitionError before any layout computation" % what, c.module.relpath))
    # intrinsics of a service type are undefined attributes, not a crash
    for nm in ("_extent_", "_bit_length_"):
        try:
            got: Any = Folder({"o": svc, "n": Sym(native_value=nm)}, repo, svc._cls_.module, svc._cls_, M.model_hook_logging(ctx, svc._cls_, [])).fold(ast.parse("o._attribute(n)", mode="eval").body)
            got = "a value"
        except Raised as r:
            got = r.cls_name
        except Unfoldable as ex:
            raise AnalysisError("ServiceType._attribute(%r): cannot evaluate: %s" % (nm, ex))
        ctx.count()
        out.append((isinstance(got, str) and ide(got), svc._cls_.short + "._attribute", "S.%s -> %s" % (nm, got), "`S.1.0.%s` of a service type must be an undefined attribute (an InvalidDefinitionError), not a TypeError" % nm, svc._cls_.module.relpath))
    # the cross-definition checks never ask a service for its layout
    from .c11 import pairwise_never_asks_a_service_for_its_layout

    out.append((pairwise_never_asks_a_service_for_its_layout(ctx), "_namespace._ensure_minor_version_compatibility", "services are compared through their halves", "the version-compatibility check must not evaluate `.extent` / `.bit_length_set` of a service type", "pydsdl/_namespace.py"))
    # who constructs service types / makes model instances without their constructors
    svc_cls = svc._cls_
    makers = sorted({fn.module.name for fn in repo.all_functions().values() for c in ast.walk(fn.node) if isinstance(c, ast.Call) and isinstance(c.func, (ast.Name, ast.Attribute)) and (dotted(c.func) or "").split(".")[-1] == "ServiceType" and not fn.name.startswith("_unittest")})
    out.append((makers == ["pydsdl._data_type_builder"], svc_cls.short, "constructed in: %s" % makers, "service types come into being only where a service definition is finalized", svc_cls.module.relpath))
    bypass = sorted({fn.short for fn in repo.all_functions().values() if fn.module.name.startswith("pydsdl._serializable") for c in ast.walk(fn.node) if isinstance(c, ast.Call) and isinstance(c.func, ast.Attribute) and c.func.attr == "__new__"})
    out.append((not bypass, "_serializable.*", "no instance is made without its constructor", "the guards of the constructors hold for every instance of the model", "pydsdl/_serializable", ))
    return out


def rule_r3(ctx: Ctx, g: CallGraph) -> None:
    """path stamping, observed on the reading pipeline evaluated over abstract worlds (reader_common)"""
    from ..absint import APath, Raised, construct
    from ..fold import Unfoldable
    from . import reader_common as R

    ctx.rule("C13.R3", "an InvalidDefinitionError leaving DSDLDefinition.read / the namespace reader carries the path of the definition being read; FileNameFormatError carries the path", min_instances=3)
    rd = ctx.func("_dsdl_definition.DSDLDefinition.read")
    own = R.own_definition(ctx, "ns.sub.T", 1, 2)
    w0 = R.World()
    o = R.read_own(ctx, own, [R.ADef(w0, "zz.First", 1, 0)], parse_fails=1)
    exc = o.get("exc")
    ctx.count()
    ctx.check(o["raised"] == "DSDLSyntaxError" and str(getattr(exc, "path", None)) == "/w/ns/sub/T.1.2.dsdl", rd.short, "a fault of the definition leaves with the definition's own path", "errors are stamped with the file being read and re-raised", rd.where(), {"raised": o["raised"], "path": str(getattr(exc, "path", None))})
    nsr = ctx.func("_namespace_reader.read_definitions")
    w = R.World()
    A = R.ADef(w, "ns.A", 1, 0)
    Bf = R.ADef(w, "ns.B", 1, 0, fail="UndefinedDataTypeError")
    bad = []
    for targets in ([Bf], [A, Bf], [Bf, A]):
        for d in w.defs:
            d.__dict__["composite_type"] = None
        out = R.run_reader(ctx, targets, [A, Bf])
        ctx.count()
        exc = out.get("exc")
        if out["raised"] != "UndefinedDataTypeError" or str(getattr(exc, "path", None)) != str(Bf.file_path):
            bad.append({"targets": [t.label for t in targets], "left as": out["raised"], "path": str(getattr(exc, "path", None)), "expected path": str(Bf.file_path)})
    ctx.check(not bad, nsr.short, "a fault in a target leaves with the target's path", "errors are stamped with the file being read and re-raised", nsr.where(), bad[:3])
    # a malformed file name: the error names the file
    fe = ctx.cls("_dsdl_definition.FileNameFormatError")
    cls = ctx.cls("_dsdl_definition.DSDLDefinition")
    bad = []
    for name in ("T.dsdl", "T.1.dsdl", "a.b.T.1.0.dsdl", "x.T.1.0.dsdl", "T.1.x.dsdl"):
        pth = APath("/w/ns/" + name)
        try:
            construct(ctx, cls, pth, APath("/w/ns"), hook=R._hook(ctx, cls.module, []))
            got: Any = ("accepted", None)
        except Raised as r:
            got = (r.cls_name, str(getattr(getattr(r, "exc", None), "path", None)))
        except Unfoldable as ex:
            raise AnalysisError("DSDLDefinition(%s): cannot evaluate: %s" % (name, ex))
        ctx.count()
        if got != ("FileNameFormatError", str(pth)):
            bad.append({"file": name, "found": got, "expected": ("FileNameFormatError", str(pth))})
    ctx.check(not bad, fe.short, "malformed file names are reported with their path", "file-name errors always carry the offending path", fe.module.relpath, bad[:3])
