"""
C13 -- Bad input yields InvalidDefinitionError with a path, never a crash / InternalError.

An error-discipline property decided by the interprocedural exception-flow analysis (E4).

R1  explicit raises: every `raise C` reachable from the roots with C not an InvalidDefinitionError must be translated
    before leaving the root, discharged by a typed-guard argument (kind inference at every call site of the guarded
    constructor), or listed in the internal-consistency table (one symbol + reason each).
R2  implicit partial operations on input-derived operands (fixed table) need a translating handler or a recorded
    discharge (dominating guard / regex-language inclusion / total operand kinds).
R3  every InvalidDefinitionError that escapes a read passes a handler that stamps the file path.
Roots: read_namespace / read_files (everything driven by definition text and file names).
"""
from __future__ import annotations

import ast
import string
from typing import Any, Dict, List, Optional, Set, Tuple

from .. import rx
from ..callgraph import CallGraph, Site, Ty
from ..core import AnalysisError, ClassInfo, Ctx, External, FuncInfo, calls_in, dotted, norm, parents_map, walk_no_nested
from ..excflow import ExcFlow, Witness, exc_name
from ..peg import Grammar

IDE = "_error.InvalidDefinitionError"

# modules whose code evaluates definition text / file names (implicit operations are considered only here)
INPUT_SCOPE = (
    "pydsdl._parser",
    "pydsdl._data_type_builder",
    "pydsdl._data_schema_builder",
    "pydsdl._expression",
    "pydsdl._serializable",
    "pydsdl._dsdl_definition",
    "pydsdl._error",
    "pydsdl._port_id_ranges",
)
OUT_OF_SCOPE_MODULES = ("pydsdl._serdes",)  # the codec is not reachable from reading definitions (C06/C07)

# ---- documented non-definition failures (outside the property), whitelisted by raising site ------------------
WHITELIST = {
    # (origin function suffix, exception name): reason
    ("_dsdl.normalize_paths_argument_to_list.<locals>._convert", "TypeError"): "invalid *argument* type passed by the caller (documented)",
    ("_namespace_reader._read_definitions", "TypeError"): "invalid *argument* type passed by the caller",
    ("DSDLDefinition._infer_path_to_root_from_first_found", "ValueError"): "internal API misuse guard: valid_dsdl_roots is always a list at the only call site",
    ("DSDLDefinition._infer_path_to_root_from_first_found", "IndexError"): "indexing .parts of caller-supplied *path arguments* (empty only for Path('')): argument validation, not definition input",
}
# ---- internal-consistency raises: reachable in the graph, trusted with a reason ----------------------------------
INTERNAL_CONSISTENCY = {
    ("ServiceType.__init__", "ValueError"): "request/response halves are built by finalize from one definition (name, version, path, flags agree by construction - C15.R3)",
    ("_auto_swap.<locals>.decorator.<locals>.wrapper", "ValueError"): "operands are results of visitors that return expression.Any (typed lifters)",
    ("_auto_swap.<locals>.decorator", "TypeError"): "decoration-time check, runs at import",
    ("_operator.attribute", "ValueError"): "name is a str from the identifier visitor; value is an expression.Any",
    ("_ParseTreeProcessor.visit_expression_atom", "InternalError"): "resolve_top_level_identifier returns expression.Any by construction (constants' values / Set)",
    ("Set.__init__", "ValueError"): "elements are visitor results, whose classes derive from Any",
    ("ConcatenationOperator.__init__", "ValueError"): "called with a two-element list by BitLengthSet.__add__ / non-empty lists",
    ("UnionOperator.__init__", "ValueError"): "UnionType.aggregate_bit_length_sets unites >= 2 variants (length guard above the call)",
    ("PaddingOperator.__init__", "ValueError"): "alignment_requirement folds to >= 1 (C02.R4)",
    ("PaddingField.__init__", "TypeParameterError"): "is an InvalidDefinitionError anyway",
    ("NullaryOperator.__init__", "TypeError"): "elements are ints computed by the library (widths, alignments, residues); BitLengthSet(x) with foreign x is an API argument error, and the only definition-driven call with arbitrary x (__eq__) handles TypeError",
    ("NullaryOperator.__init__", "ValueError"): "leaf sets are built from a single width / the residues of a non-empty set",
}
# ---- implicit operations discharged by an argument that the syntactic guards cannot see (one symbol + reason each)
DISCHARGED_SITES = {
    ("CompositeType.__init__.<locals>.search_up_for_root", "namespace_components[-1]"): "the list has >= 1 element: the name contains a separator (guard above) so there is at least one namespace component, and the recursion stops at length 1",
}


def in_scope_module(name: str) -> bool:
    return any(name == m or name.startswith(m + ".") for m in INPUT_SCOPE)


# ------------------------------------------------------------------------------------------------ kinds
NUMERIC_OK = {"int", "float", "Fraction", "bool"}
OPERATOR_RESULT = {
    "add": {"Fraction"}, "sub": {"Fraction"}, "mul": {"Fraction"}, "truediv": {"Fraction"}, "mod": {"Fraction"}, "floordiv": {"int"},
    "pow": {"Fraction", "float", "complex"},
    "or_": {"int"}, "xor": {"int"}, "and_": {"int"},
    "eq": {"bool"}, "le": {"bool"}, "ge": {"bool"}, "lt": {"bool"}, "gt": {"bool"}, "ne": {"bool"},
}
OPERATOR_RAISES = {
    "truediv": {"ext:ZeroDivisionError"}, "mod": {"ext:ZeroDivisionError"}, "floordiv": {"ext:ZeroDivisionError"},
    "pow": {"ext:ZeroDivisionError", "ext:OverflowError"},
}


class Kinds:
    """Value-kind inference for the few expressions that feed guarded constructors."""

    def __init__(self, ctx: Ctx, g: CallGraph):
        self.ctx = ctx
        self.g = g
        self.repo = ctx.repo
        self._impl_values: Dict[Tuple[str, str], Set[str]] = {}

    def impl_values(self, fn: FuncInfo, param: str) -> Set[str]:
        """operator.* functions passed for callable parameter `param` of method fn at its call sites"""
        key = (fn.qualname, param)
        if key in self._impl_values:
            return self._impl_values[key]
        out: Set[str] = set()
        idx = fn.params.index(param)
        for other, c in self.repo.all_calls():
            if True:
                f = c.func
                if isinstance(f, ast.Attribute) and f.attr == fn.name or isinstance(f, ast.Name) and f.id == fn.name:
                    args = list(c.args)
                    pos = idx - (1 if fn.cls is not None and not fn.is_static else 0)
                    a = args[pos] if 0 <= pos < len(args) else next((k.value for k in c.keywords if k.arg == param), None)
                    if a is not None:
                        d = dotted(a) or norm(a)
                        out.add(d.split(".")[-1] if d.startswith("operator.") else "?" + d)
        self._impl_values[key] = out
        return out

    def kind(self, fn: FuncInfo, e: ast.AST, at: Optional[ast.AST] = None, depth: int = 0) -> Set[str]:
        if depth > 6:
            return {"?"}
        if isinstance(e, ast.Constant):
            return {type(e.value).__name__}
        if isinstance(e, ast.UnaryOp):
            if isinstance(e.op, ast.Not):
                return {"bool"}
            return self.kind(fn, e.operand, at, depth + 1)
        if isinstance(e, (ast.Compare, ast.BoolOp)):
            if isinstance(e, ast.BoolOp):
                out: Set[str] = set()
                for v in e.values:
                    out |= self.kind(fn, v, at, depth + 1)
                return out
            return {"bool"}
        if isinstance(e, ast.BinOp):
            l, r = self.kind(fn, e.left, at, depth + 1), self.kind(fn, e.right, at, depth + 1)
            if l == {"str"} and r == {"str"}:
                return {"str"}
            if l <= NUMERIC_OK and r <= NUMERIC_OK and not isinstance(e.op, ast.Pow):
                return (l | r) - {"bool"} or {"int"}
            if l <= NUMERIC_OK and r <= NUMERIC_OK and isinstance(e.op, ast.Pow) and "complex" not in (l | r) and l <= {"int", "bool"}:
                # an integer base: the power is an int, or a float for a negative exponent - never complex
                return ((l | r) - {"bool"}) | {"float"}
            return {"?"}
        if isinstance(e, ast.IfExp):
            return self.kind(fn, e.body, at, depth + 1) | self.kind(fn, e.orelse, at, depth + 1)
        if isinstance(e, ast.Subscript) and isinstance(e.value, ast.Dict):
            out2: Set[str] = set()
            for v in e.value.values:
                out2 |= self.const_kind(fn, v) or self.kind(fn, v, at, depth + 1)
            return out2
        if isinstance(e, ast.Subscript) and isinstance(e.value, (ast.Name, ast.Attribute)):
            # a constant table (module / class level, possibly built by a private helper): the kinds of its values
            from ..fold import Folder, Unfoldable

            try:
                tbl = Folder({}, self.repo, fn.module, fn.cls).fold(e.value)  # type: ignore
            except Exception:
                tbl = None
            if isinstance(tbl, dict) and tbl:
                return {type(v).__name__ for v in tbl.values()}
        if isinstance(e, ast.Call):
            name = dotted(e.func) or ""
            last = name.split(".")[-1]
            if name in ("int", "len", "ord", "round", "hash"):
                return {"int"}
            if last == "Fraction":
                return {"Fraction"}
            if name in ("str", "repr", "chr"):
                return {"str"}
            if name == "bool":
                return {"bool"}
            if name == "float":
                return {"float"}
            if isinstance(e.func, ast.Attribute) and e.func.attr in ("as_native_integer", "bit_length", "line", "column"):
                return {"int"}
            if isinstance(e.func, ast.Name):
                # local alias of a constructor, e.g. `frac = fractions.Fraction`
                for st in walk_no_nested(fn.node):
                    if isinstance(st, ast.Assign) and any(isinstance(t, ast.Name) and t.id == e.func.id for t in st.targets):
                        if (dotted(st.value) or "").split(".")[-1] == "Fraction":
                            return {"Fraction"}
            if isinstance(e.func, ast.Attribute) and e.func.attr in ("join", "lower", "upper", "strip", "replace", "format"):
                return {"str"}
            if isinstance(e.func, ast.Name) and e.func.id in fn.params:
                vals = self.impl_values(fn, e.func.id)
                out = set()
                for v in vals:
                    out |= OPERATOR_RESULT.get(v, {"?"})
                return out or {"?"}
            r = self.repo.resolve_expr(fn.module, e.func, fn.cls)
            if r is None and isinstance(e.func, ast.Attribute) and isinstance(e.func.value, ast.Name) and e.func.value.id == "self" and fn.cls is not None:
                r = self.repo.lookup_method(fn.cls, e.func.attr)
            if r is None and isinstance(e.func, ast.Name):
                f2: Optional[FuncInfo] = fn
                while f2 is not None and r is None:
                    r = f2.nested.get(e.func.id)
                    f2 = f2.parent
            if isinstance(r, FuncInfo):
                t = self.g.types.ann(r.module, r.cls, r.node.returns)
                return self._ty_kinds(t)
            return {"?"}
        if isinstance(e, ast.Attribute):
            if e.attr in ("numerator", "denominator"):
                return {"int"}
            t = self.g.types.expr(fn, e, self.g.types.locals_of(fn))
            k = self._ty_kinds(t)
            if k != {"?"}:
                return k
            # instance attribute `self._value` of the value classes
            if isinstance(e.value, ast.Name) and e.value.id in ("self", "right", "other") and e.attr == "_value" and fn.cls is not None:
                return {"Rational": {"Fraction"}, "String": {"str"}, "Boolean": {"bool"}}.get(fn.cls.name, {"?"})
            return {"?"}
        if isinstance(e, ast.Name):
            # local: union over its assignments, then narrowing by dominating isinstance guards
            vals: Set[str] = set()
            found = False
            for st in walk_no_nested(fn.node):
                if isinstance(st, ast.Assign) and any(isinstance(t, ast.Name) and t.id == e.id for t in st.targets):
                    vals |= self.kind(fn, st.value, at, depth + 1)
                    found = True
                elif isinstance(st, ast.AugAssign) and isinstance(st.target, ast.Name) and st.target.id == e.id:
                    vals |= self.kind(fn, st.value, at, depth + 1)
                    found = True
            if not found:
                t = self.g.types.locals_of(fn).get(e.id)
                vals = self._ty_kinds(t)
            return self._narrow(fn, e.id, vals, at)
        if isinstance(e, ast.JoinedStr):
            return {"str"}
        return {"?"}

    def const_kind(self, fn: FuncInfo, e: ast.AST) -> Set[str]:
        """kind of a constant expression, by folding it (locals that alias Fraction are substituted)"""
        from ..decide import substitute
        from ..fold import Folder, Unfoldable

        env = {}
        for st in walk_no_nested(fn.node):
            if isinstance(st, ast.Assign) and len(st.targets) == 1 and isinstance(st.targets[0], ast.Name) and (dotted(st.value) or "").split(".")[-1] == "Fraction":
                env[st.targets[0].id] = st.value
        try:
            v = Folder({}, self.repo, fn.module, fn.cls).fold(substitute(e, env))  # type: ignore
        except Exception:
            return set()
        return {type(v).__name__}

    @staticmethod
    def _ty_kinds(t: Optional[Ty]) -> Set[str]:
        if t is None:
            return {"?"}
        if t.classes or t.elem is not None:
            return {"obj:" + c.name for c in t.classes} or {"?"}
        return set(t.ext) or {"?"}

    def _narrow(self, fn: FuncInfo, name: str, vals: Set[str], at: Optional[ast.AST]) -> Set[str]:
        """`if isinstance(name, K): raise` before `at` removes K; `if not isinstance(name, K): raise` keeps only K."""
        if at is None:
            return vals
        at_line = getattr(at, "lineno", 10**9)
        for st in walk_no_nested(fn.node):
            if isinstance(st, ast.If) and st.lineno < at_line and st.body and isinstance(st.body[-1], (ast.Raise, ast.Return)) and not st.orelse:
                t = st.test
                neg = False
                if isinstance(t, ast.UnaryOp) and isinstance(t.op, ast.Not):
                    t, neg = t.operand, True
                if isinstance(t, ast.Call) and dotted(t.func) == "isinstance" and len(t.args) == 2 and isinstance(t.args[0], ast.Name) and t.args[0].id == name:
                    ks = t.args[1].elts if isinstance(t.args[1], ast.Tuple) else [t.args[1]]
                    names = {(dotted(k) or "?").split(".")[-1] for k in ks}
                    if neg:
                        vals = {v for v in vals if v in names} if "?" not in vals else set(names)
                    else:
                        vals = {v for v in vals if v not in names}
        return vals


# ------------------------------------------------------------------------------------------------ guarded constructors
class GuardedCtors:
    """
    Constructors whose first statement is `if not isinstance(<param>, K): raise <non-IDE>`: the raise is attributed to
    the *call sites* whose argument kind is not within K (kind inference), not to the constructor itself.
    """

    def __init__(self, ctx: Ctx):
        self.repo = ctx.repo
        self.table: Dict[str, Tuple[ClassInfo, str, Set[str], ast.Raise]] = {}
        for c in ctx.repo.all_classes().values():
            if not c.module.name.startswith("pydsdl._expression"):
                continue
            init = c.methods.get("__init__")
            if init is None:
                continue
            from ..core import body_without_docstring

            body = body_without_docstring(init.node)
            if not body or not isinstance(body[0], ast.If):
                continue
            st = body[0]
            t = st.test
            if isinstance(t, ast.UnaryOp) and isinstance(t.op, ast.Not) and isinstance(t.operand, ast.Call) and dotted(t.operand.func) == "isinstance" and len(st.body) == 1 and isinstance(st.body[0], ast.Raise):
                p = norm(t.operand.args[0])
                if p in init.params:
                    ks = t.operand.args[1].elts if isinstance(t.operand.args[1], ast.Tuple) else [t.operand.args[1]]
                    names = {(dotted(k) or "?").split(".")[-1] for k in ks}
                    if "int" in names:
                        names.add("bool")
                    self.table[c.qualname] = (c, p, names, st.body[0])

    def is_guard_raise(self, fn: FuncInfo, node: ast.Raise) -> bool:
        return fn.cls is not None and fn.name == "__init__" and fn.cls.qualname in self.table and self.table[fn.cls.qualname][3] is node


def abstract_never_runs(repo: Any, fn: FuncInfo) -> bool:
    """A `raise NotImplementedError` body of method M in class C never executes if C is never instantiated and every
    leaf subclass resolves M to an override."""
    c = fn.cls
    if c is None:
        return False
    subs = repo.subclasses(c, strict=True)
    if not subs:
        return False
    name = fn.name
    for s in subs:
        m = repo.lookup_method(s, name)
        leaf = not repo.subclasses(s, strict=True)
        if leaf and (m is None or m is fn):
            return False
    # C itself must not be instantiated anywhere in the package
    return c.qualname not in repo.instantiated_classes()


# ------------------------------------------------------------------------------------------------ implicit table
class Implicit:
    def __init__(self, ctx: Ctx, g: CallGraph, kinds: Kinds, ctors: Optional["GuardedCtors"] = None):
        self.ctors = ctors
        self.ctx = ctx
        self.g = g
        self.kinds = kinds
        self.repo = ctx.repo
        self.discharged: List[Dict[str, Any]] = []
        self.assumed_asserts = 0
        self.assumed_unpacks = 0
        self.grammar = Grammar.load(ctx.repo)

    def __call__(self, fn: FuncInfo, q: str, root: ast.AST, loc: Dict[str, Optional[Ty]]) -> List[Tuple[Any, ast.AST, str]]:
        out: List[Tuple[Any, ast.AST, str]] = []
        if not in_scope_module(fn.module.name):
            return out
        pm = parents_map(fn.node)
        stack = [root]
        first = True
        while stack:
            n = stack.pop()
            if not first and isinstance(n, (ast.FunctionDef, ast.AsyncFunctionDef, ast.ClassDef, ast.Lambda)):
                continue
            first = False
            stack.extend(ast.iter_child_nodes(n))
            if isinstance(n, ast.Assert):
                self.assumed_asserts += 1
                continue
            if isinstance(n, ast.Call) and self.ctors is not None:
                r = self.repo.resolve_expr(fn.module, n.func, fn.cls) if isinstance(n.func, (ast.Name, ast.Attribute)) else None
                if isinstance(r, ClassInfo) and r.qualname in self.ctors.table and n.args:
                    _, _, allowed, _ = self.ctors.table[r.qualname]
                    k = self.kinds.kind(fn, n.args[0], n)
                    if k <= allowed:
                        self._record(fn, n, "argument kind %s within the constructor's guard %s" % (sorted(k), sorted(allowed)))
                    else:
                        out.append(("ext:ValueError", n, "%s(%s) with argument kind %s" % (r.name, norm(n.args[0])[:30], sorted(k))))
                elif dotted(n.func) == "map" and len(n.args) == 2:
                    r0 = self.repo.resolve_expr(fn.module, n.args[0], fn.cls) if isinstance(n.args[0], (ast.Name, ast.Attribute)) else None
                    if isinstance(r0, ClassInfo) and r0.qualname in self.ctors.table:
                        t = self.g.types.expr(fn, n.args[1], loc)
                        elem_int = t is not None and any(c.name == "BitLengthSet" for c in t.classes)
                        if elem_int:
                            self._record(fn, n, "elements of a BitLengthSet are ints (Iterator[int])")
                        else:
                            out.append(("ext:ValueError", n, "map(%s, %s) with unknown element kind" % (r0.name, norm(n.args[1])[:30])))
            if isinstance(n, ast.Call):
                name = dotted(n.func) or ""
                last = name.split(".")[-1]
                if name == "int" and n.args:
                    k = self.kinds.kind(fn, n.args[0], n)
                    if not (k <= {"int", "bool", "Fraction", "float"} and "?" not in k):
                        if not self._text_discharge(fn, n, "int"):
                            out.append(("ext:ValueError", n, "int(%s)" % norm(n.args[0])[:40]))
                elif last == "Fraction" and len(n.args) == 1:
                    k = self.kinds.kind(fn, n.args[0], n)
                    if not (k <= {"int", "bool", "Fraction", "float"} and "?" not in k):
                        if not self._text_discharge(fn, n, "Fraction"):
                            out.append(("ext:ValueError", n, "Fraction(%s)" % norm(n.args[0])[:40]))
                elif name == "chr" and n.args:
                    out.append(("ext:ValueError", n, "chr(%s)" % norm(n.args[0])[:40]))
                elif name == "next" and len(n.args) == 1:
                    out.append(("ext:StopIteration", n, norm(n)))
                elif last == "reduce" and name in ("reduce", "functools.reduce") and len(n.args) == 2:
                    # reduce(f, xs) without an initial value raises TypeError on an empty xs
                    why = self._never_empty(fn, n.args[1])
                    if why:
                        self._record(fn, n, why)
                    else:
                        out.append(("ext:TypeError", n, "reduce(..., %s) of a possibly empty iterable without an initial value%s" % (norm(n.args[1])[:30], ("; not dischargeable because " + self._why_not) if getattr(self, "_why_not", "") else "")))
                elif last in ("log2", "log", "sqrt") and name.startswith("math.") and n.args:
                    if not self._positive_arg(fn, n.args[0], n):
                        out.append(("ext:ValueError", n, norm(n)[:50]))
                elif isinstance(n.func, ast.Attribute) and n.func.attr == "encode":
                    # str.encode("utf8") fails on lone surrogates, which DSDL string escapes can produce - unless an error
                    # handler that never raises is named
                    eh = next((k.value for k in n.keywords if k.arg == "errors"), n.args[1] if len(n.args) > 1 else None)
                    if isinstance(eh, ast.Constant) and eh.value in ("replace", "ignore", "backslashreplace", "xmlcharrefreplace", "namereplace", "surrogatepass"):
                        self._record(fn, n, "errors=%r never raises" % eh.value)
                    else:
                        out.append(("ext:UnicodeEncodeError", n, norm(n)[:60]))
                elif isinstance(n.func, ast.Name) and n.func.id in fn.params:
                    vals = self.kinds.impl_values(fn, n.func.id)
                    raised: Set[str] = set()
                    for v in vals:
                        raised |= OPERATOR_RAISES.get(v, set())
                    for r in sorted(raised):
                        out.append((r, n, "%s(...) with %s in {%s}" % (n.func.id, n.func.id, ",".join(sorted(vals)))))
            elif isinstance(n, ast.Subscript) and isinstance(n.ctx, ast.Load):
                if isinstance(n.value, ast.Dict) and not isinstance(n.slice, ast.Constant):
                    if not self._dict_total(fn, n):
                        out.append(("ext:KeyError", n, "literal table[%s]" % norm(n.slice)[:30]))
                elif isinstance(n.slice, ast.Constant) and isinstance(n.slice.value, int) or (isinstance(n.slice, ast.UnaryOp) and isinstance(n.slice.operand, ast.Constant)):
                    v = norm(n.value)
                    if v in ("children", "literal", "path_tuple", "path_tuple_with_result", "check_result", "self._structs") or v.startswith("children["):
                        continue  # grammar arity / fixed-size tuples / non-empty by construction (assumption A-arity)
                    if isinstance(n.value, (ast.Tuple, ast.List, ast.Call)) and not (isinstance(n.value, ast.Call) and dotted(n.value.func) in ("list",)):
                        continue
                    if not self._len_guard(fn, n, pm):
                        out.append(("ext:IndexError", n, norm(n)[:50]))
            elif isinstance(n, ast.Assign) and isinstance(n.targets[0], (ast.Tuple, ast.List)):
                self.assumed_unpacks += 1
        return out

    # ---- discharges
    def _never_empty(self, fn: FuncInfo, it: ast.AST) -> str:
        """`it` is `self` of a class whose instances are never empty: the constructor rejects an empty collection with an
        InvalidDefinitionError (evaluated), iteration yields what the constructor stored (evaluated), and no code creates an
        instance without the constructor or stores the constructor's fields elsewhere"""
        from ..absint import Raised, construct
        from ..exprmodel import ExprModel, QV
        from ..fold import Unfoldable

        self._why_not = ""
        if not (isinstance(it, ast.Name) and it.id == "self" and fn.cls is not None):
            return ""
        cls = fn.cls
        repo = self.repo
        m = ExprModel(self.ctx)
        try:
            try:
                construct(self.ctx, cls, [], hook=m.hook)
                return ""
            except Raised as r:
                k = next((c for c in repo.all_classes().values() if c.name == r.cls_name), None)
                if k is None or not repo.is_subclass(k, IDE):
                    return ""
            one = m.value("Rational", QV("x", True))
            inst = construct(self.ctx, cls, [one], hook=m.hook)
            if m.elements(inst) != [one]:
                return ""
        except (Unfoldable, AnalysisError):
            return ""
        init = repo.lookup_method(cls, "__init__")
        fields = {dotted(t).split(".")[1] for st in ast.walk(init.node) if isinstance(st, (ast.Assign, ast.AnnAssign)) for t in (st.targets if isinstance(st, ast.Assign) else [st.target]) if (dotted(t) or "").startswith("self.") and (dotted(t) or "").count(".") == 1} if init else set()
        for f2 in repo.all_functions().values():
            for x in ast.walk(f2.node):
                if isinstance(x, ast.Call) and isinstance(x.func, ast.Attribute) and x.func.attr == "__new__":
                    tgt = [norm(a) for a in x.args[:1]] + [norm(x.func.value)]
                    if any(t.split(".")[-1] in (cls.name, "cls", "type(self)", "self.__class__") or t in ("object",) and any(norm(a).split(".")[-1] == cls.name for a in x.args) for t in tgt):
                        self._why_not = "%s creates an instance without the constructor (%s)" % (f2.short, norm(x)[:40])
                        return ""
                if f2 is init or (f2.cls is not None and f2.name == "__init__" and f2.cls is cls):
                    continue
                if isinstance(x, (ast.Assign, ast.AugAssign, ast.AnnAssign)) and f2.module is cls.module:
                    for t in x.targets if isinstance(x, ast.Assign) else [x.target]:
                        if isinstance(t, ast.Attribute) and t.attr in fields:
                            self._why_not = "%s stores the constructor's field %s" % (f2.short, t.attr)
                            return ""
        return "%s is never empty: %s([]) is rejected with an invalid-definition error, iteration yields the stored elements, no construction bypasses __init__ and its fields are stored nowhere else" % (cls.name, cls.name)

    def _record(self, fn: FuncInfo, n: ast.AST, why: str) -> bool:
        self.discharged.append({"site": "%s:%d" % (fn.short, getattr(n, "lineno", 0)), "op": norm(n)[:60], "discharge": why})
        return True

    def _text_discharge(self, fn: FuncInfo, call: ast.Call, ctor: str) -> bool:
        """int(node.text...) / Fraction(node.text...) in a visitor: regex language of the terminal within the ctor's syntax."""
        arg = call.args[0]
        src = norm(arg)
        if fn.cls is not None and fn.name.startswith("visit_") and src.startswith("node.text"):
            rule = fn.name[len("visit_"):]
            lang = self.grammar.terminal_language(rule)
            if lang is None:
                return False
            underscore_removed = ".replace('_', '')" in src
            ok, why = syntax_within(lang, ctor, underscore_removed, call)
            if ok:
                return self._record(fn, call, "terminal `%s` %s" % (rule, why))
            return False
        # int(h, 16) where every character was checked against the hex alphabet just above
        if ctor == "int" and len(call.args) == 2 and isinstance(call.args[1], ast.Constant) and call.args[1].value == 16 and isinstance(arg, ast.Name):
            for st in ast.walk(fn.node):
                if isinstance(st, ast.If) and isinstance(st.test, ast.Compare) and isinstance(st.test.ops[0], ast.NotIn):
                    c = st.test.comparators[0]
                    if isinstance(c, ast.Constant) and isinstance(c.value, str) and set(c.value) <= set(string.hexdigits) and st.body and isinstance(st.body[-1], ast.Raise):
                        # the checked symbol is what is appended to the accumulated name
                        appended = any(isinstance(a, ast.AugAssign) and isinstance(a.target, ast.Name) and a.target.id == arg.id and norm(a.value) == norm(st.test.left) for a in ast.walk(fn.node))
                        nonempty = any(isinstance(f2, ast.For) and isinstance(f2.iter, ast.Call) and dotted(f2.iter.func) == "range" for f2 in ast.walk(fn.node))
                        if appended and nonempty:
                            return self._record(fn, call, "every appended character is checked against %r" % c.value)
        return False

    def _positive_arg(self, fn: FuncInfo, a: ast.AST, at: ast.AST) -> bool:
        if isinstance(a, ast.Call) and dotted(a.func) == "max":
            for x in a.args:
                try:
                    from ..fold import Folder

                    v = Folder({}, self.repo, fn.module, fn.cls).fold(x)
                    if isinstance(v, int) and v >= 1:
                        return self._record(fn, at, "argument is max(%d, ...) >= 1" % v)
                except Exception:
                    continue
        s = norm(a)
        for st in walk_no_nested(fn.node):
            if isinstance(st, ast.If) and st.lineno < getattr(at, "lineno", 0) and st.body and isinstance(st.body[-1], ast.Raise):
                t = norm(st.test)
                if t in ("%s < 1" % s, "%s <= 0" % s):
                    return self._record(fn, at, "dominated by `if %s: raise`" % t)
        return False

    def _dict_total(self, fn: FuncInfo, n: ast.Subscript) -> bool:
        """literal dict indexed by an enum-valued key whose members are all present"""
        d: ast.Dict = n.value  # type: ignore
        keys = [dotted(k) for k in d.keys if k is not None]
        if all(keys) and len(keys) >= 1:
            owners = {".".join(k.split(".")[:-1]) for k in keys}  # type: ignore
            if len(owners) == 1:
                owner = owners.pop()
                r = self.repo.resolve_expr(fn.module, ast.parse(owner, mode="eval").body, fn.cls)
                if r is None and owner.startswith("self.") and fn.cls is not None:
                    r = self.repo.member_of(fn.cls, owner.split(".", 1)[1])
                if isinstance(r, ClassInfo) and any(isinstance(b, External) and b.dotted.endswith("Enum") for b in self.repo.bases(r)):
                    members = {m for m in r.assigns if not m.startswith("_")}
                    if members == {k.split(".")[-1] for k in keys}:  # type: ignore
                        return self._record(fn, n, "literal table covers every member of %s" % r.name)
        return False

    def _length_constraints_exclude(self, fn: FuncInfo, n: ast.Subscript, pm: Dict[ast.AST, ast.AST]) -> bool:
        """
        `seq[i]` with a constant index: collect the tests that must hold on the way to the access (enclosing if / else
        branches, conditional expressions, and earlier `if T: <leave>` statements of the enclosing blocks) and fold them for
        every length at which the index would be invalid; the access is safe if each such length falsifies one of them.
        """
        from ..linform import _local_defs

        if not (isinstance(n.slice, ast.Constant) and isinstance(n.slice.value, int)) and not (isinstance(n.slice, ast.UnaryOp) and isinstance(n.slice.operand, ast.Constant)):
            return False
        i = n.slice.value if isinstance(n.slice, ast.Constant) else -n.slice.operand.value  # type: ignore
        seq = norm(n.value)
        need = i + 1 if i >= 0 else -i
        defs = _local_defs(fn)
        defs.pop(seq, None)
        constraints: List[Tuple[ast.AST, bool]] = []
        cur: ast.AST = n
        while cur in pm:
            par = pm[cur]
            if isinstance(par, ast.If):
                if any(cur is s_ for s_ in par.body):
                    constraints.append((par.test, True))
                elif any(cur is s_ for s_ in par.orelse):
                    constraints.append((par.test, False))
            elif isinstance(par, ast.IfExp):
                if cur is par.body:
                    constraints.append((par.test, True))
                elif cur is par.orelse:
                    constraints.append((par.test, False))
            elif isinstance(par, ast.BoolOp) and isinstance(par.op, ast.And):
                for x in par.values:
                    if x is cur:
                        break
                    constraints.append((x, True))
            # earlier statements of the same block that leave when their test holds
            for field in ("body", "orelse", "finalbody"):
                blk = getattr(par, field, None)
                if isinstance(blk, list) and any(cur is s_ for s_ in blk):
                    for s_ in blk:
                        if s_ is cur:
                            break
                        if isinstance(s_, ast.If) and not s_.orelse and s_.body and isinstance(s_.body[-1], (ast.Raise, ast.Return, ast.Continue, ast.Break)):
                            constraints.append((s_.test, False))
            if isinstance(par, (ast.FunctionDef, ast.Lambda)):
                break
            cur = par
        if not constraints:
            return False
        for ln in range(0, need):
            excluded = False
            for test, want in constraints:
                r = _fold_length_test(test, seq, ln, defs)
                if r is not None and r != want:
                    excluded = True
                    break
            if not excluded:
                return False
        return True

    def _len_guard(self, fn: FuncInfo, n: ast.Subscript, pm: Dict[ast.AST, ast.AST]) -> bool:
        for (suffix, op), reason in DISCHARGED_SITES.items():
            if fn.qualname.endswith(suffix) and norm(n) == op:
                return self._record(fn, n, reason)
        # a local (possibly of an enclosing function) bound exactly once, to a tuple / list display that is long enough
        if isinstance(n.value, ast.Name) and isinstance(n.slice, ast.Constant) and isinstance(n.slice.value, int):
            nm, i = n.value.id, n.slice.value
            for outer in ast.walk(fn.module.tree):
                if isinstance(outer, (ast.FunctionDef, ast.Lambda)) and any(x is n for x in ast.walk(outer)):
                    binds = [st for st in ast.walk(outer) if isinstance(st, (ast.Assign, ast.AugAssign, ast.AnnAssign, ast.For, ast.With, ast.NamedExpr, ast.comprehension)) and any(isinstance(t, ast.Name) and t.id == nm and isinstance(t.ctx, ast.Store) for t in ast.walk(st))]
                    args = outer.args
                    is_param = nm in [a.arg for a in args.posonlyargs + args.args + args.kwonlyargs] or (args.vararg and args.vararg.arg == nm) or (args.kwarg and args.kwarg.arg == nm)
                    if is_param:
                        break
                    if len(binds) == 1 and isinstance(binds[0], ast.Assign) and len(binds[0].targets) == 1 and isinstance(binds[0].targets[0], ast.Name):
                        v0 = binds[0].value
                        if isinstance(v0, (ast.Tuple, ast.List)) and not any(isinstance(e, ast.Starred) for e in v0.elts) and (0 <= i < len(v0.elts) or -len(v0.elts) <= i < 0):
                            return self._record(fn, n, "`%s` is bound once, to a %d-element display" % (nm, len(v0.elts)))
                    if binds:
                        break
        # an instance field every store of which (anywhere in the class hierarchy) is None or a display that is long enough
        d_f = dotted(n.value)
        if d_f and d_f.startswith("self.") and d_f.count(".") == 1 and fn.cls is not None and isinstance(n.slice, ast.Constant) and isinstance(n.slice.value, int):
            i = n.slice.value
            stores_f: List[ast.AST] = []
            for k in [fn.cls] + [c for c in self.repo.subclasses(fn.cls, strict=True)] + [c for c in self.repo.mro(fn.cls) if isinstance(c, ClassInfo)]:
                for m in k.methods.values():
                    for st in ast.walk(m.node):
                        if isinstance(st, (ast.Assign, ast.AnnAssign)) and st.value is not None:
                            for t in st.targets if isinstance(st, ast.Assign) else [st.target]:
                                if dotted(t) == d_f:
                                    stores_f.append(st.value)
                        elif isinstance(st, ast.AugAssign) and dotted(st.target) == d_f:
                            stores_f.append(st)
            displays = [v for v in stores_f if isinstance(v, (ast.Tuple, ast.List)) and not any(isinstance(e, ast.Starred) for e in v.elts)]
            nones = [v for v in stores_f if isinstance(v, ast.Constant) and v.value is None]
            if displays and len(displays) + len(nones) == len(stores_f) and all(0 <= i < len(v.elts) or -len(v.elts) <= i < 0 for v in displays):
                return self._record(fn, n, "`%s` only ever holds None or a display of at least %d elements" % (d_f, min(len(v.elts) for v in displays)))
        # x.split(...)[0] / [-1]: str.split never returns an empty list (also through a trivial accessor on self)
        val: ast.AST = n.value
        if fn.cls is not None:
            from ..regions import inline_properties

            val = inline_properties(self.repo, fn.cls, n.value, accessors_only=False)
        idx = n.slice.value if isinstance(n.slice, ast.Constant) else -1
        while (isinstance(val, ast.Subscript) and isinstance(val.slice, ast.Slice) and val.slice.lower is None and val.slice.upper is None) or (isinstance(val, ast.Call) and dotted(val.func) in ("list", "tuple") and len(val.args) == 1 and not val.keywords):
            val = val.value if isinstance(val, ast.Subscript) else val.args[0]  # a copy has the same length
        d0 = dotted(val)
        if d0 and d0.startswith("self.") and fn.cls is not None:
            stores = []
            for k in self.repo.mro(fn.cls):
                if isinstance(k, ClassInfo):
                    for m in k.methods.values():
                        for st in walk_no_nested(m.node):
                            if isinstance(st, ast.Assign) and any(dotted(t) == d0 for t in st.targets):
                                stores.append(st.value)
            if len(stores) == 1:
                val = stores[0]
        if isinstance(val, ast.Call) and isinstance(val.func, ast.Attribute) and val.func.attr in ("split", "rsplit") and idx in (0, -1):
            return self._record(fn, n, "str.split() returns at least one element")
        if self._length_constraints_exclude(fn, n, pm):
            return self._record(fn, n, "every length that would make the index invalid contradicts a test on the way to the access")
        v = norm(n.value)
        base = v[5:-1] if v.startswith("list(") and v.endswith(")") else v
        line = n.lineno
        # enclosing conditional expression / if with a length test
        cur: ast.AST = n
        while cur in pm:
            par = pm[cur]
            if isinstance(par, (ast.IfExp, ast.If)) and ("len(%s)" % base in norm(par.test) or norm(par.test) in (base, "not " + base)):
                return self._record(fn, n, "guarded by `%s`" % norm(par.test)[:50])
            if isinstance(par, (ast.ListComp, ast.SetComp, ast.GeneratorExp)):
                for gen in par.generators:
                    for cond in gen.ifs:
                        if "len(%s)" % base in norm(cond):
                            return self._record(fn, n, "comprehension filter `%s`" % norm(cond)[:40])
            if isinstance(par, ast.BoolOp):
                for x in par.values:
                    if x is cur:
                        break
                    if "len(%s)" % base in norm(x) or norm(x) in (base,):
                        return self._record(fn, n, "short-circuit guard `%s`" % norm(x)[:40])
            cur = par
        for st in walk_no_nested(fn.node):
            if isinstance(st, ast.If) and st.lineno < line and st.body and isinstance(st.body[-1], (ast.Raise, ast.Return)):
                t = norm(st.test)
                if t == "not " + base or "len(%s)" % base in t:
                    return self._record(fn, n, "dominated by `if %s: raise`" % t[:40])
        return False


def _fold_length_test(test: ast.AST, seq: str, ln: int, defs: Dict[str, ast.AST]) -> Optional[bool]:
    """truth of a test when the sequence named `seq` has `ln` elements (None if it depends on anything else)"""
    from ..fold import Folder, Unfoldable
    from ..linform import _resolve

    t = _resolve(test, defs)

    def hook(e: ast.expr, f: Any) -> Any:
        s_ = norm(e)
        if s_ == "len(%s)" % seq or s_ == "len(list(%s))" % seq:
            return ln
        if s_ == seq:
            return [0] * ln  # only its length / truthiness can matter
        return NotImplemented

    try:
        return bool(Folder({}, None, None, None, hook).fold(t))  # type: ignore
    except Unfoldable:
        return None
    except Exception:
        return None


def syntax_within(lang: str, ctor: str, underscore_removed: bool, call: ast.Call) -> Tuple[bool, str]:
    """Is every string of the terminal's regular language acceptable to int()/Fraction() (after removing '_')?"""
    alphabet = list("0123456789abcdefABCDEFxXoO_.+-") + [rx.OTHER]
    base0 = any(k.arg == "base" and isinstance(k.value, ast.Constant) and k.value.value == 0 for k in call.keywords)
    try:
        d = rx.compile_dfa(lang, alphabet, "fullmatch")
        if ctor == "int":
            # python int literal syntax with optional single underscores between digits (base=0) or decimal digits
            if base0:
                target = r"0[bB](_?[01])+|0[oO](_?[0-7])+|0[xX](_?[0-9a-fA-F])+|0(_?0)*|[1-9](_?[0-9])*"
            else:
                target = r"[0-9](_?[0-9])*"
            t = rx.compile_dfa(target, alphabet, "fullmatch")
        else:
            target = r"[0-9](_?[0-9])*(\.([0-9](_?[0-9])*)?)?([eE][+-]?[0-9](_?[0-9])*)?|\.[0-9](_?[0-9])*([eE][+-]?[0-9](_?[0-9])*)?"
            t = rx.compile_dfa(target, alphabet, "fullmatch")
    except rx.RxUnsupported as ex:
        return False, "regex unsupported: %s" % ex
    w = rx.difference_witness(d, t)
    if w is None:
        return True, "language is within %s() syntax" % ctor
    return False, "string %r matches the terminal but is not valid for %s()" % (w, ctor)


# ------------------------------------------------------------------------------------------------ the rule
def run(ctx: Ctx) -> None:
    repo = ctx.repo
    g = CallGraph(repo)
    ctx.analysed["callgraph"] = g.stats()
    kinds = Kinds(ctx, g)
    ctors = GuardedCtors(ctx)
    imp = Implicit(ctx, g, kinds, ctors)
    ctx.analysed["guarded_constructors"] = {c.name: sorted(k) for c, _, k, _ in ctors.table.values()}

    svc_raisers = {f.qualname for f in g.funcs.values() if f.cls is not None and f.cls.name == "ServiceType" and f.name in ("bit_length_set", "iterate_fields_with_offsets")}
    facts = ServiceFacts(ctx, g)
    ext = ctx.func("_serializable._composite.CompositeType.extent")
    # CompositeType.extent is inherited by ServiceType and reads self.bit_length_set: it raises exactly when its receiver is a
    # service type.  The analysis accounts for that at the *call sites* of `.extent` (receiver facts) instead of inside it.
    conditional = {ext.qualname: "ext:TypeError"}

    def drop(caller: str, site: Site, callee: str) -> bool:
        if callee in svc_raisers:
            if caller == ext.qualname and isinstance(site.node, ast.Attribute) and norm(site.node) == "self.bit_length_set":
                facts.used.setdefault("F-deferred", []).append("accounted at the call sites of CompositeType.extent")
                return True
            return facts.excluded(caller, site)
        return False

    def scope(q: str) -> bool:
        base = q[len("<lambda> "):] if q.startswith("<lambda> ") else q
        return not any(base.startswith(m) for m in OUT_OF_SCOPE_MODULES)

    abstract_cache: Dict[str, bool] = {}

    def suppress(fn: FuncInfo, node: ast.Raise, e: Any) -> bool:
        if ctors.is_guard_raise(fn, node):
            return True
        if e == "ext:NotImplementedError":
            if fn.qualname not in abstract_cache:
                abstract_cache[fn.qualname] = abstract_never_runs(repo, fn)
            return abstract_cache[fn.qualname]
        return False

    def implicit_all(fn: FuncInfo, q: str, root: ast.AST, loc: Dict[str, Optional[Ty]]) -> List[Tuple[Any, ast.AST, str]]:
        out = imp(fn, q, root, loc)
        for s2 in g.sites.get(q, []):
            if s2.kind == "prop" and ext.qualname in s2.callees and isinstance(s2.node, ast.Attribute):
                if not facts.excluded(q, s2):
                    out.append(("ext:TypeError", s2.node, "%s on a receiver that may be a ServiceType" % norm(s2.node)[:40]))
        return out

    ef = ExcFlow(g, implicit=implicit_all, scope=scope, drop_callee=drop, suppress_explicit=suppress)
    ef.run()
    ctx.analysed["excflow"] = {"functions": len(ef.escapes), "iterations": ef.iterations, "handlers_exercised": len({id(h) for _, h in ef.handlers_seen}), "abstract_bodies_discharged": sum(1 for v in abstract_cache.values() if v)}
    ide = ctx.cls(IDE)
    internal = ctx.cls("_error.InternalError")

    roots = [ctx.func("_namespace.read_namespace"), ctx.func("_namespace.read_files")]
    ctx.rule("C13.R1", "explicit raises of non-InvalidDefinitionError classes reachable from read_namespace/read_files are translated, discharged by typed guards, or listed as internal-consistency raises", min_instances=3)
    ctx.rule("C13.R2", "implicit partial operations on input-derived operands (int/Fraction/chr/next/encode/literal-table lookup/index/log2/operator.*, guarded value constructors) are handled or discharged", min_instances=10)

    reported: Set[Tuple[str, str, str]] = set()

    def is_benign_cls(e: Any) -> bool:
        if isinstance(e, ClassInfo) and repo.is_subclass(e, ide):
            return True
        return e in ("ext:MemoryError", "ext:SystemError", "ext:RecursionError", "ext:SystemExit", "ext:KeyboardInterrupt")

    # every (class, origin) pair that can leave the public API
    n_pairs = 0
    for r in roots:
        for (cls, org), w in sorted(ef.escapes.get(r.qualname, {}).items(), key=lambda kv: (exc_name(kv[0][0]), repr(kv[0][1]))):
            n_pairs += 1
            if is_benign_cls(cls):
                continue
            if cls in ("ext:OSError", "ext:FileNotFoundError", "ext:PermissionError"):
                continue
            oname = exc_name(org.exc)
            short = org.func.replace("pydsdl.", "")
            key = (short, oname, org.text)
            if key in reported:
                continue
            reported.add(key)
            if is_benign_cls(org.exc) and cls is not internal:
                continue
            trusted = [reason for (suffix, en), reason in list(WHITELIST.items()) + list(INTERNAL_CONSISTENCY.items()) if short.endswith(suffix) and en == oname]
            if trusted:
                ctx.check(True, short, "%s: %s" % (oname, org.text), "trusted: %s" % trusted[0], org.where, rule="C13.R1", nontrivial=False)
                continue
            how = "InternalError" if cls is internal else "a raw %s" % exc_name(cls)
            rule = "C13.R2" if org.kind == "implicit" else "C13.R1"
            ctx.check(False, short, "%s: %s" % (oname, org.text), "%s can surface as %s instead of an InvalidDefinitionError" % (oname, how), org.where, {"path": ef.witness_path(r.qualname, (cls, org))}, rule=rule)
    ctx.count(n_pairs)

    # 3. discharged implicit operations are rule instances too (evidence of what was decided)
    for d in imp.discharged:
        ctx.check(True, d["site"].rsplit(":", 1)[0], d["op"], "discharged: %s" % d["discharge"], d["site"], rule="C13.R2")
    ctx.count(sum(len(v) for v in ef.escapes.values()))

    # 4. service-type receiver facts (each exclusion is backed by a checked guard)
    ctx.rule("C13.R1s", "ServiceType.bit_length_set (TypeError) is unreachable from definition input: every receiver that could be a service type is excluded by a checked guard", min_instances=2)
    facts.report(ctx)

    ctx.attempt(rule_r3, ctx, g)

    ctx.analysed["implicit_discharged"] = len(imp.discharged)
    ctx.assume("A-assert: %d assert statements in the input-handling modules are beliefs (python -O removes them)" % imp.assumed_asserts)
    ctx.assume("A-arity: %d tuple unpackings of visited children follow the grammar's arity" % imp.assumed_unpacks)
    ctx.assume("A-limits: interpreter resource limits (recursion depth, 4300-digit int<->str limit, memory/time for astronomically large exponents) are outside 'bounded length and nesting'")
    ctx.assume("third-party parsimonious is modelled from nodes.py: visit() wraps everything not in unwrapped_exceptions into VisitationError; Grammar.parse raises ParseError")
    ctx.undecided("termination / resource exhaustion; OSError from the file system; path-argument dependent ValueError of Path.relative_to in read_files (C15)")
    ctx.sample({"rule": "C13", "roots": [r.short for r in roots], "escaping_at_read_namespace": sorted(exc_name(e) for e in ef.escapes.get(roots[0].qualname, {}))})


# ------------------------------------------------------------------------------------------------ service-type facts
class ServiceFacts:
    """
    `X.bit_length_set` / `.extent` / `.iterate_fields_with_offsets` raise TypeError when X is a ServiceType.
    A receiver is excluded from being a service type only by one of these *checked* facts:

      F-attr   values read through Attribute.data_type are never service types: Attribute.__init__ rejects them
               (guard dominating the store of the data type).
      F-elem   ArrayType.element_type is never a service type: ArrayType.__init__ rejects them.
      F-self   `self` inside a method of a class that is not ServiceType (nor an ancestor-only method reached on a service
               instance through a guarded caller).
      F-handled the access sits in a `try` whose handler catches TypeError.
    """

    def __init__(self, ctx: Ctx, g: CallGraph):
        self.ctx = ctx
        self.g = g
        self.repo = ctx.repo
        self.svc = ctx.cls("_serializable._composite.ServiceType")
        self.used: Dict[str, List[str]] = {}
        self.unexcluded_sites: Set[str] = set()
        self._cache: Dict[Tuple[str, int], bool] = {}
        self.attr_guard = self._ctor_rejects("_serializable._attribute.Attribute", "data_type")
        self.elem_guard = self._ctor_rejects("_serializable._array.ArrayType", "element_type")

    def _ctor_rejects(self, cls_short: str, param: str) -> bool:
        c = self.ctx.cls(cls_short)
        init = c.methods.get("__init__")
        if init is None or param not in init.params:
            return False
        for st in walk_no_nested(init.node):
            if isinstance(st, ast.If) and st.body and isinstance(st.body[-1], ast.Raise):
                t = st.test
                if isinstance(t, ast.Call) and dotted(t.func) == "isinstance" and len(t.args) == 2 and norm(t.args[0]) == param:
                    k = self.repo.resolve_expr(init.module, t.args[1], c)
                    if k is self.svc:
                        r = st.body[-1]
                        target = r.exc.func if isinstance(r.exc, ast.Call) else r.exc  # type: ignore
                        ek = self.repo.resolve_expr(init.module, target, c)  # type: ignore
                        if isinstance(ek, ClassInfo) and self.repo.is_subclass(ek, IDE):
                            return True
        return False

    def excluded(self, caller: str, site: Site) -> bool:
        key = (caller, id(site.node))
        if key not in self._cache:
            self._cache[key] = self._excluded(caller, site)
        return self._cache[key]

    def _excluded(self, caller: str, site: Site) -> bool:
        node = site.node
        recv = node.value if isinstance(node, ast.Attribute) else (node.func.value if isinstance(node, ast.Call) and isinstance(node.func, ast.Attribute) else None)
        fn = self.g.funcs.get(caller[len("<lambda> "):].rsplit(":", 1)[0] if caller.startswith("<lambda> ") else caller)
        if fn is None or recv is None:
            return False
        why = self._why(fn, recv, node)
        if why:
            self.used.setdefault(why, []).append("%s: %s" % (fn.short, norm(node)[:60]))
            return True
        self.unexcluded_sites.add("%s: %s" % (fn.short, norm(node)[:60]))
        return False

    def _why(self, fn: FuncInfo, recv: ast.AST, node: ast.AST) -> Optional[str]:
        rs = norm(recv)
        # handled locally
        pm = parents_map(fn.node)
        cur: ast.AST = node
        while cur in pm:
            par = pm[cur]
            if isinstance(par, ast.Try) and any(cur is s for s in par.body):
                for h in par.handlers:
                    ts = h.type.elts if isinstance(h.type, ast.Tuple) else ([h.type] if h.type is not None else [])
                    if any((dotted(t) or "") in ("TypeError", "Exception") for t in ts) and not any(isinstance(x, ast.Raise) for x in ast.walk(ast.Module(body=h.body, type_ignores=[]))):
                        return "F-handled"
            cur = par
        if rs == "self" and fn.cls is not None:
            if fn.cls is self.svc:
                return None
            if not self.repo.is_subclass(self.svc, fn.cls):
                return "F-self"  # the method's class is not an ancestor of ServiceType: self cannot be a service
            return None
        if self.attr_guard and (rs.endswith(".data_type") or self._derived_from(fn, recv, "data_type")):
            return "F-attr"
        if self.elem_guard and (rs.endswith(".element_type") or rs.endswith("._element_type")):
            return "F-elem"
        r = self._nonservice(fn, recv, 0)
        if r:
            return r
        if self._path_excludes(fn, recv, node):
            return "F-path"
        return None

    def _class_candidates(self, fn: FuncInfo, e: ast.AST) -> Optional[List[ClassInfo]]:
        """classes an expression used as a callee may denote: a class name, or a local bound to an IfExp / name of classes"""
        r = self.repo.resolve_expr(fn.module, e, fn.cls) if isinstance(e, (ast.Name, ast.Attribute)) else None
        if isinstance(r, ClassInfo):
            return [r]
        if isinstance(e, ast.IfExp):
            a, b = self._class_candidates(fn, e.body), self._class_candidates(fn, e.orelse)
            return (a + b) if a is not None and b is not None else None
        if isinstance(e, ast.Name):
            vals = [st.value for st in walk_no_nested(fn.node) if isinstance(st, ast.Assign) and any(isinstance(t, ast.Name) and t.id == e.id for t in st.targets)]
            if vals:
                out: List[ClassInfo] = []
                for v in vals:
                    c = self._class_candidates(fn, v)
                    if c is None:
                        return None
                    out.extend(c)
                return out
        return None

    def _nonservice(self, fn: FuncInfo, e: ast.AST, depth: int) -> Optional[str]:
        """A reason why expression `e` (in fn) can never denote a ServiceType instance, or None."""
        if depth > 4:
            return None
        if isinstance(e, ast.Call):
            cands = self._class_candidates(fn, e.func)
            if cands is not None and all(not self.repo.is_subclass(c, self.svc) for c in cands):
                return "F-ctor"
            return None
        if isinstance(e, ast.Name):
            if e.id in fn.params and e.id != "self":
                return "F-param" if self._param_nonservice(fn, e.id, depth) else None
            vals = [st.value for st in walk_no_nested(fn.node) if isinstance(st, ast.Assign) and any(isinstance(t, ast.Name) and t.id == e.id for t in st.targets)]
            if vals and all(self._nonservice(fn, v, depth + 1) for v in vals):
                return "F-ctor"
            return None
        if isinstance(e, ast.Attribute) and isinstance(e.value, ast.Name) and e.value.id == "self" and fn.cls is not None:
            attr = e.attr
            from ..regions import trivial_property_expr

            pe = trivial_property_expr(self.repo, fn.cls, attr)
            if pe is not None and dotted(pe) and dotted(pe).startswith("self._"):  # type: ignore
                attr = dotted(pe).split(".", 1)[1]  # type: ignore
            init = self.repo.lookup_method(fn.cls, "__init__")
            if init is None:
                return None
            stores = [st.value for st in walk_no_nested(init.node) if isinstance(st, ast.Assign) and any(dotted(t) == "self." + attr for t in st.targets)]
            others = [m for m in fn.cls.methods.values() if m is not init and any(isinstance(st, ast.Assign) and any(dotted(t) == "self." + attr for t in st.targets) for st in ast.walk(m.node))]
            if len(stores) == 1 and not others and self._nonservice(init, stores[0], depth + 1):
                return "F-field"
        return None

    def _param_nonservice(self, fn: FuncInfo, param: str, depth: int) -> bool:
        """every call site of fn (constructor calls for __init__) passes a non-service expression for `param`"""
        idx = fn.params.index(param)
        sites = 0
        for other, c in self.repo.all_calls():
            if other.module.name.startswith("pydsdl._serdes"):
                continue
            if True:
                target_ok = False
                if fn.name == "__init__" and fn.cls is not None:
                    cands = self._class_candidates(other, c.func)
                    target_ok = cands is not None and any(k is fn.cls or self.repo.is_subclass(k, fn.cls) for k in cands) and all(self.repo.lookup_method(k, "__init__") is fn for k in cands if k is fn.cls or self.repo.is_subclass(k, fn.cls))
                elif isinstance(c.func, ast.Attribute) and c.func.attr == fn.name or isinstance(c.func, ast.Name) and c.func.id == fn.name:
                    target_ok = True
                if not target_ok:
                    continue
                pos = idx - (0 if (fn.is_static or fn.cls is None) else 1)
                if isinstance(c.func, ast.Attribute) and isinstance(c.func.value, ast.Name) and fn.is_static:
                    pos = idx
                a = c.args[pos] if 0 <= pos < len(c.args) else next((k.value for k in c.keywords if k.arg == param), None)
                if a is None:
                    return False
                sites += 1
                if not self._nonservice(other, a, depth + 1):
                    return False
        return sites > 0

    def _path_excludes(self, fn: FuncInfo, recv: ast.AST, node: ast.AST) -> bool:
        """pairwise version check (and the private helpers only it calls): abstractly evaluated over every pair of minor versions,
        services included, it never asks a service type for its layout (decided in c11)"""
        if fn.module.name != "pydsdl._namespace":
            return False
        root = "pydsdl._namespace._ensure_minor_version_compatibility_pairwise"
        if fn.qualname != root:
            # a helper: every caller chain must start at the pairwise check
            seen, work = set(), [fn.qualname]
            while work:
                q = work.pop()
                if q in seen:
                    continue
                seen.add(q)
                callers = [c for c, edges in self.g.edges.items() if q in edges]
                if not callers:
                    return False
                for c in callers:
                    if c != root:
                        if not c.split(".")[-1].startswith("_") or c == q:
                            return False
                        work.append(c)
        from .c11 import pairwise_never_asks_a_service_for_its_layout

        return pairwise_never_asks_a_service_for_its_layout(self.ctx)

    def _derived_from(self, fn: FuncInfo, recv: ast.AST, attr: str) -> bool:
        """receiver is an element/variable of a sequence built as `[f.<attr> for f in ...]` passed as an argument."""
        def local_def(name: str) -> Optional[ast.AST]:
            """the single defining expression of a local (also one position of a tuple assignment)"""
            found: List[ast.AST] = []
            for st in walk_no_nested(fn.node):
                if isinstance(st, ast.Assign) and len(st.targets) == 1:
                    t = st.targets[0]
                    if isinstance(t, ast.Name) and t.id == name:
                        found.append(st.value)
                    elif isinstance(t, (ast.Tuple, ast.List)) and isinstance(st.value, (ast.Tuple, ast.List)) and len(t.elts) == len(st.value.elts):
                        for a, b in zip(t.elts, st.value.elts):
                            if isinstance(a, ast.Name) and a.id == name:
                                found.append(b)
                elif isinstance(st, (ast.AugAssign, ast.AnnAssign)) and isinstance(st.target, ast.Name) and st.target.id == name:
                    found.append(st.value if st.value is not None else st)
            return found[0] if len(found) == 1 else None

        def source_param(src: ast.AST, depth: int = 0) -> Optional[str]:
            """the parameter a sequence expression is (a slice / copy / element-preserving view of)"""
            while isinstance(src, ast.Subscript):
                src = src.value
            if isinstance(src, ast.Call) and dotted(src.func) in ("list", "tuple", "reversed", "sorted") and len(src.args) == 1:
                return source_param(src.args[0], depth + 1)
            if isinstance(src, ast.Name):
                if src.id in fn.params:
                    return src.id
                d = local_def(src.id)
                if d is not None and depth < 4:
                    return source_param(d, depth + 1)
            return None

        if isinstance(recv, ast.Name):
            # loop / comprehension variable over (a slice of) a parameter
            for n in ast.walk(fn.node):
                if isinstance(n, (ast.For, ast.comprehension)) and isinstance(n.target, ast.Name) and n.target.id == recv.id:
                    p_ = source_param(n.iter)
                    if p_ is not None:
                        return self._param_fed_by_attr(fn, p_, attr)
            # a local bound once to an element of the parameter
            d = local_def(recv.id)
            if isinstance(d, ast.Subscript) and not isinstance(d.slice, ast.Slice):
                p_ = source_param(d.value)
                if p_ is not None:
                    return self._param_fed_by_attr(fn, p_, attr)
        if isinstance(recv, ast.Subscript):
            p_ = source_param(recv.value)
            if p_ is not None:
                return self._param_fed_by_attr(fn, p_, attr)
        return False

    def _param_fed_by_attr(self, fn: FuncInfo, param: str, attr: str) -> bool:
        """every call site of fn passes `[x.<attr> for x in ...]` for `param`"""
        idx = fn.params.index(param)
        sites = 0
        for other, c in self.repo.all_calls():
            if other.module.name.startswith("pydsdl._serdes"):
                continue
            if True:
                if isinstance(c.func, ast.Attribute) and c.func.attr == fn.name:
                    pos = idx - (0 if fn.is_static else 1)
                    a = c.args[pos] if 0 <= pos < len(c.args) else None
                    if a is None:
                        return False
                    sites += 1
                    if isinstance(a, ast.Name) and a.id not in other.params:
                        # a local bound (only) to such a comprehension
                        defs = [st.value for st in walk_no_nested(other.node) if isinstance(st, ast.Assign) and any(isinstance(t, ast.Name) and t.id == a.id for t in st.targets)]
                        if defs and all(isinstance(d, ast.ListComp) and isinstance(d.elt, ast.Attribute) and d.elt.attr == attr for d in defs):
                            a = defs[0]
                    ok = isinstance(a, ast.ListComp) and isinstance(a.elt, ast.Attribute) and a.elt.attr == attr
                    if not ok and isinstance(a, ast.Name) and a.id in other.params and other.name == fn.name:
                        ok = True  # forwarding its own parameter (same helper in a sibling class)
                    if not ok and isinstance(a, ast.Name) and a.id in other.params:
                        ok = self._param_fed_by_attr(other, a.id, attr)
                    if not ok:
                        return False
        return sites > 0

    def report(self, ctx: Ctx) -> None:
        ctx.check(self.attr_guard, "_serializable._attribute.Attribute.__init__", "rejects ServiceType data types", "a service type used as a field / constant type must be rejected with an InvalidDefinitionError before any layout computation (fact F-attr)", "pydsdl/_serializable/_attribute.py", rule="C13.R1s")
        ctx.check(self.elem_guard, "_serializable._array.ArrayType.__init__", "rejects ServiceType elements", "a service type used as an array element must be rejected with an InvalidDefinitionError before the array's layout is computed (fact F-elem)", "pydsdl/_serializable/_array.py", rule="C13.R1s")
        ctx.analysed["service_receiver_exclusions"] = {k: len(v) for k, v in self.used.items()}
        ctx.analysed["service_receiver_not_excluded"] = sorted(self.unexcluded_sites)


def rule_r3(ctx: Ctx, g: CallGraph) -> None:
    repo = ctx.repo
    ctx.rule("C13.R3", "an InvalidDefinitionError leaving DSDLDefinition.read / _read_definitions passes a handler that stamps the definition's own path; FileNameFormatError carries the path", min_instances=3)
    for short, own in (("_dsdl_definition.DSDLDefinition.read", True), ("_namespace_reader._read_definitions", False)):
        fn = ctx.func(short)
        good = False
        detail = []
        node = ctx.inl(fn)  # private helpers expanded, so that an extracted step is still seen inside the try
        # nested functions are searched too (the protected read may live in a local function called from the loop)
        for tr in [n for n in ast.walk(node) if isinstance(n, ast.Try)]:
            for h in tr.handlers:
                ts = h.type.elts if isinstance(h.type, ast.Tuple) else ([h.type] if h.type is not None else [])
                ks = [repo.resolve_expr(fn.module, t, fn.cls) for t in ts]
                if any(isinstance(k, ClassInfo) and k.name == "Error" for k in ks) and h.name:
                    calls = [c for c in ast.walk(ast.Module(body=h.body, type_ignores=[])) if isinstance(c, ast.Call) and isinstance(c.func, ast.Attribute) and c.func.attr == "set_error_location_if_unknown" and norm(c.func.value) == h.name]
                    paths = [norm(k.value) for c in calls for k in c.keywords if k.arg == "path"]
                    rer = any(isinstance(r, ast.Raise) and (r.exc is None or norm(r.exc) == h.name) for r in ast.walk(ast.Module(body=h.body, type_ignores=[])))
                    # what the handler protects: the definition's own parse / finalize, or the read of some definition R
                    body_calls = [c for s_ in tr.body for c in ast.walk(s_) if isinstance(c, ast.Call)]
                    if own:
                        protects = any((isinstance(c.func, ast.Attribute) and c.func.attr in ("parse", "finalize")) or (dotted(c.func) or "").endswith("parse") for c in body_calls)
                        want = ["self.file_path"]
                    else:
                        readers = [norm(c.func.value) for c in body_calls if isinstance(c.func, ast.Attribute) and c.func.attr == "read"]
                        protects = len(set(readers)) == 1
                        want = ["%s.file_path" % readers[0]] if protects else ["?"]
                    detail.append({"paths": paths, "reraises": rer, "protects": protects, "expected path": want})
                    if paths == want and rer and protects:
                        good = True
        ctx.check(good, fn.short, "except Error: set_error_location_if_unknown(path=<the file being read>); raise", "errors are stamped with the file being read and re-raised", fn.where(), detail)
    fe = ctx.cls("_dsdl_definition.FileNameFormatError")
    init = fe.methods.get("__init__")
    good = init is not None and "path" in init.params and any(isinstance(c, ast.Call) and any(k.arg == "path" for k in c.keywords) for c in calls_in(init.node))
    ctx.check(good, fe.short, "path is a required constructor argument", "file-name errors always carry the offending path", fe.module.relpath)
