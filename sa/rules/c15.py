"""
C15 -- A type's name, version and port-ID are exactly those encoded in its file path.

R1  component decision: the base name without its extension splits on '.' into 3 components (short, major, minor) or
    4 (port, short, major, minor); anything else is a FileNameFormatError; the namespace is the directory chain relative to
    the root (root's own name first), each component free of '.'.
R2  numeric components are sanitised: every file-name part that becomes a number passes a digits-only guard (int() alone
    accepts signs, blanks, underscores, non-ASCII digits) inside a handler that translates to FileNameFormatError.
R3  identity propagation: name / version / port-ID / path flow from the definition into the composite(s) unchanged
    (request/response get the suffixed name and no port-ID); DelimitedType copies them from its inner type; the path to
    the root is found by walking exactly the namespace components upward with a name check per level.
R4  the bare-name root inference scans the *path* outermost-first and uses the names only through membership, so the
    inferred root does not depend on the order in which root names are listed.
"""
from __future__ import annotations

import ast
from typing import Any, Dict, List, Optional, Set, Tuple

from ..core import AnalysisError, ClassInfo, Ctx, FuncInfo, body_without_docstring, calls_in, dotted, kwarg, norm, parents_map, walk_no_nested
from ..decide import paths_of
from ..fold import Folder, Unfoldable
from ..regions import exc_class_of

IDE = "_error.InvalidDefinitionError"


def _definition(ctx: Ctx, file_path: str, root: str) -> Any:
    """DSDLDefinition(file_path, root) evaluated abstractly over syntactic paths: the attributes derived, or the error class"""
    from ..absint import APath

    d = _build(ctx, "_dsdl_definition.DSDLDefinition", file_path=APath(file_path), root_namespace_path=APath(root))
    if isinstance(d, str):
        return d
    out = {p: _prop(ctx, d, p) for p in ("full_name", "version", "fixed_port_id", "file_path", "root_namespace", "full_namespace", "short_name")}
    out["version"] = tuple(out["version"]) if isinstance(out["version"], tuple) else out["version"]
    return out


def rule_r1(ctx: Ctx) -> None:
    repo = ctx.repo
    ctx.rule("C15.R1", "file name shape: 3 or 4 dot-separated components before the extension, otherwise FileNameFormatError; namespace = directories relative to the root, root name first, none containing '.'", min_instances=4)
    init = ctx.func("_dsdl_definition.DSDLDefinition.__init__")
    root = "/w/ns"
    # component count
    shapes = {0: ".dsdl", 1: "T.dsdl", 2: "T.1.dsdl", 3: "T.1.2.dsdl", 4: "77.T.1.2.dsdl", 5: "0.77.T.1.2.dsdl", 6: "0.0.77.T.1.2.dsdl"}
    outcome = {}
    for n, base in shapes.items():
        r = _definition(ctx, "%s/sub/%s" % (root, base), root)
        ctx.count()
        outcome[n] = r if isinstance(r, str) else "port=%s name=%s version=%s" % (r["fixed_port_id"], r["full_name"], r["version"])
    want = {0: "FileNameFormatError", 1: "FileNameFormatError", 2: "FileNameFormatError", 3: "port=None name=ns.sub.T version=(1, 2)", 4: "port=77 name=ns.sub.T version=(1, 2)", 5: "FileNameFormatError", 6: "FileNameFormatError"}
    ctx.check(outcome == want, init.short, "component count -> %s" % outcome, "3 components: name.major.minor; 4: port.name.major.minor; anything else is rejected as a malformed file name", init.where(), {n: outcome[n] for n in outcome if outcome[n] != want[n]})
    # the extension is dropped whatever it is; the components keep their order
    r = _definition(ctx, root + "/5.Name.10.20.uavcan", root)
    ctx.count()
    ctx.check(not isinstance(r, str) and (r["fixed_port_id"], r["short_name"], r["version"]) == (5, "Name", (10, 20)), init.short, "component order: %s" % (r if isinstance(r, str) else (r["fixed_port_id"], r["short_name"], r["version"]),), "[port.]name.major.minor, extension dropped", init.where())
    # namespace = root directory name + directories below it
    cases = {
        (root + "/T.1.0.dsdl", root): "ns.T",
        (root + "/a/b/T.1.0.dsdl", root): "ns.a.b.T",
        ("/deep/er/root/x/T.1.0.dsdl", "/deep/er/root"): "root.x.T",
    }
    got = {}
    for (fp, rt), _ in cases.items():
        r = _definition(ctx, fp, rt)
        ctx.count()
        got[(fp, rt)] = r if isinstance(r, str) else r["full_name"]
    ctx.check(got == cases, init.short, "namespace = root name / path relative to the root", "the namespace is the chain of directories from the root namespace directory (inclusive) down to the file; the full name is the namespace plus the short name", init.where(), {str(k): v for k, v in got.items() if v != cases[k]})
    # a file that does not lie under the directory given as its root namespace is not a definition of that namespace: it is
    # refused (a sibling of the root, a file next to the root directory, a file above it), never renamed into another namespace
    outside = {}
    for fp, rt in (("/w/common/Shared.1.0.dsdl", "/w/ns"), ("/w/Loose.1.0.dsdl", "/w/ns"), ("/w/ns/sub/T.1.0.dsdl", "/w/ns/sub/deeper"), ("/elsewhere/ns/T.1.0.dsdl", "/w/ns")):
        r = _definition(ctx, fp, rt)
        ctx.count()
        if not isinstance(r, str):
            outside[fp + " with root " + rt] = "accepted as %s" % r["full_name"]
    ctx.check(not outside, init.short, "a file outside the root namespace directory is refused", "the name of a type is spelled by its path relative to its root namespace directory; a path that is not under that directory spells no name", init.where(), outside)
    # separators inside directory names are rejected
    r1 = _definition(ctx, root + "/a.b/T.1.0.dsdl", root)
    r2 = _definition(ctx, "/w/n.s/T.1.0.dsdl", "/w/n.s")
    ctx.count(2)
    ctx.check(r1 == "FileNameFormatError" and r2 == "FileNameFormatError", init.short, "'.' in a directory name is rejected (%s, %s)" % (r1 if isinstance(r1, str) else "accepted", r2 if isinstance(r2, str) else "accepted"), "a namespace component cannot contain the separator", init.where(), nontrivial=False)
    ffe = ctx.cls("_dsdl_definition.FileNameFormatError")
    ctx.check(repo.is_subclass(ffe, IDE), ffe.short, "is an InvalidDefinitionError", "malformed names are definition errors", ffe.module.relpath, nontrivial=False)


def rule_r2(ctx: Ctx) -> None:
    ctx.rule("C15.R2", "numeric file-name components must be plain decimal digits: anything int() would merely tolerate (signs, blanks, underscores, non-ASCII digits, other bases) is FileNameFormatError", min_instances=3)
    init = ctx.func("_dsdl_definition.DSDLDefinition.__init__")
    root = "/w/ns"
    good_num = ["0", "7", "007", "255", "65535"]
    # (non-ASCII decimal digits - ARABIC-INDIC ONE, FULLWIDTH ONE, DEVANAGARI ONE - which int() and `\d` take; SUPERSCRIPT TWO,
    # which str.isdigit takes; a trailing line feed, which `$` lets through)
    bad_num = ["", "+1", "-1", " 1", "1 ", "1_0", "0x10", "1e3", "1x", "\u0661", "\uff11", "\u0967", "1\uff10", "\u00b2", "a", "1\n", "\t1"]
    for pos, label in ((0, "port-ID"), (2, "major version"), (3, "minor version")):
        bad = []
        for txt in good_num + bad_num:
            comps = ["9", "T", "1", "2"]
            comps[pos] = txt
            if "." in txt or "/" in txt:
                continue
            r = _definition(ctx, "%s/%s.dsdl" % (root, ".".join(comps)), root)
            ctx.count()
            ok_expected = txt in good_num
            if ok_expected:
                val = None if isinstance(r, str) else (r["fixed_port_id"] if pos == 0 else r["version"][0 if pos == 2 else 1])
                if isinstance(r, str) or val != int(txt):
                    bad.append({"text": txt, "found": r if isinstance(r, str) else val, "expected": int(txt)})
            elif r != "FileNameFormatError":
                bad.append({"text": txt, "found": r if isinstance(r, str) else "accepted", "expected": "FileNameFormatError"})
        ctx.check(not bad, init.short, "%s: decimal digits only" % label, "the %s in a file name is a plain decimal number; everything else is a malformed file name" % label, init.where(), bad[:4])


def _model_hook(ctx: Ctx, cls: Any) -> Any:
    from ..absint import ctor_hook, module_call_hook, path_hook
    from .c02 import _layout_hook

    return path_hook(ctor_hook(ctx, module_call_hook(ctx, cls.module, [], [], results={"check_name": None}, record=["check_name"], base_hook=_layout_hook(ctx, cls.module, cls))))


def _build(ctx: Ctx, cls_short: str, **kw: Any) -> Any:
    """the abstract instance the model class's constructor builds, or the name of the exception it raises"""
    from ..absint import Raised, construct
    from ..fold import Unfoldable

    c = ctx.cls(cls_short)
    try:
        return construct(ctx, c, hook=_model_hook(ctx, c), **kw)
    except Raised as r:
        return r.cls_name
    except Unfoldable as ex:
        raise AnalysisError("cannot evaluate the constructor of %s over abstract arguments: %s" % (c.name, ex))


def _prop(ctx: Ctx, o: Any, name: str) -> Any:
    from ..absint import Raised
    from ..fold import Folder, Unfoldable

    try:
        v = Folder({"o": o}, ctx.repo, o._cls_.module, o._cls_, _model_hook(ctx, o._cls_)).fold(ast.parse("o." + name, mode="eval").body)
    except Raised as r:
        return "raise " + r.cls_name
    except Unfoldable as ex:
        raise AnalysisError("cannot evaluate %s.%s: %s" % (o._cls_.name, name, ex))
    return str(v) if type(v).__name__ == "APath" else v


def rule_r3(ctx: Ctx) -> None:
    from . import builder_common as B
    from .c11 import _version

    ctx.rule("C15.R3", "identity propagation: finalize passes the definition's full name (+ .Request/.Response), version, file path and port-ID (None for request/response) to the composites; the composites hold and return them; DelimitedType / ServiceType derive theirs from their parts; the root path is found by walking the namespace components upward", min_instances=5)
    fin = ctx.func("_data_type_builder.DataTypeBuilder.finalize")
    d = B.definition_sym("ns.sub.T", 3, 7, 321, "/root/ns/sub/321.T.3.7.dsdl")
    # ---- what the builder hands over (message, then service)
    r = B.run_builder(ctx, [("on_directive", (1, "extent", ("Rational", 64)))], d, allow_unregulated=True)
    if r.raised:
        raise AnalysisError("finalize of a message raised %s" % r.raised)
    leaf = [kw for k, kw in r.ctor_log if k in ("StructureType", "UnionType")]
    want = {"name": "ns.sub.T", "version": (3, 7), "fixed_port_id": 321, "source_file_path": "/root/ns/sub/321.T.3.7.dsdl", "has_parent_service": False}
    got = {k: (tuple(leaf[0].get(k)) if k == "version" and leaf and leaf[0].get(k) is not None else (leaf[0].get(k) if leaf else None)) for k in want}
    ctx.check(len(leaf) == 1 and got == want, fin.short, "message: %s" % got, "the message type carries the identity encoded in the file path", fin.where(), {"expected": want})
    r = B.run_builder(ctx, [("on_directive", (1, "sealed", None)), ("on_service_response_marker", ()), ("on_directive", (3, "sealed", None))], d, allow_unregulated=True)
    if r.raised:
        raise AnalysisError("finalize of a service raised %s" % r.raised)
    leafs = [kw for k, kw in r.ctor_log if k in ("StructureType", "UnionType")]
    svc = [kw for k, kw in r.ctor_log if k == "ServiceType"]
    for role, idx in (("request", 0), ("response", 1)):
        kw = leafs[idx] if len(leafs) == 2 else {}
        want = {"name": "ns.sub.T." + role.capitalize(), "version": (3, 7), "fixed_port_id": None, "source_file_path": "/root/ns/sub/321.T.3.7.dsdl", "has_parent_service": True}
        got = {k: (tuple(kw.get(k)) if k == "version" and kw.get(k) is not None else kw.get(k)) for k in want}
        ctx.check(got == want, fin.short, "%s: %s" % (role, got), "the %s type carries the identity encoded in the file path (no port-ID of its own)" % role, fin.where(), {"expected": want})
    ctx.check(len(svc) == 1 and svc[0].get("fixed_port_id") == 321, fin.short, "ServiceType(fixed_port_id=%s)" % (svc[0].get("fixed_port_id") if svc else "?"), "the service object carries the port-ID of the file", fin.where())
    # ---- the composites hold and return what they were given; the root directory is found by walking up
    comp_where = ctx.cls("_serializable._composite.CompositeType").module.relpath
    base = dict(version=_version(3, 7), attributes=[], deprecated=False, doc="")
    s = _build(ctx, "_serializable._composite.StructureType", name="ns.sub.T", fixed_port_id=321, source_file_path="/root/ns/sub/321.T.3.7.dsdl", has_parent_service=False, **base)
    if isinstance(s, str):
        raise AnalysisError("StructureType(...) over abstract arguments raised %s" % s)
    got = {p: _prop(ctx, s, p) for p in ("full_name", "version", "fixed_port_id", "source_file_path", "source_file_path_to_root")}
    got["version"] = tuple(got["version"]) if isinstance(got["version"], tuple) else got["version"]
    want = {"full_name": "ns.sub.T", "version": (3, 7), "fixed_port_id": 321, "source_file_path": "/root/ns/sub/321.T.3.7.dsdl", "source_file_path_to_root": "/root/ns"}
    ctx.check(got == want, "_serializable._composite.CompositeType", "accessors return the identity given: %s" % got, "the model object holds the identity it was given; the root directory is len(namespace) levels above the file", comp_where, {"expected": want})
    z = _build(ctx, "_serializable._composite.StructureType", name="ns.sub.T", fixed_port_id=0, source_file_path="/root/ns/sub/0.T.3.7.dsdl", has_parent_service=False, **base)
    zp = z if isinstance(z, str) else (_prop(ctx, z, "fixed_port_id"), _prop(ctx, z, "has_fixed_port_id"))
    ctx.check(zp == (0, True), "_serializable._composite.CompositeType", "port-ID 0 is a port-ID: %s" % (zp,), "the smallest port-ID is kept, not mistaken for 'none'", comp_where)
    rq = _build(ctx, "_serializable._composite.StructureType", name="ns.sub.T.Request", fixed_port_id=None, source_file_path="/root/ns/sub/321.T.3.7.dsdl", has_parent_service=True, **base)
    rs = _build(ctx, "_serializable._composite.StructureType", name="ns.sub.T.Response", fixed_port_id=None, source_file_path="/root/ns/sub/321.T.3.7.dsdl", has_parent_service=True, **base)
    ctx.check(not isinstance(rq, str) and _prop(ctx, rq, "source_file_path_to_root") == "/root/ns", "_serializable._composite.CompositeType", "request half: root = %s" % (rq if isinstance(rq, str) else _prop(ctx, rq, "source_file_path_to_root")), "the halves of a service live in the service's file: their last name component is not a directory", comp_where)
    # directory names must match the namespace components, level by level
    outcomes = {}
    for label, path in (("match", "/x/ns/sub/T.3.7.dsdl"), ("leaf mismatch", "/x/ns/other/T.3.7.dsdl"), ("root mismatch", "/x/zz/sub/T.3.7.dsdl")):
        o = _build(ctx, "_serializable._composite.StructureType", name="ns.sub.T", fixed_port_id=None, source_file_path=path, has_parent_service=False, **base)
        outcomes[label] = o if isinstance(o, str) else _prop(ctx, o, "source_file_path_to_root")
        ctx.count()
    # a namespace component may repeat the root's name, and a directory above the root may bear it too: the root is found by
    # counting levels, not by the first directory with that name
    repeats = {}
    for label, nm, path, want_root in (
        ("nested component named like the root", "ns.sub.ns.T", "/x/ns/sub/ns/T.3.7.dsdl", "/x/ns"),
        ("root name twice in a row", "ns.ns.T", "/x/ns/ns/T.3.7.dsdl", "/x/ns"),
        ("directory above the root named like it", "ns.sub.T", "/ns/x/ns/sub/T.3.7.dsdl", "/ns/x/ns"),
        ("deep mismatch above a nested component named like the root", "ns.sub.ns.T", "/x/ns/other/ns/T.3.7.dsdl", "InvalidNameError"),
    ):
        o = _build(ctx, "_serializable._composite.StructureType", name=nm, fixed_port_id=None, source_file_path=path, has_parent_service=False, **base)
        got_root = o if isinstance(o, str) else _prop(ctx, o, "source_file_path_to_root")
        ctx.count()
        if got_root != want_root:
            repeats[label] = {"name": nm, "path": path, "found": got_root, "expected": want_root}
    ctx.check(not repeats, "_serializable._composite.CompositeType.__init__", "namespaces whose components repeat the root's name", "source_file_path_to_root is the root namespace directory even when a nested namespace (or a directory above the root) has the root's name", comp_where, repeats)
    ctx.check(outcomes == {"match": "/x/ns", "leaf mismatch": "InvalidNameError", "root mismatch": "InvalidNameError"}, "_serializable._composite.CompositeType.__init__", "walks one directory per namespace component, checking each name: %s" % outcomes, "the root directory is exactly len(namespace) levels above the file and every level's name matches", comp_where)
    # ---- wrappers derive identity from their parts
    dl = _build(ctx, "_serializable._composite.DelimitedType", inner=s, extent=64)
    if isinstance(dl, str):
        raise AnalysisError("DelimitedType(...) over abstract arguments raised %s" % dl)
    gd = {p: _prop(ctx, dl, p) for p in ("full_name", "version", "fixed_port_id", "source_file_path", "source_file_path_to_root", "deprecated", "has_parent_service")}
    gs = {p: _prop(ctx, s, p) for p in gd}
    ctx.check(gd == gs, "_serializable._composite.DelimitedType", "copies identity from the inner type", "a delimited wrapper has the identity of what it wraps", comp_where, {"wrapper": gd, "inner": gs})
    if isinstance(rq, str) or isinstance(rs, str):
        raise AnalysisError("request / response construction raised %s / %s" % (rq, rs))
    sv = _build(ctx, "_serializable._composite.ServiceType", request=rq, response=rs, fixed_port_id=321)
    if isinstance(sv, str):
        raise AnalysisError("ServiceType(...) over abstract arguments raised %s" % sv)
    gv = {p: _prop(ctx, sv, p) for p in ("full_name", "version", "fixed_port_id", "source_file_path")}
    gv["version"] = tuple(gv["version"]) if isinstance(gv["version"], tuple) else gv["version"]
    want = {"full_name": "ns.sub.T", "version": (3, 7), "fixed_port_id": 321, "source_file_path": "/root/ns/sub/321.T.3.7.dsdl"}
    ctx.check(gv == want, "_serializable._composite.ServiceType", "name = request's namespace (the service's full name), version/path from the request, port-ID as given: %s" % gv, "the service object's identity is that of the file", comp_where, {"expected": want})


def rule_r4(ctx: Ctx) -> None:
    from ..absint import APath, Raised, call_fn
    from ..fold import Unfoldable

    ctx.rule("C15.R4", "bare-name root inference: when several listed names occur in the path the outermost directory wins, whatever the order of the names", min_instances=1)
    fn = ctx.func("_dsdl_definition.DSDLDefinition._infer_path_to_root_from_first_found")
    cls = fn.cls
    outcomes = {}
    cases = [
        ("/a/outer/x/inner/T.1.0.dsdl", ["inner", "outer"], "/a/outer"),
        ("/a/outer/x/inner/T.1.0.dsdl", ["outer", "inner"], "/a/outer"),
        ("/a/outer/x/inner/T.1.0.dsdl", ["inner"], "/a/outer/x/inner"),
        ("/a/ns/ns/T.1.0.dsdl", ["ns"], "/a/ns"),
        ("/a/outer/x/inner/T.1.0.dsdl", ["nope"], "PathInferenceError"),
    ]
    bad = []
    for path, names, want in cases:
        args = [cls, APath(path), [APath(n) for n in names]] if fn.is_classmethod else [APath(path), [APath(n) for n in names]]
        try:
            r = call_fn(ctx, fn, args, hook=_model_hook(ctx, cls), keep=())
            got = str(r)
        except Raised as ex:
            got = ex.cls_name
        except Unfoldable as ex:
            raise AnalysisError("%s: cannot evaluate over syntactic paths: %s" % (fn.short, ex))
        ctx.count()
        if got != want:
            bad.append({"path": path, "names": names, "found": got, "expected": want})
    ctx.check(not bad, fn.short, "root inferred from bare names, over orders of the names", "when several listed names occur in the path the outermost directory wins, whatever the order of the names", fn.where(), bad)


def rule_r5_ambient(ctx: Ctx) -> None:
    from . import ambient

    ctx.rule("C15.R5", "the mapping from paths to names is computed from the arguments and the working directory / file system of the call: no memoised function of the package reaches Path.resolve / exists / cwd / the environment (a relative root resolved once would keep designating the directory of the first call's working directory)", min_instances=1)
    ambient.rule(ctx, "C15.R5", "a relative or bare root designation means the directory it names *now*; an answer kept from an earlier call (another working directory, another state of the file system) maps the file to another root and so to another name")


def rule_r6_designations(ctx: Ctx) -> None:
    """`for read_files the mapping is the same however the root is designated`: read_files is evaluated end to end (only the
    reading of one file stubbed, reader_common.run_entry) over an abstract file system with a working directory, and the same
    file is requested through every designation the documentation offers - absolute target and absolute root, relative target
    with an absolute root, relative target and relative root, a bare root-namespace name, no root at all (inferred from the
    relative target), a bare name with an absolute target, and the same again from another working directory for the absolute
    forms.  The definition that gets read must be the same file with the same full name, version, port-ID and root."""
    from ..absint import APath
    from . import reader_common as R

    ctx.rule("C15.R6", "read_files evaluated end to end over an abstract file system with a working directory: the file requested is mapped to the same full name, version, port-ID and root namespace directory however target and root are designated (absolute / relative paths, bare name, no root), and a file outside every designated root is rejected [bounded grid of designations]", min_instances=2)
    files = {"/w/ns/sub/Foo.1.0.dsdl": [], "/w/ns/sub/7509.Bar.2.3.dsdl": [], "/w/ns/Top.0.1.dsdl": [], "/w/other/ns/sub/Foo.1.0.dsdl": [], "/w/other/Z.1.0.dsdl": []}
    P = APath
    fn = ctx.func("_namespace.read_files")
    want = {
        "Foo": {"file": "/w/ns/sub/Foo.1.0.dsdl", "full_name": "ns.sub.Foo", "version": (1, 0), "fixed_port_id": None, "root_namespace": "ns", "root_namespace_path": "/w/ns"},
        "Bar": {"file": "/w/ns/sub/7509.Bar.2.3.dsdl", "full_name": "ns.sub.Bar", "version": (2, 3), "fixed_port_id": 7509, "root_namespace": "ns", "root_namespace_path": "/w/ns"},
        "Top": {"file": "/w/ns/Top.0.1.dsdl", "full_name": "ns.Top", "version": (0, 1), "fixed_port_id": None, "root_namespace": "ns", "root_namespace_path": "/w/ns"},
    }
    rel = {"Foo": "ns/sub/Foo.1.0.dsdl", "Bar": "ns/sub/7509.Bar.2.3.dsdl", "Top": "ns/Top.0.1.dsdl"}
    designations = [
        # (label, working directory, target spelling, roots)
        ("absolute target, absolute root", "/w", "abs", [P("/w/ns")]),
        ("absolute target, absolute root, other working directory", "/elsewhere", "abs", [P("/w/ns")]),
        ("relative target, absolute root", "/w", "rel", [P("/w/ns")]),
        ("relative target, relative root", "/w", "rel", [P("ns")]),
        ("relative target, bare root name", "/w", "rel", ["ns"]),
        ("relative target, no root (inferred)", "/w", "rel", []),
        ("absolute target, bare root name", "/w", "abs", ["ns"]),
        ("absolute target, root listed after another root", "/w", "abs", [P("/w/other"), P("/w/ns")]),
        ("relative target, root given with a trailing dot segment", "/w", "rel", [P("/w/./ns")]),
    ]
    for key in ("Foo", "Bar", "Top"):
        bad = []
        for label, cwd, how, roots in designations:
            target = P(want[key]["file"]) if how == "abs" else P(rel[key])
            r = R.run_entry(ctx, "read_files", [[target], list(roots), []], files, cwd=cwd)
            ctx.count()
            # (how often the definition is read is not this property's business: every reading must give the same identity)
            got = r.identities[0] if r.identities else None
            if r.raised or got is None or any(g.get(k) != v for g in r.identities for k, v in want[key].items()):
                bad.append({"designation": label, "outcome": r.raised or "a result", "read": got, "expected": want[key]})
        ctx.check(not bad, fn.short, "%s through %d designations" % (want[key]["file"], len(designations)), "name, version, port-ID and root of a file do not depend on how target and root are designated", fn.where(), bad[:3])
    # a target that lies under none of the designated roots is rejected, not attributed to some root
    bad = []
    for label, cwd, target, roots in (("absolute target outside the root", "/w", P("/w/other/Z.1.0.dsdl"), [P("/w/ns")]), ("absolute target, no root", "/w", P("/w/ns/Top.0.1.dsdl"), [])):
        r = R.run_entry(ctx, "read_files", [[target], list(roots), []], files, cwd=cwd)
        ctx.count()
        k = next((k for k in ctx.repo.all_classes().values() if k.name == r.raised), None) if r.raised else None
        if k is None or not ctx.repo.is_subclass(k, ctx.cls("_error.InvalidDefinitionError")):
            bad.append({"designation": label, "outcome": r.raised or "a result", "read": r.identities[:1]})
    ctx.check(not bad, fn.short, "targets under no designated root", "a file whose root cannot be established is rejected with an InvalidDefinitionError", fn.where(), bad)


def run(ctx: Ctx) -> None:
    ctx.attempt(rule_r1, ctx)
    ctx.attempt(rule_r2, ctx)
    ctx.attempt(rule_r3, ctx)
    ctx.attempt(rule_r4, ctx)
    ctx.attempt(rule_r5_ambient, ctx)
    ctx.attempt(rule_r6_designations, ctx)
    from . import c15text

    c15text.run(ctx)
    ctx.undecided("equivalence of the four root-inference strategies for all argument spellings: file-system and working-directory dependent behaviour with no static abstraction in reach (only the order-independence of the bare-name strategy is decided)")
