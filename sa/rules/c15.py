"""
C15 -- A type's name, version and port-ID are exactly those encoded in its file path.

R1  component decision: the base name without its extension splits on '.' into 3 components (short, major, minor) or
    4 (port, short, major, minor); anything else is a FileNameFormatError; the namespace is the directory chain relative to
    the root (root's own name first), each component free of '.'.
R2  numeric components are sanitised: every file-name part that becomes a number passes a digits-only guard (int() alone
    accepts signs, blanks, underscores, non-ASCII digits) inside a handler that translates to FileNameFormatError.
R3  identity propagation: name / version / port-ID / path flow from the definition into the composite(s) unchanged
    (request/response get the suffixed name and no port-ID); DelimitedType copies them from its inner type; the path to
    the root is found by walking exactly the namespace components upward with a name check per level.
R4  the bare-name root inference scans the *path* outermost-first and uses the names only through membership, so the
    inferred root does not depend on the order in which root names are listed.
"""
from __future__ import annotations

import ast
from typing import Any, Dict, List, Optional, Set, Tuple

from ..core import AnalysisError, ClassInfo, Ctx, FuncInfo, body_without_docstring, calls_in, dotted, kwarg, norm, parents_map, walk_no_nested
from ..decide import paths_of
from ..fold import Folder, Unfoldable
from ..regions import exc_class_of

IDE = "_error.InvalidDefinitionError"


def rule_r1(ctx: Ctx) -> None:
    repo = ctx.repo
    ctx.rule("C15.R1", "file name shape: 3 or 4 dot-separated components before the extension, otherwise FileNameFormatError; namespace = directories relative to the root, root name first, none containing '.'", min_instances=4)
    init = ctx.func("_dsdl_definition.DSDLDefinition.__init__")
    paths = paths_of(init.node, opaque=["relative_path", "namespace_components", "basename_components"])
    # how the components are obtained
    comp_def = [st.value for st in walk_no_nested(init.node) if isinstance(st, ast.Assign) and norm(st.targets[0]) == "basename_components"]
    good = len(comp_def) == 1 and norm(comp_def[0]) in ('relative_path.name.split(".")[:-1]'.replace('"', "'"), "relative_path.name.split('.')[:-1]", "self._file_path.name.split('.')[:-1]")
    ctx.check(good, init.short, "components = %s" % (norm(comp_def[0]) if comp_def else "?"), "the base name is split on '.' and the extension dropped", init.where())
    outcome: Dict[int, str] = {}
    for n in range(0, 7):
        taken = []
        for p in paths:
            ok = True
            for c, pol in p.conds:
                if isinstance(c, tuple):
                    continue
                s = norm(c)
                if "len(basename_components)" in s:
                    try:
                        v = bool(Folder({}, repo, init.module, init.cls, lambda e, f: n if norm(e) == "len(basename_components)" else NotImplemented).fold(c))
                    except Unfoldable as ex:
                        raise AnalysisError("cannot fold %s: %s" % (s, ex))
                    if v != pol:
                        ok = False
                        break
            if ok:
                taken.append(p)
        ctx.count()
        kinds = set()
        for p in taken:
            if p.kind == "raise":
                k = exc_class_of(repo, init.module, init.cls, p.value)
                # only the raise guarded by the component count matters here
                last = [c for c, pol in p.conds if not isinstance(c, tuple)]
                if last and "len(basename_components)" in norm(last[-1]):
                    kinds.add("reject:" + (k.name if isinstance(k, ClassInfo) else "?"))
            else:
                pid = p.env.get("str_fixed_port_id")
                kinds.add("accept:port=%s" % ("none" if pid is None or norm(pid) == "None" else "first"))
        outcome[n] = ",".join(sorted(kinds))
    want = {0: "reject", 1: "reject", 2: "reject", 3: "accept:port=none", 4: "accept:port=first", 5: "reject", 6: "reject"}
    bad = {n: o for n, o in outcome.items() if not (o.startswith("reject:FileNameFormatError") if want[n] == "reject" else want[n] in o and "reject:" not in o.split("accept")[0])}
    ctx.check(not bad, init.short, "component count -> %s" % outcome, "3 components: name.major.minor; 4: port.name.major.minor; anything else is rejected as a malformed file name", init.where(), bad)
    # unpack order
    unpack = {}
    for st in ast.walk(init.node):
        if isinstance(st, ast.Assign) and isinstance(st.targets[0], ast.Tuple) and norm(st.value) == "basename_components":
            unpack[len(st.targets[0].elts)] = [norm(t) for t in st.targets[0].elts]
    ctx.check(unpack.get(4) == ["str_fixed_port_id", "short_name", "str_major_version", "str_minor_version"] and unpack.get(3) == ["short_name", "str_major_version", "str_minor_version"], init.short, "component order: %s" % unpack, "[port.]name.major.minor", init.where())
    src = norm(init.node)
    good = "relative_path = self._root_namespace_path.name / self._file_path.relative_to(self._root_namespace_path)" in src and "namespace_components = list(relative_path.parent.parts)" in src
    ctx.check(good, init.short, "namespace = root name / path relative to the root", "the namespace is the chain of directories from the root namespace directory (inclusive) down to the file", init.where())
    good = "CompositeType.NAME_COMPONENT_SEPARATOR.join(namespace_components + [str(short_name)])" in src
    ctx.check(good, init.short, "full name = '.'.join(namespace components + [short name])", "the full name is the namespace plus the short name", init.where())
    # separators inside directory names are rejected
    dot_guard = any(p.kind == "raise" and any(not isinstance(c, tuple) and "NAME_COMPONENT_SEPARATOR in" in norm(c) and pol for c, pol in p.conds) for p in paths)
    ctx.check(dot_guard, init.short, "'.' in a directory name is rejected", "a namespace component cannot contain the separator", init.where(), nontrivial=False)
    ffe = ctx.cls("_dsdl_definition.FileNameFormatError")
    ctx.check(repo.is_subclass(ffe, IDE), ffe.short, "is an InvalidDefinitionError", "malformed names are definition errors", ffe.module.relpath, nontrivial=False)


def rule_r2(ctx: Ctx) -> None:
    repo = ctx.repo
    ctx.rule("C15.R2", "numeric file-name components are converted only after a digits-only test, inside a handler that reports FileNameFormatError", min_instances=3)
    init = ctx.func("_dsdl_definition.DSDLDefinition.__init__")
    pm = parents_map(init.node)
    sources = ("str_fixed_port_id", "str_major_version", "str_minor_version")
    n = 0
    for c in calls_in(init.node):
        if not c.args or norm(c.args[0]) not in sources:
            continue
        n += 1
        name = dotted(c.func) or ""
        strict = False
        if name == "int":
            strict = False
        else:
            r = repo.resolve_expr(init.module, c.func, init.cls)
            from ..core import FuncInfo as _F

            if isinstance(r, _F):
                strict = _digits_only_converter(r)
        # translating handler
        handled = False
        cur: ast.AST = c
        while cur in pm:
            par = pm[cur]
            if isinstance(par, ast.Try) and any(cur is s or cur in ast.walk(s) for s in par.body):
                for h in par.handlers:
                    if h.type is not None and dotted(h.type) in ("ValueError", "Exception"):
                        for r2 in ast.walk(ast.Module(body=h.body, type_ignores=[])):
                            if isinstance(r2, ast.Raise):
                                k = exc_class_of(repo, init.module, init.cls, r2.exc)
                                if isinstance(k, ClassInfo) and k.name == "FileNameFormatError":
                                    handled = True
            cur = par
        ctx.check(strict and handled, init.short, norm(c), "a file-name number must be plain ASCII decimal digits: int() alone also accepts '+1', ' 0', '1_0' and non-ASCII digits", init.where(c), {"digits_only_guard": strict, "translated_to_FileNameFormatError": handled})
    if n != 3:
        raise AnalysisError("C15.R2: expected three numeric conversions of file-name components, found %d" % n)


def _digits_only_converter(fn: FuncInfo) -> bool:
    """a helper that raises ValueError unless its argument is ASCII digits, then returns int(arg)"""
    p = fn.params[0]
    guard = False
    for st in body_without_docstring(fn.node):
        if isinstance(st, ast.If) and st.body and isinstance(st.body[-1], ast.Raise):
            t = norm(st.test)
            digits = "%s.isdigit()" % p in t or "%s.isdecimal()" % p in t or "fullmatch" in t
            ascii_ = "%s.isascii()" % p in t or "fullmatch" in t or "[0-9]" in t
            negated = t.startswith("not ")
            exc = st.body[-1].exc
            ename = (dotted(exc.func) if isinstance(exc, ast.Call) else dotted(exc)) if exc is not None else ""
            if digits and ascii_ and negated and ename in ("ValueError",):
                guard = True
    rets = [norm(r.value) for r in walk_no_nested(fn.node) if isinstance(r, ast.Return)]
    return guard and rets == ["int(%s)" % p]


def rule_r3(ctx: Ctx) -> None:
    repo = ctx.repo
    ctx.rule("C15.R3", "identity propagation: finalize passes the definition's full name (+ .Request/.Response), version, file path and port-ID (None for request/response) to the composites; DelimitedType copies them from the inner type; the root path is found by walking the namespace components upward", min_instances=5)
    fin = ctx.func("_data_type_builder.DataTypeBuilder.finalize")
    D = "self._definition"
    mk = [c for c in calls_in(fin.node) if isinstance(c.func, ast.Attribute) and c.func.attr == "_make_composite"]
    svc = [c for c in calls_in(fin.node) if (dotted(c.func) or "").endswith("ServiceType")]
    if len(mk) != 3 or len(svc) != 1:
        raise AnalysisError("finalize: expected three _make_composite calls and one ServiceType call")
    unpack = [st for st in walk_no_nested(fin.node) if isinstance(st, ast.Assign) and isinstance(st.targets[0], ast.Tuple) and norm(st.value) == "self._structs"]
    names = {}
    for st in unpack:
        if len(st.targets[0].elts) == 1:
            names[norm(st.targets[0].elts[0])] = "message"
        elif len(st.targets[0].elts) == 2:
            names[norm(st.targets[0].elts[0])] = "request"
            names[norm(st.targets[0].elts[1])] = "response"
    sep_defs = [norm(st.value) for st in walk_no_nested(fin.node) if isinstance(st, ast.Assign) and norm(st.targets[0]) == "sep"]
    sep = sep_defs[0] if sep_defs else "sep"
    for c in mk:
        role = names.get(norm(kwarg(c, "builder") or ast.Constant(value=None)), "?")
        kw = {k.arg: norm(k.value) for k in c.keywords}
        want_name = {"message": ["%s.full_name" % D], "request": ["sep.join([%s.full_name, 'Request'])" % D], "response": ["sep.join([%s.full_name, 'Response'])" % D]}.get(role, [])
        good = kw.get("name") in want_name and kw.get("version") in ("%s.version" % D,) and kw.get("source_file_path") == "%s.file_path" % D
        good = good and kw.get("fixed_port_id") == ("%s.fixed_port_id" % D if role == "message" else "None") and kw.get("has_parent_service") == ("False" if role == "message" else "True")
        ctx.check(good, fin.short, "%s: name=%s version=%s port=%s path=%s" % (role, kw.get("name"), kw.get("version"), kw.get("fixed_port_id"), kw.get("source_file_path")), "the %s type carries the identity encoded in the file path" % role, fin.where(c))
    ctx.check("NAME_COMPONENT_SEPARATOR" in sep, fin.short, "sep = %s" % sep, "request/response names are suffixed with the name separator", fin.where(), nontrivial=False)
    kw = {k.arg: norm(k.value) for k in svc[0].keywords}
    ctx.check(kw.get("fixed_port_id") == "%s.fixed_port_id" % D, fin.short, "ServiceType(fixed_port_id=%s)" % kw.get("fixed_port_id"), "the service object carries the port-ID of the file", fin.where(svc[0]))
    # _make_composite forwards its parameters
    mkf = ctx.func("_data_type_builder.DataTypeBuilder._make_composite")
    inner = [c for c in calls_in(mkf.node) if norm(c.func) == "ty"]
    good = len(inner) == 1 and all(norm(kwarg(inner[0], k) or ast.Constant(value=0)) == k for k in ("name", "version", "deprecated", "fixed_port_id", "source_file_path", "has_parent_service"))
    ctx.check(good, mkf.short, "ty(name=name, version=version, fixed_port_id=fixed_port_id, source_file_path=source_file_path, ...)", "identity parameters are forwarded unchanged to the composite constructor", mkf.where())
    # CompositeType stores and returns them
    comp = ctx.cls("_serializable._composite.CompositeType")
    init = comp.methods["__init__"]
    stores = {norm(st.targets[0]): norm(st.value) for st in walk_no_nested(init.node) if isinstance(st, ast.Assign) and len(st.targets) == 1 and norm(st.targets[0]).startswith("self._")}
    want = {"self._name": "str(name).strip()", "self._version": "version", "self._fixed_port_id": "None if fixed_port_id is None else int(fixed_port_id)", "self._source_file_path": "Path(source_file_path)"}
    bad = {k: stores.get(k) for k, v in want.items() if stores.get(k) != v}
    ctx.check(not bad, init.short, "stores name / version / port-ID / path as given", "the model object holds the identity it was given", init.where(), bad)
    from ..regions import trivial_property_expr

    for prop, field in (("full_name", "self._name"), ("version", "self._version"), ("fixed_port_id", "self._fixed_port_id"), ("source_file_path", "self._source_file_path"), ("source_file_path_to_root", "self._path_to_root_namespace")):
        e = trivial_property_expr(repo, comp, prop)
        ctx.check(e is not None and norm(e) == field, comp.short + "." + prop, norm(e) if e is not None else "?", "accessor returns the stored identity", comp.module.relpath, nontrivial=False)
    # ServiceType / DelimitedType derive identity from their parts
    dl = ctx.cls("_serializable._composite.DelimitedType")
    sup = [c for c in calls_in(dl.methods["__init__"].node) if isinstance(c.func, ast.Attribute) and c.func.attr == "__init__" and "super" in norm(c.func.value)]
    kw = {k.arg: norm(k.value) for k in sup[0].keywords} if sup else {}
    want = {"name": "inner.full_name", "version": "inner.version", "fixed_port_id": "inner.fixed_port_id", "source_file_path": "inner.source_file_path", "has_parent_service": "inner.has_parent_service", "attributes": "inner.attributes", "deprecated": "inner.deprecated", "doc": "inner.doc"}
    ctx.check(kw == want, dl.short + ".__init__", "copies identity from the inner type", "a delimited wrapper has the identity of what it wraps", dl.module.relpath, {k: kw.get(k) for k in want if kw.get(k) != want[k]})
    sv = ctx.cls("_serializable._composite.ServiceType")
    sup = [c for c in calls_in(sv.methods["__init__"].node) if isinstance(c.func, ast.Attribute) and c.func.attr == "__init__" and "super" in norm(c.func.value)]
    kw = {k.arg: norm(k.value) for k in sup[0].keywords} if sup else {}
    name_def = [norm(st.value) for st in walk_no_nested(sv.methods["__init__"].node) if isinstance(st, ast.Assign) and norm(st.targets[0]) == "name"]
    good = name_def == ["request.full_namespace"] and kw.get("name") == "name" and kw.get("version") == "request.version" and kw.get("fixed_port_id") == "fixed_port_id" and kw.get("source_file_path") == "request.source_file_path"
    ctx.check(good, sv.short + ".__init__", "name = request's namespace (the service's full name), version/path from the request, port-ID as given", "the service object's identity is that of the file", sv.module.relpath)
    # search_up_for_root
    su = init.nested.get("search_up_for_root")
    if su is None:
        raise AnalysisError("anchor search_up_for_root missing")
    src = norm(su.node)
    p0, p1 = su.params[0], su.params[1]
    good = ("if %s[-1] != %s.stem" % (p1, p0)) in src and ("if len(%s) == 1" % p1) in src and ("return search_up_for_root(%s.parent, %s[:-1])" % (p0, p1)) in src and ("return %s" % p0) in src
    call = [c for c in calls_in(init.node) if dotted(c.func) == "search_up_for_root"]
    arg_ok = len(call) == 1 and norm(call[0].args[0]) == "self._source_file_path.parent" and norm(call[0].args[1]) == "self.namespace_components if not self._has_parent_service else self.namespace_components[:-1]"
    ctx.check(good and arg_ok, su.short, "walks one directory per namespace component, checking each name", "the root directory is exactly len(namespace) levels above the file and every level's name matches", su.where())


def rule_r4(ctx: Ctx) -> None:
    ctx.rule("C15.R4", "bare-name root inference scans the path outermost-first and uses the listed names through membership only (independent of the order of the names)", min_instances=1)
    fn = ctx.func("_dsdl_definition.DSDLDefinition._infer_path_to_root_from_first_found")
    dp, roots = fn.params[1], fn.params[2]
    # the last strategy: names are roots with a single path part
    names_def = [st for st in walk_no_nested(fn.node) if isinstance(st, ast.Assign) and isinstance(st.value, ast.ListComp) and "len(" in norm(st.value) and ".parts) == 1" in norm(st.value)]
    if len(names_def) != 1:
        ctx.fail(fn.short, "bare-name strategy", "cannot find the list of bare root names", where=fn.where())
        return
    names_var = norm(names_def[0].targets[0])
    parts_def = [st for st in walk_no_nested(fn.node) if isinstance(st, ast.Assign) and norm(st.value) in ("list(%s.parent.parts)" % dp, "%s.parent.parts" % dp)]
    parts_var = norm(parts_def[0].targets[0]) if parts_def else None
    loops = [st for st in walk_no_nested(fn.node) if isinstance(st, ast.For) and st.lineno > names_def[0].lineno]
    good = False
    detail: Any = None
    for lp in loops:
        it = norm(lp.iter)
        over_path = parts_var is not None and parts_var in it and names_var not in it
        tests = [norm(s.test) for s in lp.body if isinstance(s, ast.If)]
        member = any(t.endswith(" in %s" % names_var) for t in tests)
        rets = [norm(r.value) for s in lp.body for r in ast.walk(s) if isinstance(r, ast.Return)]
        detail = {"iterates": it, "tests": tests, "returns": rets}
        if over_path and member and rets and all("parts[:i + 1]" in r.replace(parts_var, "parts") or "[: i + 1]" in r for r in rets):
            good = True
    # the names list must not be iterated to choose the root
    iter_names = [norm(lp.iter) for lp in loops if names_var in norm(lp.iter)]
    ctx.check(good and not iter_names, fn.short, "for i, part in enumerate(<path parts>): if part in <names>: return <path up to part>", "when several listed names occur in the path the outermost directory wins, whatever the order of the names", fn.where(), detail)


def run(ctx: Ctx) -> None:
    ctx.attempt(rule_r1, ctx)
    ctx.attempt(rule_r2, ctx)
    ctx.attempt(rule_r3, ctx)
    ctx.attempt(rule_r4, ctx)
    ctx.undecided("equivalence of the four root-inference strategies for all argument spellings: file-system and working-directory dependent behaviour with no static abstraction in reach (only the order-independence of the bare-name strategy is decided)")
