"""
E6 -- pure-expression folder.

Folds *extracted expression ASTs* built from literals, resolved class/module constants, rule parameters and a
closed set of pure operators.  Anything else raises Unfoldable (the instance becomes ANALYSIS-ERROR, never a pass).
No repository function is ever called: names are looked up in the explicit environment or resolved to constant
*expressions* through the symbol table and folded recursively.
"""
from __future__ import annotations

import ast
import math
import operator
from fractions import Fraction
from typing import Set, Any, Callable, Dict, Optional

from .core import ClassInfo, External, FuncInfo, Module, Repo, dotted, unparse


class Unfoldable(Exception):
    pass


_SENTINELS: Dict[int, Any] = {}


_BIN = {
    ast.Add: operator.add,
    ast.Sub: operator.sub,
    ast.Mult: operator.mul,
    ast.FloorDiv: operator.floordiv,
    ast.Mod: operator.mod,
    ast.Pow: operator.pow,
    ast.LShift: operator.lshift,
    ast.RShift: operator.rshift,
    ast.BitAnd: operator.and_,
    ast.BitOr: operator.or_,
    ast.BitXor: operator.xor,
}
_CMP = {
    ast.Eq: operator.eq,
    ast.NotEq: operator.ne,
    ast.Lt: operator.lt,
    ast.LtE: operator.le,
    ast.Gt: operator.gt,
    ast.GtE: operator.ge,
    ast.In: lambda a, b: _contains(b, a),
    ast.NotIn: lambda a, b: not _contains(b, a),
    # members of an enumeration are modelled by their qualified names (strings): identity of such values is equality
    ast.Is: lambda a, b: _same_object(a, b),
    ast.IsNot: lambda a, b: not _same_object(a, b),
}


class Abstract:
    """base of rule-defined abstract values whose (Python-implemented) attributes and methods the folded code may use"""


class Sym(Abstract):
    """a record of named abstract values standing for an object of the model (rule-built; attribute access folds to the field)"""

    def __init__(self, **kw: Any):
        self.__dict__.update(kw)

    def __repr__(self) -> str:
        return "Sym(%s)" % ", ".join("%s=%r" % kv for kv in sorted(self.__dict__.items()))


class _Lambda:
    def __init__(self, node: ast.Lambda, env: Dict[str, Any], home: Any = None, defaults: Optional[list] = None):
        self.node = node
        self.env = env
        self.home = home  # (module, class) in which the lambda is written: its free names mean what they mean there
        self.defaults = defaults or []  # default values, evaluated when the lambda was created (`lambda x=x: ...`)

    def __call__(self, *args: Any) -> Any:
        return self.call(_CURRENT[-1], list(args))

    def call(self, f: "Folder", args: list) -> Any:
        a = self.node.args
        params = [x.arg for x in a.posonlyargs + a.args]
        if len(args) < len(params) and len(params) - len(args) <= len(self.defaults):
            args = list(args) + self.defaults[len(self.defaults) - (len(params) - len(args)) :]
        if len(args) != len(params):
            raise Unfoldable("lambda arity")
        env = dict(self.env)
        env.update(zip(params, args))
        mod_, cls_ = self.home if self.home is not None else (f.mod, f.cls)
        sub = Folder(env, f.repo, mod_, cls_, f.hook)
        sub.depth = f.depth
        return sub.fold(self.node.body)


class _Expanded(ast.Call):
    """a call whose `*args` have been replaced by the evaluated values (shown to hooks)"""


_UNSET = object()
INT_STR_LIMIT_HITS: list = []  # conversions that ran into CPython's 4300-digit limit during the current evaluation


class _LazyGen(Abstract):
    """a generator expression that is kept: a one-shot iterator whose body runs when it is first pulled"""

    def __init__(self, folder: "Folder", node: ast.GeneratorExp, first: Any):
        self.folder, self.node, self.first = folder, node, first
        self._it: Any = None

    def _start(self) -> None:
        if self._it is None:
            f = self.folder
            sub = Folder(f.env, f.repo, f.mod, f.cls, f.hook)  # the enclosing scope *as it is now*
            sub.depth = _CURRENT[-1].depth if _CURRENT else 0
            self._it = iter(sub._comprehension(self.node, first=self.first))

    def __iter__(self) -> Any:
        return self

    def __next__(self) -> Any:
        self._start()
        return next(self._it)


class _StdFn(Abstract):
    """a function of the standard library as a value (handed to map / partial / reduce, or kept in a table): calling it is
    the call written out by name, which the evaluator knows how to answer"""

    def __init__(self, dotted_name: str):
        self.dotted_name = dotted_name
        self.__dict__["__name__"] = dotted_name.split(".")[-1]

    def __call__(self, *args: Any, **kwargs: Any) -> Any:
        from .absint import _Const

        f = _CURRENT[-1]
        func: Any = None
        for part in self.dotted_name.split("."):
            func = ast.Name(id=part, ctx=ast.Load()) if func is None else ast.Attribute(value=func, attr=part, ctx=ast.Load())
        call = ast.Call(func=func, args=[_Const(a) for a in args], keywords=[ast.keyword(arg=k, value=_Const(v)) for k, v in kwargs.items()])
        sub = Folder({}, f.repo, f.mod, f.cls, f.hook)  # (no local of the caller can shadow the library's name here)
        sub.depth = f.depth
        return sub.fold(ast.fix_missing_locations(call))


class _ModuleValue(Abstract):
    """a module of the package as a value: `getattr(_serializable, name)`"""

    def __init__(self, module: Any):
        self.module = module
        self.__dict__["__name__"] = module.name


class _StaticValue(Abstract):
    """`staticmethod(f)` kept in a class body: reached through the class or an instance it is f itself, never bound"""

    def __init__(self, f: Any):
        self.f = f


class _OpGetter(Abstract):
    """operator.attrgetter(name...) / itemgetter(key...) / methodcaller(name, *args, **kwargs) as a callable value"""

    def __init__(self, kind: str, args: tuple, kwargs: dict):
        self.kind, self.args, self.kwargs = kind, args, kwargs
        self.__dict__["__name__"] = kind

    def __call__(self, obj: Any) -> Any:
        f = _CURRENT[-1]

        def attr(o: Any, dotted_name: str) -> Any:
            for part in dotted_name.split("."):
                o = Folder({"__o": o}, f.repo, f.mod, f.cls, f.hook).fold(ast.Attribute(value=ast.Name(id="__o", ctx=ast.Load()), attr=part, ctx=ast.Load()))
            return o

        if self.kind == "attrgetter":
            vals = [attr(obj, n) for n in self.args]
            return vals[0] if len(vals) == 1 else tuple(vals)
        if self.kind == "itemgetter":
            def item(k: Any) -> Any:
                from .absint import _Const

                return Folder({"__o": obj}, f.repo, f.mod, f.cls, f.hook).fold(ast.Subscript(value=ast.Name(id="__o", ctx=ast.Load()), slice=_Const(k), ctx=ast.Load()))

            vals = [item(k) for k in self.args]
            return vals[0] if len(vals) == 1 else tuple(vals)
        from .absint import _Const

        call = ast.Call(func=ast.Attribute(value=ast.Name(id="__o", ctx=ast.Load()), attr=self.args[0], ctx=ast.Load()), args=[_Const(a) for a in self.args[1:]], keywords=[ast.keyword(arg=k, value=_Const(v)) for k, v in self.kwargs.items()])
        sub = Folder({"__o": obj}, f.repo, f.mod, f.cls, f.hook)
        sub.depth = f.depth
        return sub.fold(ast.fix_missing_locations(call))


class _Eager(list):
    """the elements of a one-shot producer (an itertools object), computed eagerly: a list for whoever walks it once, and a
    single shared position for whoever pulls elements out with next() - `iter(p) is p` for these in Python"""

    def cursor(self) -> Any:
        c = self.__dict__.get("_cursor")
        if c is None:
            c = self.__dict__["_cursor"] = list.__iter__(self)
        return c


class _Repeat(Abstract):
    """itertools.repeat(x): an endless supply of x (only meaningful zipped with something finite)"""

    def __init__(self, value: Any):
        self.value = value


class _Partial(Abstract):
    """functools.partial(f, *args, **kwargs)"""

    def __init__(self, f: Any, args: list, kwargs: dict):
        self.f, self.args, self.kwargs = f, args, kwargs

    def call(self, folder: "Folder", args: list, kwargs: Optional[dict] = None) -> Any:
        allargs = list(self.args) + list(args)
        kw = dict(self.kwargs)
        kw.update(kwargs or {})
        return call_value(folder, self.f, allargs, kw)

    def __call__(self, *args: Any, **kwargs: Any) -> Any:
        return self.call(_CURRENT[-1], list(args), kwargs)


_CURRENT: list = []


def call_value(folder: "Folder", f: Any, args: list, kwargs: Optional[dict] = None) -> Any:
    """call a callable value met during evaluation"""
    kwargs = kwargs or {}
    if isinstance(f, (_Lambda, _LocalFn)):
        if kwargs:
            raise Unfoldable("keyword arguments to a local function")
        return f.call(folder, args)
    if isinstance(f, _Partial):
        return f.call(folder, args, kwargs)
    if type(f).__name__ == "_BoundMethod":
        return f.call(folder, args, kwargs)
    if type(f).__name__ == "AObj":
        # an instance of a repository class that defines __call__
        m = f._ctx_.repo.lookup_method(f._cls_, "__call__")
        if m is not None:
            from .absint import _BoundMethod

            return _BoundMethod(f, m).call(folder, args, kwargs)
        raise Unfoldable("not callable: %r" % (f,))
    if isinstance(f, (ClassInfo, _TypeOf)):
        from .absint import _RepoShim, construct

        from .absint import _Const

        k_ = f if isinstance(f, ClassInfo) else f.cls
        if folder.hook is not None:
            # a rule that models constructions of this class (by the name the call is written with) sees this one too
            expr = ast.Call(func=ast.Name(id=k_.name, ctx=ast.Load()), args=[_Const(v_) for v_ in args], keywords=[ast.keyword(arg=kk, value=_Const(vv)) for kk, vv in kwargs.items()])
            env_ = dict(folder.env)
            env_[k_.name] = k_  # the class is in scope under its own name for whoever looks the callee up
            sub_ = Folder(env_, folder.repo, folder.mod, folder.cls, folder.hook)
            sub_.depth = folder.depth
            r_ = folder.hook(expr, sub_)
            if r_ is not NotImplemented:
                return r_
        return construct(_RepoShim(folder.repo), k_, *args, hook=folder.hook, **kwargs)
    if f is None:
        from .absint import Raised

        raise Raised("TypeError", ast.Constant(value=None))
    if isinstance(f, _StaticValue):
        return call_value(folder, f.f, args, kwargs)
    if (f is str or f is repr) and len(args) == 1 and not kwargs and type(args[0]).__name__ == "AObj":
        # `map(str, xs)`, `key=repr`: the text of an instance is what its class's own method says
        t_ = _abs_text(folder, args[0], "__str__" if f is str else "__repr__")
        if isinstance(t_, str):
            return t_
        raise Unfoldable("text of %r" % (args[0],))
    if callable(f):
        return f(*args, **kwargs)
    raise Unfoldable("not callable: %r" % (f,))


class _LocalFn:
    """a function defined inside the evaluated function: called by evaluating its body (closure over the defining environment)"""

    def __init__(self, node: ast.FunctionDef, env: Dict[str, Any], home: Any = None):
        self.node = node
        self.env = env  # shared with the enclosing evaluation (late binding, as in Python)
        self.home = home  # (module, class) in which the function is written

    def __call__(self, *args: Any) -> Any:
        return self.call(_CURRENT[-1], list(args))

    def call(self, f: "Folder", args: list) -> Any:
        from .absint import Evaluator, body_without_docstring_

        a = self.node.args
        params = [x.arg for x in a.posonlyargs + a.args]
        defaults = dict(zip(reversed(params), reversed(a.defaults)))
        if len(args) > len(params):
            raise Unfoldable("arity of %s" % self.node.name)
        env = dict(self.env)
        env.update(zip(params, args))
        for p_ in params[len(args):]:
            if p_ not in defaults:
                raise Unfoldable("arity of %s" % self.node.name)
            env[p_] = Folder(dict(self.env), f.repo, f.mod, f.cls, f.hook).fold(defaults[p_])
        mod_, cls_ = self.home if self.home is not None else (f.mod, f.cls)
        ev = Evaluator(env, f.repo, mod_, cls_, f.hook)
        ev.depth = f.depth + 1
        ev.outer_env = self.env  # type: ignore
        r = ev.run(body_without_docstring_(self.node))
        if any(isinstance(n, (ast.Yield, ast.YieldFrom)) for n in ast.walk(self.node)):
            return list(ev.yielded)  # a local generator, evaluated eagerly
        return r


def _contains(container: Any, item: Any) -> bool:
    try:
        return item in container
    except TypeError:
        return any(x is item for x in container)


_BUILTIN_TYPES = {"int": int, "str": str, "float": float, "bool": bool, "bytes": bytes, "bytearray": bytearray, "list": list, "tuple": tuple, "dict": dict, "set": set, "frozenset": frozenset, "object": object, "memoryview": memoryview}
_PURE_BUILTIN_VALUES = {"builtins.sum", "builtins.len", "builtins.abs", "builtins.min", "builtins.max", "builtins.sorted", "builtins.tuple", "builtins.frozenset"}


class _PureBuiltin(Abstract):
    """a pure builtin function over plain (non-abstract) values, used as a value"""

    def __init__(self, name: str):
        self.name = name
        self.__dict__["__name__"] = name

    def __call__(self, *args: Any) -> Any:
        for a in args:
            if isinstance(a, Abstract):
                raise Unfoldable("%s of an abstract value" % self.name)
        return getattr(__import__("builtins"), self.name)(*args)


class _ARegex(Abstract):
    """a compiled regular expression (a pure value): match / fullmatch / search on concrete strings"""

    def __init__(self, rx: Any):
        self.rx = rx
        self.pattern = rx.pattern

    def _on(self, how: str, text: Any) -> Any:
        if not isinstance(text, str) or isinstance(text, Abstract):
            raise Unfoldable("regular expression applied to an abstract value")
        return getattr(self.rx, how)(text)

    def match(self, text: Any) -> Any:
        return self._on("match", text)

    def fullmatch(self, text: Any) -> Any:
        return self._on("fullmatch", text)

    def search(self, text: Any) -> Any:
        return self._on("search", text)

    def __repr__(self) -> str:
        return "re.compile(%r)" % self.pattern

    def __str__(self) -> str:
        return repr(self.rx)


def _same_object(a: Any, b: Any) -> bool:
    if a is b or (isinstance(a, str) and isinstance(b, str) and a == b):
        return True
    if isinstance(a, _TypeOf) or isinstance(b, _TypeOf):
        return (a.cls if isinstance(a, _TypeOf) else a) is (b.cls if isinstance(b, _TypeOf) else b)
    return False


class _TypeOf(Abstract):
    """`type(x)` of an abstract instance: usable in isinstance(y, type(x)), `is`, `.__name__`, and as a constructor"""

    def __init__(self, cls: Any):
        self.cls = cls
        self.name = cls.name
        self.__dict__["__name__"] = cls.name

    def __eq__(self, other: Any) -> bool:
        # (`type(x)` and the class named in the source are one and the same object in the evaluated program)
        return (isinstance(other, _TypeOf) and other.cls is self.cls) or other is self.cls

    def __hash__(self) -> int:
        return hash(self.cls)

    def __repr__(self) -> str:
        return "<class %s>" % self.cls.name


MAX_DEPTH = [200]  # nesting of evaluated expressions / calls after which an evaluation gives up (raised by deep worlds)


class _TypeFn(Abstract):
    """the builtin `type` as a value (`map(type, xs)`, `key=type`): the class of an instance"""

    def __init__(self) -> None:
        self.__dict__["__name__"] = "type"

    def __call__(self, v: Any) -> Any:
        if type(v).__name__ == "AObj" and "_kind_" not in v.__dict__:
            return _TypeOf(v._cls_)
        if isinstance(v, Abstract):
            return Sym(__name__=getattr(v, "_kind_", type(v).__name__))
        return type(v)


def _abs_text(f: "Folder", v: Any, how: str = "__str__") -> Any:
    """str(v) / repr(v) as the evaluated program computes it for an instance of a repository class"""
    if type(v).__name__ == "AObj" and v._record() is None:
        for nm in ((how, "__repr__") if how == "__str__" else (how,)):
            m_ = v._ctx_.repo.lookup_method(v._cls_, nm)
            if m_ is not None and not m_.is_abstract:
                from .absint import _BoundMethod

                try:
                    return _BoundMethod(v, m_).call(f, [], {})
                except Unfoldable:
                    return None  # the text of an object is then its field listing, as before: distinct objects stay distinct
    return None


class _Texted:
    """wraps an abstract instance for `%`-formatting: %s / %r give the evaluated __str__ / __repr__"""

    def __init__(self, f: "Folder", v: Any):
        self.f, self.v = f, v

    def __str__(self) -> str:
        t = _abs_text(self.f, self.v, "__str__")
        return t if isinstance(t, str) else str(self.v)

    def __repr__(self) -> str:
        t = _abs_text(self.f, self.v, "__repr__")
        return t if isinstance(t, str) else repr(self.v)


def _abs_hash(f: "Folder", v: Any) -> int:
    """hash(v) as the evaluated program computes it: instances of repository classes through their own __hash__"""
    if type(v).__name__ == "AObj" and v._record() is None:
        m_ = None
        for k_ in v._ctx_.repo.mro(v._cls_):
            if not isinstance(k_, ClassInfo):
                continue
            if "__hash__" in k_.methods:
                m_ = k_.methods["__hash__"]
                break
            if "__hash__" in k_.assigns:
                hv = Folder({}, v._ctx_.repo, k_.module, k_, f.hook).fold(k_.assigns["__hash__"])
                if hv is None:
                    from .absint import Raised

                    raise Raised("TypeError", k_.assigns["__hash__"])
                r = call_value(f, hv, [v])
                if not isinstance(r, int):
                    raise Unfoldable("__hash__ of %s does not evaluate to an integer" % v._cls_.name)
                return r
            if "__eq__" in k_.methods:
                from .absint import Raised

                raise Raised("TypeError", k_.methods["__eq__"].node)  # __eq__ without __hash__: the class is unhashable
        if m_ is not None:
            from .absint import _BoundMethod

            r = _BoundMethod(v, m_).call(f, [], {})
            if not isinstance(r, int):
                raise Unfoldable("__hash__ of %s does not evaluate to an integer" % v._cls_.name)
            return r
        return id(v)
    if isinstance(v, tuple):
        return hash(tuple(_abs_hash(f, x) for x in v))
    if isinstance(v, frozenset):
        return hash(frozenset(_abs_hash(f, x) for x in v))
    if isinstance(v, Abstract) and not isinstance(v, (_TypeOf,)) and type(v).__hash__ is None:  # type: ignore
        raise Unfoldable("hash of an abstract value")
    return hash(v)


_DUNDER = {ast.Add: "add", ast.Sub: "sub", ast.Mult: "mul", ast.Mod: "mod", ast.BitOr: "or", ast.BitAnd: "and", ast.BitXor: "xor", ast.FloorDiv: "floordiv", ast.Div: "truediv", ast.Pow: "pow", ast.LShift: "lshift", ast.RShift: "rshift"}


class Folder:
    def __init__(
        self,
        env: Optional[Dict[str, Any]] = None,
        repo: Optional[Repo] = None,
        mod: Optional[Module] = None,
        cls: Optional[ClassInfo] = None,
        hook: Optional[Callable[[ast.expr, "Folder"], Any]] = None,
    ):
        if env is not None and hasattr(env, "outer"):
            merged = dict(env.outer)  # type: ignore
            merged.update(dict.items(env))  # type: ignore
            self.env = merged
        else:
            self.env = dict(env or {})
        self.repo = repo
        self.mod = mod
        self.cls = cls
        self.hook = hook  # rule-specific extension: return a value or raise Unfoldable / return NotImplemented
        self.depth = 0

    def __call__(self, e: ast.expr) -> Any:
        return self.fold(e)

    def fold(self, e: ast.expr) -> Any:
        once = self.__dict__.get("_once")
        if once and id(e) in once:
            # the receiver of the method call being evaluated: evaluated once, however many of the call's cases look at it
            # (a receiver with an effect - `r.read_bits(8).to_bytes(...)` - must not be run again)
            hit = once[id(e)]
            if hit is not _UNSET:
                return hit
            v_once = self._fold_guarded(e)
            if id(e) in once:
                once[id(e)] = v_once
            return v_once
        return self._fold_guarded(e)

    def _fold_guarded(self, e: ast.expr) -> Any:
        self.depth += 1
        if self.depth > MAX_DEPTH[0]:
            raise Unfoldable("recursion")
        _CURRENT.append(self)
        try:
            return self._fold(e)
        except (TypeError, AttributeError, ValueError, RecursionError) as ex:
            if isinstance(ex, ValueError) and "integer string conversion" in str(ex):
                # CPython refuses to render (or read) an integer of more than 4300 decimal digits: the evaluated program meets
                # exactly this ValueError at this conversion
                from .absint import Raised

                INT_STR_LIMIT_HITS.append(unparse(e)[:80])
                raise Raised("ValueError", e)
            # an operation of the host language on abstract values that this evaluation does not model
            raise Unfoldable("%s: %s(%s)" % (unparse(e)[:60], type(ex).__name__, ex))
        except OverflowError:
            # arithmetic of the host language on plain numbers (float('1e999') into a Fraction, a float power out of range):
            # the evaluated program meets exactly this OverflowError at this expression
            from .absint import Raised

            raise Raised("OverflowError", e)
        finally:
            self.depth -= 1
            _CURRENT.pop()

    def _fold(self, e: ast.expr) -> Any:
        if isinstance(e, ast.Call):
            for a_ in e.args:
                if isinstance(a_, ast.GeneratorExp):
                    # written directly as an argument: consumed by the callee at once (marked on the node itself, before any
                    # hook looks at the call: ids are reused once a tree is freed)
                    a_._sa_direct_arg = True  # type: ignore
        if self.hook is not None:
            if isinstance(e, ast.Call) and any(isinstance(a, ast.Starred) for a in e.args) and not isinstance(e, _Expanded):
                # the rules' hooks model calls by their positional arguments: they are shown `f(*xs, y)` with the unpacked
                # values in place (the same call, evaluated arguments as constants)
                from .absint import _Const

                flat = _Expanded(func=e.func, args=[_Const(v_) for v_ in fold_starred(self, e.args)], keywords=e.keywords)
                ast.copy_location(flat, e)
                e = flat  # (the arguments are evaluated once: whoever handles the call sees the values)
            # (a hook chain that only ever answers calls says so: the other nodes do not go through it)
            r = self.hook(e, self) if (isinstance(e, ast.Call) or not getattr(self.hook, "calls_only", False)) else NotImplemented
            if r is not NotImplemented:
                return r
        if isinstance(e, ast.Constant):
            if isinstance(e.value, (int, str, bool, float, bytes)) or e.value is None:
                return e.value
            raise Unfoldable(unparse(e))
        d = dotted(e)
        if d is not None and d in self.env:
            return self.env[d]
        if isinstance(e, ast.Name):
            if e.id == "NotImplemented":
                return NotImplemented
            return self._resolve(e)
        if isinstance(e, ast.Attribute):
            if d is not None and d.split(".")[0] in self.env:
                base = self.fold(e.value)
                if isinstance(base, Abstract) and (not e.attr.startswith("__") or e.attr == "__name__") and (type(base).__name__ != "AObj" or e.attr in base.__dict__ or e.attr.startswith("_record") or e.attr in ("_replace", "_asdict")) and hasattr(base, e.attr):
                    return getattr(base, e.attr)
                if type(base).__name__ == "AObj":
                    from .absint import aobj_member

                    return aobj_member(self, base, e.attr)
                if isinstance(base, tuple) and hasattr(base, "_fields") and e.attr in base._fields:
                    return getattr(base, e.attr)
                if isinstance(base, (int, Fraction)) and not isinstance(base, bool) and e.attr in ("numerator", "denominator"):
                    return getattr(base, e.attr)
                if isinstance(base, ARange) and e.attr in ("start", "stop", "step"):
                    return getattr(base, e.attr)
                if type(base).__name__ == "Struct" and type(base).__module__ in ("_struct", "struct") and e.attr in ("size", "format"):
                    return getattr(base, e.attr)
                if isinstance(base, ClassInfo) and self.repo is not None and e.attr == "_fields" and any((dotted(b_) or "").split(".")[-1] == "NamedTuple" for k_ in self.repo.mro(base) if isinstance(k_, ClassInfo) for b_ in k_.node.bases):
                    # the field names of a class-syntax NamedTuple, in declaration order
                    return tuple(st_.target.id for k_ in reversed([k_ for k_ in self.repo.mro(base) if isinstance(k_, ClassInfo)]) for st_ in k_.node.body if isinstance(st_, ast.AnnAssign) and isinstance(st_.target, ast.Name))
                if isinstance(base, ClassInfo) and self.repo is not None:
                    # a member reached through a class held in a variable (`cls.helper`, `K.CONSTANT`)
                    m_ = self.repo.lookup_method(base, e.attr)
                    if m_ is not None:
                        from .absint import FnRef

                        return FnRef(self.repo, m_, self.hook)
                    v_ = self.repo.lookup_class_attr(base, e.attr)
                    if v_ is not None:
                        return Folder({}, self.repo, base.module, base, self.hook).fold(v_)
                if d.startswith("self.") and d.count(".") == 1 and self.cls is not None and self.repo is not None:
                    v = self.repo.lookup_class_attr(self.cls, e.attr)
                    if v is not None:
                        return Folder({}, self.repo, self.cls.module, self.cls, self.hook).fold(v)
                raise Unfoldable(unparse(e))
            if d is not None:
                # self.CONST -> class constant through the MRO
                if d.startswith("self.") and self.cls is not None and self.repo is not None and d.count(".") == 1:
                    v = self.repo.lookup_class_attr(self.cls, e.attr)
                    if v is not None:
                        return Folder(self.env, self.repo, self.cls.module, self.cls, self.hook).fold(v)
                return self._resolve(e)
            base = self.fold(e.value)
            if isinstance(base, tuple) and hasattr(base, "_fields") and e.attr in base._fields:
                return getattr(base, e.attr)
            if isinstance(base, dict) and e.attr in base:
                return base[e.attr]
            if isinstance(base, (int, Fraction)) and not isinstance(base, bool) and e.attr in ("numerator", "denominator"):
                return getattr(base, e.attr)
            if isinstance(base, ARange) and e.attr in ("start", "stop", "step"):
                return getattr(base, e.attr)
            if type(base).__name__ == "Struct" and type(base).__module__ in ("_struct", "struct") and e.attr in ("size", "format"):
                return getattr(base, e.attr)
            if isinstance(base, Abstract) and (not e.attr.startswith("__") or e.attr == "__name__") and (type(base).__name__ != "AObj" or e.attr in base.__dict__ or e.attr in ("_replace", "_asdict")) and hasattr(base, e.attr):
                return getattr(base, e.attr)
            if type(base).__name__ == "AObj":
                from .absint import aobj_member

                return aobj_member(self, base, e.attr)
            if isinstance(base, (ClassInfo, _TypeOf)) and self.repo is not None:
                # a member of a class that is itself computed: `(A, B)[flag].helper`, `type(x).CONSTANT`, `table[key].make`
                return Folder({"__k": base.cls if isinstance(base, _TypeOf) else base}, self.repo, self.mod, self.cls, self.hook).fold(ast.copy_location(ast.Attribute(value=ast.Name(id="__k", ctx=ast.Load()), attr=e.attr, ctx=ast.Load()), e))
            raise Unfoldable(unparse(e))
        if isinstance(e, ast.BinOp):
            l, r = self.fold(e.left), self.fold(e.right)
            if type(l).__name__ == "AObj" or type(r).__name__ == "AObj":
                # an instance of a repository class: its own operator method decides (left first, then the reflected one)
                dn = _DUNDER.get(type(e.op))
                if dn is not None:
                    from .absint import _BoundMethod

                    for obj_, other_, nm_ in ((l, r, "__%s__" % dn), (r, l, "__r%s__" % dn)):
                        if type(obj_).__name__ == "AObj" and obj_._record() is None:
                            m_ = obj_._ctx_.repo.lookup_method(obj_._cls_, nm_)
                            if m_ is not None:
                                res_ = _BoundMethod(obj_, m_).call(self, [other_], {})
                                if res_ is not NotImplemented:
                                    return res_
                    raise Unfoldable("no operator method for %s" % unparse(e)[:60])
            if isinstance(e.op, ast.Div):
                if isinstance(l, Abstract) or isinstance(r, Abstract):
                    return l / r  # e.g. path / name
                # Python's true division: int / int is a *float* (exact only up to 2**53), Fraction / anything is exact
                try:
                    return l / r
                except ZeroDivisionError:
                    from .absint import Raised

                    raise Raised("ZeroDivisionError", e)
                except OverflowError:
                    from .absint import Raised

                    raise Raised("OverflowError", e)
            if isinstance(e.op, ast.Mod) and isinstance(l, str) and not isinstance(l, Abstract):
                wrap = lambda x: _Texted(self, x) if type(x).__name__ == "AObj" and x._record() is None else x  # noqa: E731
                r = tuple(wrap(x) for x in r) if isinstance(r, tuple) else wrap(r)
            op = _BIN.get(type(e.op))
            if op is None:
                raise Unfoldable(unparse(e))
            if isinstance(e.op, ast.Pow) and isinstance(r, int) and abs(r) > 5000:
                raise Unfoldable("exponent too large")
            if isinstance(e.op, ast.LShift) and isinstance(r, int) and r > 5000:
                raise Unfoldable("shift too large")
            return op(l, r)
        if isinstance(e, ast.UnaryOp):
            v = self.fold(e.operand)
            if isinstance(e.op, ast.USub):
                return -v
            if isinstance(e.op, ast.UAdd):
                return +v
            if isinstance(e.op, ast.Not):
                return not v
            if isinstance(e.op, ast.Invert):
                return ~v
        if isinstance(e, ast.BoolOp):
            if isinstance(e.op, ast.And):
                v: Any = True
                for x in e.values:
                    v = self.fold(x)
                    if not v:
                        return v
                return v
            v = False
            for x in e.values:
                v = self.fold(x)
                if v:
                    return v
            return v
        if isinstance(e, ast.Compare):
            left = self.fold(e.left)
            for op, c in zip(e.ops, e.comparators):
                right = self.fold(c)
                if isinstance(op, (ast.Eq, ast.NotEq)) and (type(left).__name__ == "AObj" or type(right).__name__ == "AObj"):
                    # the class's own __eq__ decides (as Python would: left operand first, then the reflected one)
                    from .absint import aobj_eq

                    r_ = aobj_eq(self, left, right)
                    if r_ is NotImplemented:
                        r_ = left is right
                    res_ = bool(r_) if isinstance(op, ast.Eq) else not bool(r_)
                    if not res_:
                        return False
                    left = right
                    continue
                f = _CMP.get(type(op))
                if f is None:
                    raise Unfoldable(unparse(e))
                if not f(left, right):
                    return False
                left = right
            return True
        if isinstance(e, ast.IfExp):
            return self.fold(e.body) if self.fold(e.test) else self.fold(e.orelse)
        if isinstance(e, (ast.Tuple, ast.List)):
            vals = []
            for x in e.elts:
                if isinstance(x, ast.Starred):
                    vals.extend(list(self.fold(x.value)))
                else:
                    vals.append(self.fold(x))
            return tuple(vals) if isinstance(e, ast.Tuple) else vals
        if isinstance(e, ast.Set):
            return frozenset(self.fold(x) for x in e.elts)
        if isinstance(e, ast.Dict):
            return {self.fold(k): self.fold(v) for k, v in zip(e.keys, e.values) if k is not None}
        if isinstance(e, ast.Subscript):
            base = self.fold(e.value)
            if isinstance(e.slice, ast.Slice):
                lo = self.fold(e.slice.lower) if e.slice.lower else None
                hi = self.fold(e.slice.upper) if e.slice.upper else None
                return base[lo:hi]
            idx = self.fold(e.slice)
            if isinstance(idx, Abstract) and hasattr(idx, "choose_index") and isinstance(base, (list, tuple)):
                return base[idx.choose_index(len(base))]
            if COVERAGE is not None and self.mod is not None and hasattr(e, "lineno"):
                ck = (self.mod.relpath, e.lineno, e.col_offset)
                COVERAGE[ck] = COVERAGE.get(ck, 0) + 1
            try:
                return base[idx]
            except (KeyError, IndexError, TypeError) as ex:
                if COVERAGE is not None and self.mod is not None and hasattr(e, "lineno"):
                    COVERAGE[("raised",) + (self.mod.relpath, e.lineno, e.col_offset)] = type(ex).__name__
                raise FoldKeyError(type(ex).__name__, idx)
        if isinstance(e, ast.Call):
            return self._call(e)
        if isinstance(e, ast.JoinedStr):
            parts = []
            for v in e.values:
                if isinstance(v, ast.Constant):
                    parts.append(str(v.value))
                elif isinstance(v, ast.FormattedValue):
                    try:
                        x = self.fold(v.value)
                        if type(x).__name__ == "AObj" and x._record() is None:
                            x = _Texted(self, x)
                        elif isinstance(x, Abstract) and not isinstance(x, (str,)):
                            return "<fstring>"
                        parts.append(repr(x) if v.conversion == 114 else str(x))
                    except Unfoldable:
                        return "<fstring>"  # only used in messages
                else:
                    return "<fstring>"
            return "".join(parts)
        if isinstance(e, ast.GeneratorExp) and not getattr(e, "_sa_direct_arg", False):
            # a generator expression that is kept (assigned, collected, returned) rather than handed straight to a call: its
            # outermost iterable is evaluated now, everything else when it is first consumed - with the bindings of *then*
            g0 = e.generators[0]
            return _LazyGen(self, e, self.fold(g0.iter))
        if isinstance(e, (ast.ListComp, ast.SetComp, ast.GeneratorExp, ast.DictComp)):
            return self._comprehension(e)
        if isinstance(e, ast.Lambda):
            # (free names are looked up when the lambda is *called*, in the scope it was written in: late binding)
            return _Lambda(e, self.env, (self.mod, self.cls), [self.fold(d_) for d_ in e.args.defaults])
        raise Unfoldable(unparse(e))

    def _iter_arg(self, a: ast.expr) -> Any:
        v = self.fold(a)
        return frozenset(v) if isinstance(v, (set, frozenset)) else v

    def _call_starred(self, e: ast.Call) -> Any:
        """f(*xs): supported for set().union(*sets), max/min/sum-like builtins and abstract methods"""
        vals: list = []
        for a in e.args:
            if isinstance(a, ast.Starred):
                vals.extend(list(self.fold(a.value)))
            else:
                vals.append(self.fold(a))
        if e.keywords:
            raise Unfoldable(unparse(e))
        name = dotted(e.func)
        if name is not None and self.repo is not None and self.mod is not None and name.split(".")[0] not in self.env:
            try:
                r0 = self.repo.resolve_expr(self.mod, e.func, self.cls)
            except Exception:
                r0 = None
            if isinstance(r0, External) and r0.dotted.split(".")[0] in ("itertools",):
                name = r0.dotted
        if name in ("max", "min"):
            return (max if name == "max" else min)(*vals)
        if name in ("itertools.product", "itertools.chain"):
            import itertools

            return _Eager(getattr(itertools, name.split(".")[1])(*[list(v) for v in vals]))
        if isinstance(e.func, ast.Attribute):
            recv = self.fold(e.func.value)
            m = e.func.attr
            if isinstance(recv, Abstract) and callable(getattr(recv, m, None)) and not m.startswith("__"):
                return getattr(recv, m)(*vals)
            if isinstance(recv, (set, frozenset)) and m in ("union", "intersection"):
                return getattr(frozenset(recv), m)(*[frozenset(v) for v in vals])
        # any other callee: the same call with the unpacked values as positional arguments
        from .absint import _Const

        return self.fold(ast.Call(func=e.func, args=[_Const(v_) for v_ in vals], keywords=[]))

    def _bind_target(self, t: ast.AST, v: Any, env: Dict[str, Any]) -> None:
        if isinstance(t, ast.Name):
            env[t.id] = v
        elif isinstance(t, (ast.Tuple, ast.List)):
            vals = list(v)
            if len(vals) != len(t.elts):
                raise Unfoldable("unpacking")
            for a, b in zip(t.elts, vals):
                self._bind_target(a, b, env)
        else:
            raise Unfoldable("target " + unparse(t))

    def _comprehension(self, e: Any, first: Any = _UNSET) -> Any:
        """a comprehension runs in ONE scope of its own: the loop variables are rebound in it, and whatever is created inside
        (a lambda, a kept generator expression) sees the binding of the moment it looks - as in Python"""
        out: list = []

        scope = Folder(self.env, self.repo, self.mod, self.cls, self.hook)  # (a Folder keeps its own copy of the bindings)
        scope.depth = self.depth

        def rec(i: int) -> None:
            if len(out) > 100000:
                raise TooLarge("comprehension with more than 100000 elements")
            f = scope
            if i == len(e.generators):
                if isinstance(e, ast.DictComp):
                    out.append((f.fold(e.key), f.fold(e.value)))
                else:
                    out.append(f.fold(e.elt))
                return
            g = e.generators[i]
            it = first if (i == 0 and first is not _UNSET) else f.fold(g.iter)
            if isinstance(it, (dict,)):
                it = list(it)
            proto = isinstance(it, Abstract) and hasattr(it, "loop_begin")
            try:
                items = it.loop_items() if proto else list(it)
            except TypeError:
                raise Unfoldable("not iterable: " + unparse(g.iter))
            if proto:
                it.loop_begin()
            try:
                for v in items:
                    self._bind_target(g.target, v, scope.env)  # rebound in the one scope of the comprehension
                    if all(f.fold(c) for c in g.ifs):
                        rec(i + 1)
            finally:
                if proto:
                    it.loop_end()

        rec(0)
        if isinstance(e, ast.SetComp):
            return frozenset(out)
        if isinstance(e, ast.DictComp):
            return dict(out)
        return out

    def _resolve(self, e: ast.expr) -> Any:
        if self.repo is None or self.mod is None:
            raise Unfoldable("unbound name %s" % unparse(e))
        if isinstance(e, ast.Attribute) and e.attr == "_fields":
            k0 = self.repo.resolve_expr(self.mod, e.value, self.cls)
            if isinstance(k0, ClassInfo) and any((dotted(b_) or "").split(".")[-1] == "NamedTuple" for k_ in self.repo.mro(k0) if isinstance(k_, ClassInfo) for b_ in k_.node.bases):
                # the field names of a class-syntax NamedTuple, in declaration order
                return tuple(st_.target.id for k_ in reversed([k_ for k_ in self.repo.mro(k0) if isinstance(k_, ClassInfo)]) for st_ in k_.node.body if isinstance(st_, ast.AnnAssign) and isinstance(st_.target, ast.Name))
        r = self.repo.resolve_expr(self.mod, e, self.cls)
        if isinstance(r, ast.expr):
            # a module/class level constant expression; fold it in its own module
            if id(r) in PROCESS_STATE:
                return PROCESS_STATE[id(r)][1]
            owner = self._owner_module(e)
            owner_cls = None
            if isinstance(e, ast.Attribute):
                # `K.TABLE`: the names in the table's expression are those of the body of the class that assigns it
                b_ = self.repo.resolve_expr(self.mod, e.value, self.cls)
                if isinstance(b_, ClassInfo):
                    owner_cls = next((k_ for k_ in self.repo.mro(b_) if isinstance(k_, ClassInfo) and e.attr in k_.assigns), None)
                    if owner_cls is not None and e.attr in owner_cls.__dict__.get("module_level_assigns", ()):
                        owner, owner_cls = owner_cls.module, None  # written after the class body, in the module's scope
            elif isinstance(e, ast.Name) and self.cls is not None and e.id in self.cls.assigns and self.repo.module_member(self.mod.name, e.id) is None:
                owner_cls = self.cls
            v_mod = Folder(self.env, self.repo, owner, owner_cls, self.hook).fold(r)
            if isinstance(v_mod, frozenset) and (isinstance(r, (ast.Set, ast.SetComp)) or (isinstance(r, ast.Call) and dotted(r.func) == "set")):
                v_mod = set(v_mod)  # `NAME = set()` at module / class level: a mutable set, one object for the life of the process
            if not isinstance(v_mod, (int, float, str, bytes, bool, Fraction, type(None), Abstract)) or type(v_mod).__name__ in ("AObj",):
                # a module-level object with an identity (a container, a sentinel `object()`, a compiled pattern, an instance) is
                # ONE object for the life of the process: whoever changes it changes it for everyone after, and `x is SENTINEL`
                # means what it says (the rules start every rule with a fresh process, see Ctx.attempt)
                PROCESS_STATE[id(r)] = (r, v_mod)
                if owner_cls is None and isinstance(e, (ast.Name, ast.Attribute)):
                    from .absint import import_time_effects

                    import_time_effects(self, owner, e.id if isinstance(e, ast.Name) else e.attr)
            return v_mod
        if isinstance(r, ClassInfo):
            return r  # a class of the model, as a value (e.g. chosen by a conditional expression)
        if isinstance(r, Module):
            return _ModuleValue(r)  # a module of the package as a value (getattr(module, name))
        if isinstance(r, FuncInfo) and (r.cls is None or r.is_static or r.is_classmethod or isinstance(e, ast.Name) or (isinstance(e, ast.Attribute) and not (isinstance(e.value, ast.Name) and e.value.id in ("self",)))):
            # a function of the repository as a first-class value (passed to reduce / map / sorted(key=) / stored in a table)
            from .absint import FnRef

            return FnRef(self.repo, r, self.hook)
        if isinstance(r, External):
            if r.dotted in ("builtins.True", "builtins.False", "builtins.None"):
                return {"True": True, "False": False, "None": None}[r.dotted.split(".")[1]]
            if r.dotted == "fractions.Fraction":
                return Fraction  # the exact-rational constructor, as a value (e.g. aliased to a local name)
            if r.dotted == "string.ascii_letters":
                import string

                return string.ascii_letters
            if r.dotted == "string.digits":
                return "0123456789"
            if r.dotted.startswith("operator.") and r.dotted.count(".") == 1:
                import operator as _op

                f_ = getattr(_op, r.dotted.split(".")[1], None)
                if callable(f_):
                    return f_  # a function of the operator module as a value (functools.reduce(operator.ior, ...))
            if r.dotted.split(".")[0] in ("itertools", "functools", "math") and r.dotted.count(".") >= 1 and r.dotted not in ("math.pi", "math.e", "math.inf", "math.nan"):
                return _StdFn(r.dotted)
            if r.dotted == "builtins.type":
                return _TypeFn()
            if r.dotted.startswith("builtins.") and r.dotted.split(".")[1] in _BUILTIN_TYPES:
                return _BUILTIN_TYPES[r.dotted.split(".")[1]]  # a builtin class as a value (a row of a dispatch table, isinstance(x, table[i]))
            if r.dotted.startswith("builtins.") and r.dotted.count(".") == 1:
                import builtins as _bi

                bx = getattr(_bi, r.dotted.split(".")[1], None)
                if isinstance(bx, type) and issubclass(bx, BaseException):
                    return bx  # a builtin exception class as a value (a tuple of classes handed to `except` / isinstance)
            if r.dotted in _PURE_BUILTIN_VALUES:
                return _PureBuiltin(r.dotted.split(".")[1])  # a pure builtin as a first-class value (map(sum, ...), key=len)
        raise Unfoldable("cannot resolve %s" % unparse(e))

    def _owner_module(self, e: ast.expr) -> Module:
        # the module in which the resolved assignment lives (needed to fold names it refers to)
        assert self.repo is not None and self.mod is not None
        if isinstance(e, ast.Attribute):
            b = self.repo.resolve_expr(self.mod, e.value, self.cls)
            if isinstance(b, Module):
                # follow re-exports
                m = b
                for _ in range(8):
                    if e.attr in m.assigns:
                        return m
                    imp = m.imports.get(e.attr)
                    if imp and imp[0] == "member" and imp[1] in self.repo.modules:
                        m = self.repo.modules[imp[1]]
                    else:
                        break
                return m
            if isinstance(b, ClassInfo):
                for k in self.repo.mro(b):
                    if isinstance(k, ClassInfo) and e.attr in k.assigns:
                        return k.module
        if isinstance(e, ast.Name):
            m = self.mod
            for _ in range(8):
                if e.id in m.assigns:
                    return m
                imp = m.imports.get(e.id)
                if imp and imp[0] == "member" and imp[1] in self.repo.modules:
                    m = self.repo.modules[imp[1]]
                else:
                    break
            return m
        return self.mod

    def _call(self, e: ast.Call) -> Any:
        if isinstance(e.func, ast.Attribute) and not isinstance(e.func.value, (ast.Name, ast.Constant)):
            once = self.__dict__.setdefault("_once", {})
            key = id(e.func.value)
            if key not in once:
                once[key] = _UNSET
                try:
                    return self._call_cases(e)
                finally:
                    once.pop(key, None)
        return self._call_cases(e)

    def _call_cases(self, e: ast.Call) -> Any:
        name = dotted(e.func)
        if name is not None and name.split(".")[0] in ("_logger", "logger", "_log") and name.split(".")[0] not in self.env and name.split(".")[-1] == "isEnabledFor":
            return False  # logging is off in every evaluation: what such a test guards is log output
        if name is not None and self.repo is not None and self.mod is not None and name.split(".")[0] not in self.env and isinstance(e.func, (ast.Name, ast.Attribute)):
            try:
                r0 = self.repo.resolve_expr(self.mod, e.func, self.cls)
            except Exception:
                r0 = None
            if isinstance(r0, External) and r0.dotted.split(".")[0] in ("itertools", "functools", "math", "collections", "fractions", "typing", "struct", "operator", "unicodedata", "re"):
                name = r0.dotted  # `from itertools import product` -> itertools.product
        args = e.args
        if name is not None and name.endswith(".__init__") and name.split(".")[0] not in self.env and isinstance(getattr(__import__("builtins"), name.split(".")[0], None), type) and name.count(".") == 1:
            for a in args:
                self.fold(a)
            return None  # the constructor of a builtin base class (Exception.__init__(self, text)): no state the model observes
        if any(isinstance(a, ast.Starred) for a in args):
            return self._call_starred(e)
        if isinstance(e.func, ast.Attribute) and isinstance(e.func.value, ast.Call) and dotted(e.func.value.func) == "super" and not e.func.value.args and self.repo is not None and self.cls is not None:
            obj = self.env.get("self")
            if type(obj).__name__ == "AObj":
                from .absint import _BoundMethod

                mro = self.repo.mro(obj._cls_)
                if self.cls in mro:
                    for k in mro[mro.index(self.cls) + 1 :]:
                        if isinstance(k, ClassInfo) and e.func.attr in k.methods:
                            return _BoundMethod(obj, k.methods[e.func.attr]).call(self, [self.fold(a) for a in args], {x.arg: self.fold(x.value) for x in e.keywords if x.arg})
                raise Unfoldable("super().%s is not defined in the repository" % e.func.attr)
        if isinstance(e.func, ast.Attribute) and not e.func.attr.startswith("__"):
            # a method of a rule-defined abstract value, or a non-mutating method of a folded list / set / dict / str
            try:
                recv = self.fold(e.func.value)
            except Unfoldable:
                recv = NotImplemented
            if isinstance(recv, Abstract) and callable(getattr(recv, e.func.attr, None)):
                kw = {k.arg: self.fold(k.value) for k in e.keywords if k.arg}
                vals_ = [self.fold(a) for a in args]
                try:
                    return getattr(recv, e.func.attr)(*vals_, **kw)
                except (ValueError, KeyError, IndexError, FileNotFoundError, ZeroDivisionError) as ex:
                    from .absint import Raised

                    raise Raised(type(ex).__name__, e)  # what the operation raises in the evaluated program
            if isinstance(recv, Abstract) and e.func.attr in getattr(recv, "__dict__", {}):
                fv0 = recv.__dict__[e.func.attr]
                if isinstance(fv0, (_Lambda, _LocalFn)):
                    return fv0.call(self, [self.fold(a) for a in args])
                if type(fv0).__name__ == "_BoundMethod":
                    return fv0.call(self, [self.fold(a) for a in args], {k.arg: self.fold(k.value) for k in e.keywords if k.arg})
                if type(fv0).__name__ == "AObj" and fv0._ctx_.repo.lookup_method(fv0._cls_, "__call__") is not None:
                    # a field that holds an instance whose class defines __call__ (a handler object)
                    return call_value(self, fv0, fold_starred(self, args), {k.arg: self.fold(k.value) for k in e.keywords if k.arg})
                if isinstance(fv0, Abstract) and callable(fv0) and type(fv0).__name__ != "AObj":
                    return call_value(self, fv0, fold_starred(self, args), {k.arg: self.fold(k.value) for k in e.keywords if k.arg})
                if isinstance(fv0, (ClassInfo, _TypeOf, _Partial)) or type(fv0).__name__ == "FnRef":
                    # a field that holds a class / function of the repository (a factory stored on a record): called as a value
                    return call_value(self, fv0, fold_starred(self, args), {k.arg: self.fold(k.value) for k in e.keywords if k.arg})
            if isinstance(recv, (ClassInfo, _TypeOf)) and self.repo is not None and e.func.attr != "__init__":
                k_ = recv if isinstance(recv, ClassInfo) else recv.cls
                m_ = self.repo.lookup_method(k_, e.func.attr)
                if m_ is not None and (m_.is_static or m_.is_classmethod):
                    from .absint import FnRef

                    return FnRef(self.repo, m_, self.hook)(*[self.fold(a) for a in args], **{k.arg: self.fold(k.value) for k in e.keywords if k.arg})
                if m_ is None and self.repo.lookup_class_attr(k_, e.func.attr) is not None:
                    # `K.NAME(...)` where NAME is a class attribute holding a callable (staticmethod(f), a partial, a table entry)
                    cv_ = Folder({"__k": k_}, self.repo, self.mod, self.cls, self.hook).fold(ast.Attribute(value=ast.Name(id="__k", ctx=ast.Load()), attr=e.func.attr, ctx=ast.Load()))
                    return call_value(self, cv_, fold_starred(self, args), {k.arg: self.fold(k.value) for k in e.keywords if k.arg})
            if type(recv).__name__ == "AObj":
                from .absint import aobj_member

                bm = aobj_member(self, recv, e.func.attr)
                if type(bm).__name__ == "_BoundMethod":
                    return bm.call(self, [self.fold(a) for a in args], {k.arg: self.fold(k.value) for k in e.keywords if k.arg})
                vals_c = fold_starred(self, args)
                kw_c = {k.arg: self.fold(k.value) for k in e.keywords if k.arg}
                if isinstance(bm, (_StaticValue, _Partial)) or (type(bm).__name__ == "AObj" and bm._ctx_.repo.lookup_method(bm._cls_, "__call__") is not None) or (isinstance(bm, Abstract) and callable(bm) and type(bm).__name__ not in ("FnRef",)):
                    return call_value(self, bm, vals_c, kw_c)  # a class attribute that is not a function: called as it is
                if isinstance(bm, (_Lambda, _LocalFn)) or type(bm).__name__ == "FnRef":
                    return call_value(self, bm, [recv] + vals_c, kw_c)  # a function object in the class body binds the instance
                raise Unfoldable(unparse(e))
            if recv is not NotImplemented and (not e.keywords or (isinstance(recv, (str, bytes, bytearray)) and e.func.attr in ("encode", "decode") and all(k.arg in ("encoding", "errors") for k in e.keywords))):
                m = e.func.attr
                if isinstance(recv, (frozenset, set)) and m in ("union", "intersection", "difference", "symmetric_difference", "issubset", "issuperset", "isdisjoint", "copy"):
                    return getattr(frozenset(recv), m)(*[self._iter_arg(a) for a in args])
                if isinstance(recv, (list, tuple)) and m in ("index", "count", "copy"):
                    return getattr(list(recv), m)(*[self.fold(a) for a in args])
                if isinstance(recv, dict) and m in ("get", "keys", "values", "items"):
                    r = getattr(recv, m)(*[self.fold(a) for a in args])
                    return list(r) if m != "get" else r
                if isinstance(recv, dict) and m in ("setdefault", "pop"):
                    try:
                        return getattr(recv, m)(*[self.fold(a) for a in args])
                    except KeyError:
                        from .absint import Raised

                        raise Raised("KeyError", e)
                if isinstance(recv, (bytes, bytearray)) and not isinstance(recv, Abstract) and m in ("ljust", "rjust", "hex", "startswith", "endswith", "count", "find", "index", "join", "strip", "lstrip", "rstrip"):
                    return getattr(bytes(recv), m)(*[self.fold(a) for a in args])
                if isinstance(recv, str) and m in ("split", "rsplit", "startswith", "endswith", "count", "replace", "join", "isdigit", "isascii", "isdecimal", "strip", "lstrip", "rstrip", "isspace", "splitlines", "partition", "rpartition", "find", "rfind", "removeprefix", "removesuffix", "lower", "upper", "casefold", "title", "isalpha", "isalnum", "isidentifier", "islower", "isupper"):
                    return getattr(recv, m)(*[self.fold(a) for a in args])
                if type(recv).__name__ == "Decimal" and type(recv).__module__ == "decimal" and not m.startswith("_"):
                    import decimal as _dec

                    vals_d = [self.fold(a) for a in args]
                    if any(isinstance(v_, Abstract) for v_ in vals_d):
                        raise Unfoldable(unparse(e))
                    from .absint import Raised

                    try:
                        return getattr(recv, m)(*vals_d)
                    except _dec.DecimalException as ex_d:
                        raise Raised(type(ex_d).__name__, e)
                    except (ValueError, TypeError, OverflowError) as ex_d:
                        raise Raised(type(ex_d).__name__, e)
                if (isinstance(recv, str) and m == "encode") or (isinstance(recv, (bytes, bytearray)) and m == "decode"):
                    try:
                        return getattr(recv, m)(*[self.fold(a) for a in args], **{k.arg: self.fold(k.value) for k in e.keywords if k.arg in ("encoding", "errors")})
                    except UnicodeError as ex:
                        from .absint import Raised

                        raise Raised(type(ex).__name__, e)  # what the evaluated program would see
                    except LookupError as ex:
                        raise Unfoldable("%s: %s" % (unparse(e), ex))
        repo_callee = None
        if e.keywords and self.repo is not None and self.mod is not None and isinstance(e.func, (ast.Name, ast.Attribute)) and (name or "?").split(".")[0] not in self.env:
            try:
                repo_callee = self.repo.resolve_expr(self.mod, e.func, self.cls)
            except Exception:
                repo_callee = None
            if not isinstance(repo_callee, (FuncInfo, ClassInfo)):
                repo_callee = None
        if e.keywords and repo_callee is None and not isinstance(e.func, (ast.Call, ast.Subscript, ast.IfExp)) and name not in ("int", "dict", "enumerate", "itertools.product", "itertools.groupby", "groupby", "sorted", "max", "min", "functools.partial", "partial", "int.from_bytes", "itertools.accumulate", "accumulate") and not (isinstance(e.func, ast.Name) and isinstance(self.env.get(e.func.id), (Abstract, ClassInfo, _TypeOf))) and not (isinstance(e.func, ast.Attribute) and dotted(e.func) and dotted(e.func).split(".")[0] in self.env):
            raise Unfoldable(unparse(e))
        if isinstance(e.func, ast.Attribute) and e.func.attr == "to_bytes" and 1 <= len(args) <= 2:
            v = self.fold(e.func.value)
            if isinstance(v, int) and not isinstance(v, bool):
                try:
                    return v.to_bytes(*[self.fold(a) for a in args], **{k.arg: self.fold(k.value) for k in e.keywords if k.arg in ("byteorder", "signed", "length")})
                except (OverflowError, ValueError) as ex:
                    from .absint import Raised

                    raise Raised(type(ex).__name__, e)
            raise Unfoldable(unparse(e))
        if isinstance(e.func, ast.Attribute) and e.func.attr == "bit_length" and not args:
            v = self.fold(e.func.value)
            if isinstance(v, int):
                return v.bit_length()
            raise Unfoldable(unparse(e))
        if isinstance(e.func, ast.Attribute) and e.func.attr in ("lower", "upper", "strip") and not args:
            v = self.fold(e.func.value)
            if isinstance(v, str):
                return getattr(v, e.func.attr)()
            raise Unfoldable(unparse(e))
        if name in ("min", "max", "sorted"):
            vals = [self.fold(a) for a in args]
            if len(vals) == 1 and (isinstance(vals[0], (list, tuple, frozenset, set, ARange)) or type(vals[0]).__name__ == "AObj"):
                vals = list(vals[0])
            kw = {k.arg: self.fold(k.value) for k in e.keywords if k.arg}
            keyf = kw.pop("key", None)
            pyk = {}
            if keyf is not None:
                if isinstance(keyf, (_Lambda, _LocalFn)):
                    pyk["key"] = lambda x, _k=keyf: _k.call(self, [x])
                else:
                    pyk["key"] = lambda x, _k=keyf: call_value(self, _k, [x])
            if "reverse" in kw:
                pyk["reverse"] = bool(kw.pop("reverse"))
            if "default" in kw and name != "sorted":
                pyk["default"] = kw.pop("default")
            if kw:
                raise Unfoldable(unparse(e))
            return {"min": min, "max": max, "sorted": sorted}[name](vals, **pyk)
        if name == "abs":
            return abs(self.fold(args[0]))
        if name == "len":
            v = self.fold(args[0])
            if isinstance(v, Abstract) and hasattr(v, "abs_len"):
                return v.abs_len()
            if type(v).__name__ == "AObj" and v._record() is None:
                m_ = v._ctx_.repo.lookup_method(v._cls_, "__len__")
                if m_ is not None:
                    from .absint import _BoundMethod

                    return _BoundMethod(v, m_).call(self, [], {})
            return len(v)
        if name in ("typing.cast", "cast") and len(args) == 2:
            return self.fold(args[1])
        if name == "iter" and len(args) == 1:
            v = self.fold(args[0])
            if isinstance(v, _Eager):
                return v.cursor()
            return iter(list(v.keys()) if isinstance(v, dict) else list(v))
        if name == "next" and len(args) in (1, 2):
            it = self.fold(args[0])
            if isinstance(it, _Eager):
                it = it.cursor()  # a one-shot producer that was folded eagerly: `next` consumes it, as it would the real thing
            elif isinstance(it, (list, tuple)):
                it = iter(it)  # a lazily produced sequence that was folded eagerly
            try:
                return next(it)
            except StopIteration:
                if len(args) == 2:
                    return self.fold(args[1])
                from .absint import Raised

                raise Raised("StopIteration", e)  # what the evaluated program sees
            except TypeError:
                raise Unfoldable(unparse(e))
        if name == "object" and not args:
            return _SENTINELS.setdefault(id(e), object())
        if name == "getattr" and len(args) in (2, 3):
            v = self.fold(args[0])
            a = self.fold(args[1])
            if isinstance(v, _TypeOf):
                v = v.cls
            if isinstance(v, _ModuleValue) and isinstance(a, str) and self.repo is not None:
                # getattr(module, "name"): what `module.name` names
                try:
                    return Folder({}, self.repo, v.module, None, self.hook).fold(ast.Name(id=a, ctx=ast.Load()))
                except Unfoldable:
                    if len(args) == 3:
                        return self.fold(args[2])
                    from .absint import Raised

                    raise Raised("AttributeError", e)
            if isinstance(v, ClassInfo) and isinstance(a, str) and self.repo is not None:
                # getattr(K, "name"): a function / class attribute of the class, as `K.name` would give it
                try:
                    return Folder({"__k": v}, self.repo, self.mod, self.cls, self.hook).fold(ast.Attribute(value=ast.Name(id="__k", ctx=ast.Load()), attr=a, ctx=ast.Load()))
                except Unfoldable:
                    if len(args) == 3:
                        return self.fold(args[2])
                    raise
            if isinstance(a, str) and not isinstance(a, Abstract):
                if type(v).__name__ == "AObj":
                    from .absint import aobj_member

                    if a in v.__dict__ and not a.endswith("_"):
                        return v.__dict__[a]
                    try:
                        return aobj_member(self, v, a)
                    except Unfoldable:
                        if len(args) == 3:
                            return self.fold(args[2])
                        from .absint import Raised

                        raise Raised("AttributeError", e)
                if isinstance(v, Abstract) and hasattr(v, a):
                    return getattr(v, a)
                if isinstance(v, Abstract) and len(args) == 3:
                    return self.fold(args[2])
            raise Unfoldable(unparse(e))
        if name == "hasattr" and len(args) == 2:
            v = self.fold(args[0])
            a = self.fold(args[1])
            if isinstance(v, _TypeOf):
                v = v.cls
            if isinstance(v, ClassInfo) and isinstance(a, str) and self.repo is not None:
                return self.repo.lookup_method(v, a) is not None or self.repo.lookup_class_attr(v, a) is not None or any(isinstance(k_, ClassInfo) and a in k_.inner for k_ in self.repo.mro(v))
            if type(v).__name__ == "AObj" and isinstance(a, str) and "_kind_" not in v.__dict__:
                r_ = v._ctx_.repo
                return a in v.__dict__ or r_.lookup_method(v._cls_, a) is not None or r_.lookup_class_attr(v._cls_, a) is not None
            if isinstance(v, Abstract):
                try:
                    return hasattr(v, a)
                except Unfoldable:
                    return False
            raise Unfoldable(unparse(e))
        if name == "type" and len(args) == 1:
            v = self.fold(args[0])
            if type(v).__name__ == "AObj" and "_kind_" not in v.__dict__:
                return _TypeOf(v._cls_)  # the class of an instance constructed from the repository's own constructor
            return Sym(__name__=getattr(v, "_kind_", type(v).__name__))
        if name == "hash" and len(args) == 1:
            return _abs_hash(self, self.fold(args[0]))
        if name in ("int", "bool"):
            v = self.fold(args[0])
            if name == "int":
                if (e.keywords or len(args) > 1) and isinstance(v, str):
                    # int(text, base): exact decoding of a literal
                    base = self.fold(args[1]) if len(args) == 2 else None
                    for k in e.keywords:
                        if k.arg == "base":
                            base = self.fold(k.value)
                    if isinstance(base, int) and not isinstance(base, bool):
                        try:
                            return int(v, base)
                        except ValueError:
                            from .absint import Raised

                            raise Raised("ValueError", e)
                if e.keywords or len(args) > 1:
                    raise Unfoldable(unparse(e))
                if isinstance(v, (int, Fraction)) and not isinstance(v, bool):
                    return int(v)
                if isinstance(v, bool):
                    return int(v)
                if isinstance(v, str):
                    try:
                        return int(v)
                    except ValueError:
                        from .absint import Raised

                        raise Raised("ValueError", e)
                raise Unfoldable(unparse(e))
            return bool(v)
        if name == "round":
            return round(self.fold(args[0]))
        if name == "float" and len(args) == 1:
            v = self.fold(args[0])
            if isinstance(v, (int, float, Fraction, str)) and not isinstance(v, Abstract):
                try:
                    return float(v)
                except (ValueError, OverflowError) as ex:
                    from .absint import Raised

                    raise Raised(type(ex).__name__, e)
            raise Unfoldable(unparse(e))
        if name in ("math.ceil", "ceil"):
            return math.ceil(self.fold(args[0]))
        if name in ("math.log2", "log2"):
            v = self.fold(args[0])
            if v <= 0:
                raise Unfoldable("log2 of non-positive")
            # exact for powers of two, which is what matters for ceil(log2(x)) on integer x
            if isinstance(v, int):
                if v & (v - 1) == 0:
                    return v.bit_length() - 1
                return (v.bit_length() - 1) + 0.5  # strictly between the neighbouring integers
            return math.log2(v)
        if name in ("fractions.Fraction", "Fraction", "frac"):
            vals = [self.fold(a) for a in args]
            return Fraction(*vals)
        if name in ("decimal.Decimal", "Decimal") and name.split(".")[0] not in self.env and not e.keywords:
            # the standard decimal type is a value of the host language: computed, with the default context, as Python does
            import decimal as _dec

            vals = [self.fold(a) for a in args]
            if any(isinstance(v_, Abstract) for v_ in vals):
                raise Unfoldable(unparse(e))
            from .absint import Raised

            try:
                return _dec.Decimal(*vals)
            except _dec.DecimalException as ex_d:
                raise Raised(type(ex_d).__name__, e)
            except (ValueError, TypeError) as ex_d:
                raise Raised(type(ex_d).__name__, e)
        if name in ("dict.fromkeys", "collections.OrderedDict.fromkeys") and len(args) in (1, 2):
            fill_ = self.fold(args[1]) if len(args) == 2 else None
            d0: Dict[Any, Any] = {}
            for k_ in self.fold(args[0]):
                d0.setdefault(k_, fill_)
            return d0
        if name == "dict" and len(args) <= 1 and name not in self.env:
            d_: Dict[Any, Any] = {}
            if args:
                src_ = self.fold(args[0])
                for kv_ in (src_.items() if isinstance(src_, dict) else src_):
                    k_, v_ = kv_
                    d_[k_] = v_
            for kw_ in e.keywords:
                if kw_.arg:
                    d_[kw_.arg] = self.fold(kw_.value)
            return d_
        if name in ("set", "frozenset", "tuple", "list"):
            v = self.fold(args[0]) if args else ()
            return {"set": frozenset, "frozenset": frozenset, "tuple": tuple, "list": list}[name](v)
        if name == "ord" and len(args) == 1:
            v = self.fold(args[0])
            if isinstance(v, (str, bytes)) and len(v) == 1:
                return ord(v)
            from .absint import Raised

            raise Raised("TypeError", e)
        if name == "staticmethod" and len(args) == 1 and name not in self.env:
            return _StaticValue(self.fold(args[0]))
        if name in ("hex", "oct", "bin") and len(args) == 1 and name not in self.env:
            v = self.fold(args[0])
            if isinstance(v, int) and not isinstance(v, Abstract):
                return {"hex": hex, "oct": oct, "bin": bin}[name](v)
            raise Unfoldable(unparse(e))
        if name == "chr" and len(args) == 1 and "chr" not in self.env:
            v = self.fold(args[0])
            if isinstance(v, Abstract):
                raise Unfoldable(unparse(e))
            from .absint import Raised

            try:
                return chr(v)
            except (ValueError, OverflowError, TypeError) as ex_c:
                raise Raised(type(ex_c).__name__, e)
        if name == "repr" and len(args) == 1:
            v = self.fold(args[0])
            t_ = _abs_text(self, v, "__repr__")
            if t_ is not None:
                return t_
            if isinstance(v, Abstract):
                raise Unfoldable(unparse(e))
            return repr(v)
        if name == "str":
            v = self.fold(args[0])
            t_ = _abs_text(self, v, "__str__")
            return t_ if t_ is not None else str(v)
        if name == "sum":
            vals = list(self.fold(args[0]))
            start = self.fold(args[1]) if len(args) > 1 else 0
            return sum(vals, start)
        if name in ("any", "all"):
            vals = list(self.fold(args[0]))
            return any(vals) if name == "any" else all(vals)
        if name == "range":
            vals = [self.fold(a) for a in args]
            if not all(isinstance(v, int) for v in vals):
                raise Unfoldable(unparse(e))
            return ARange(range(*vals))
        if name == "enumerate":
            st_ = [self.fold(args[1])] if len(args) > 1 else [self.fold(k.value) for k in e.keywords if k.arg == "start"]
            return list(enumerate(self.fold(args[0]), *st_))
        if name == "zip":
            cols = [self.fold(a) for a in args]
            finite = [list(c) for c in cols if not isinstance(c, _Repeat)]
            n_ = min((len(c) for c in finite), default=0)
            return list(zip(*[([c.value] * n_ if isinstance(c, _Repeat) else list(c)) for c in cols]))
        if name == "reversed":
            return list(reversed(list(self.fold(args[0]))))
        if name in ("itertools.filterfalse", "filterfalse") and len(args) == 2:
            f = self.fold(args[0])
            vals = list(self.fold(args[1]))
            return [v_ for v_ in vals if not (bool(v_) if f is None else call_value(self, f, [v_]))]
        if name == "map" and len(args) >= 3 and "map" not in self.env:
            f = self.fold(args[0])
            cols = [self.fold(a) for a in args[1:]]
            finite = [list(c) for c in cols if not isinstance(c, _Repeat)]
            n_ = min((len(c) for c in finite), default=0)
            rows = list(zip(*[([c.value] * n_ if isinstance(c, _Repeat) else list(c)[:n_]) for c in cols]))
            return [call_value(self, f, list(row)) for row in rows]
        if name in ("itertools.accumulate", "accumulate") and 1 <= len(args) <= 2 and name.split(".")[0] not in self.env:
            xs = list(self.fold(args[0]))
            kw = {k.arg: self.fold(k.value) for k in e.keywords if k.arg}
            fn_ = self.fold(args[1]) if len(args) == 2 else kw.get("func")
            acc_out: list = []
            have = "initial" in kw and kw["initial"] is not None
            acc = kw.get("initial")
            if have:
                acc_out.append(acc)
            for x_ in xs:
                if not have:
                    acc, have = x_, True
                else:
                    acc = (acc + x_) if fn_ is None else call_value(self, fn_, [acc, x_])
                acc_out.append(acc)
            return _Eager(acc_out)
        if name in ("map", "filter") and len(args) == 2:
            f = self.fold(args[0])
            vals = list(self.fold(args[1]))
            if f is None and name == "filter":
                return [v_ for v_ in vals if v_]
            if f is Fraction and name == "map" and all(isinstance(v_, (int, Fraction)) and not isinstance(v_, bool) for v_ in vals):
                return [Fraction(v_) for v_ in vals]
            if isinstance(f, ClassInfo) and name == "map":
                from .absint import _Const

                return [self.fold(ast.Call(func=args[0], args=[_Const(v_)], keywords=[])) for v_ in vals]
            if isinstance(f, (_Lambda, _LocalFn)):
                res = [f.call(self, [v]) for v in vals]
                return res if name == "map" else [v for v, k in zip(vals, res) if k]
            if (callable(f) and isinstance(f, Abstract)) or isinstance(f, _Partial) or type(f).__name__ == "_BoundMethod":
                res = [call_value(self, f, [v]) for v in vals]  # a rule-modelled callable / a bound method of an abstract instance
                return res if name == "map" else [v for v, k in zip(vals, res) if k]
            if f in (list, tuple, frozenset, sorted) and name == "map":
                return [f(v) for v in vals]  # each element consumed now (a kept generator expression runs here)
            if f in (str, repr, int, bool, len, abs, float) and name == "map":
                if any(isinstance(v, Abstract) and type(v).__name__ != "AObj" for v in vals) or (f not in (str, repr) and any(isinstance(v, Abstract) for v in vals)):
                    raise Unfoldable(unparse(e))
                return [call_value(self, f, [v]) for v in vals]
            raise Unfoldable(unparse(e))
        if name in ("functools.reduce", "reduce") and len(args) in (2, 3):
            f = self.fold(args[0])
            vals = list(self.fold(args[1]))
            if isinstance(f, (_Lambda, _LocalFn, _Partial)) or type(f).__name__ == "_BoundMethod" or (isinstance(f, Abstract) and callable(f)) or getattr(f, "__module__", None) == "_operator":
                if len(args) == 3:
                    acc = self.fold(args[2])
                elif vals:
                    acc, vals = vals[0], vals[1:]
                else:
                    from .absint import Raised

                    raise Raised("TypeError", e)  # reduce() of an empty iterable with no initial value
                for v in vals:
                    acc = call_value(self, f, [acc, v])
                return acc
            raise Unfoldable(unparse(e))
        if name == "int.from_bytes" and len(args) >= 1:
            kw = {k.arg: self.fold(k.value) for k in e.keywords if k.arg in ("byteorder", "signed")}
            vals_ = [self.fold(a) for a in args]
            if isinstance(vals_[0], (bytes, bytearray)):
                return int.from_bytes(*vals_, **kw)
            raise Unfoldable(unparse(e))
        if name in ("bytes", "bytearray") and len(args) <= 1 and not e.keywords:
            v0 = self.fold(args[0]) if args else b""
            if isinstance(v0, (bytes, bytearray, memoryview, list, tuple, int)) and not isinstance(v0, bool):
                try:
                    return bytes(v0) if name == "bytes" else bytearray(v0)
                except (ValueError, TypeError) as ex:
                    from .absint import Raised

                    raise Raised(type(ex).__name__, e)
            raise Unfoldable(unparse(e))
        if name == "itertools.count" and len(args) <= 2 and not e.keywords:
            import itertools as _it

            return _it.count(*[self.fold(a) for a in args])
        if name in ("itertools.repeat", "repeat") and len(args) == 2:
            return [self.fold(args[0])] * int(self.fold(args[1]))
        if name in ("itertools.repeat",) and len(args) == 1:
            v_ = self.fold(args[0])
            return _Repeat(v_)
        if name == "unicodedata.normalize" and len(args) == 2 and not e.keywords:
            form_, text_ = self.fold(args[0]), self.fold(args[1])
            if isinstance(form_, str) and isinstance(text_, str) and not isinstance(text_, Abstract) and form_ in ("NFC", "NFD", "NFKC", "NFKD"):
                import unicodedata as _ud

                return _ud.normalize(form_, text_)  # a pure function of a concrete text
            raise Unfoldable(unparse(e))
        if name in ("re.compile", "re.match", "re.fullmatch", "re.search") and args and not e.keywords:
            vals_r = [self.fold(a) for a in args]
            if all(isinstance(v_, (str, int)) and not isinstance(v_, Abstract) for v_ in vals_r) and isinstance(vals_r[0], str):
                import re as _re

                try:
                    if name == "re.compile":
                        return _ARegex(_re.compile(*vals_r))
                    return getattr(_re, name.split(".")[1])(*vals_r)
                except _re.error as ex:
                    raise Unfoldable("regular expression: %s" % ex)
            raise Unfoldable(unparse(e))
        if name in ("itertools.starmap", "starmap") and len(args) == 2:
            # f(*row) for every row; the callee expression is kept so that classes / functions of the repository are called as
            # they would be where the expression is written
            from .absint import _Const

            rows = [list(r_) for r_ in self.fold(args[1])]
            return [self.fold(ast.Call(func=args[0], args=[_Const(v_) for v_ in row], keywords=[])) for row in rows]
        if name in ("itertools.groupby", "groupby") and len(args) in (1, 2) and name.split(".")[0] not in self.env:
            # runs of consecutive elements with equal keys, as (key, members) pairs - evaluated eagerly
            seq = list(self.fold(args[0]))
            kf = self.fold(args[1]) if len(args) == 2 else next((self.fold(k.value) for k in e.keywords if k.arg == "key"), None)
            runs: list = []
            for x_ in seq:
                k_ = x_ if kf is None else call_value(self, kf, [x_])
                if runs and runs[-1][0] == k_:
                    runs[-1][1].append(x_)
                else:
                    runs.append((k_, [x_]))
            return runs
        if name in ("itertools.chain.from_iterable", "chain.from_iterable") and len(args) == 1:
            out_c: list = []
            for part in self.fold(args[0]):
                out_c.extend(list(part))
            return out_c
        if name in ("itertools.islice", "itertools.zip_longest", "itertools.pairwise") and args and "itertools" not in self.env:
            import itertools as _it

            vals_i = [self.fold(a) for a in args]
            kw_i = {k.arg: self.fold(k.value) for k in e.keywords if k.arg}
            if name == "itertools.islice":
                src = vals_i[0]
                if isinstance(src, _Eager):
                    src = src.cursor()
                if any(isinstance(v_, Abstract) for v_ in vals_i[1:]):
                    raise Unfoldable(unparse(e))
                # (an iterator is consumed as far as the slice reads, a sequence is not touched)
                return _Eager(list(_it.islice(src if hasattr(src, "__next__") else iter(list(src)), *vals_i[1:])))
            seqs = [list(v_.cursor() if isinstance(v_, _Eager) else v_) for v_ in vals_i]
            return _Eager(list(getattr(_it, name.split(".")[1])(*seqs, **kw_i)))
        if name in ("itertools.product", "itertools.combinations", "itertools.permutations", "itertools.combinations_with_replacement", "itertools.chain"):
            import itertools as _it

            kw = {k.arg: self.fold(k.value) for k in e.keywords if k.arg}
            if name in ("itertools.combinations", "itertools.permutations", "itertools.combinations_with_replacement"):
                vals = [list(self.fold(args[0]))] + [self.fold(a) for a in args[1:]]
            else:
                vals = [list(self.fold(a)) for a in args]
            if any(isinstance(v_, int) and not isinstance(v_, bool) and v_ > 100000 for v_ in list(vals[1:]) + list(kw.values())):
                raise TooLarge("%s: every combination has more than 100000 members" % unparse(e)[:60])
            out_ = list(_it.islice(getattr(_it, name.split(".")[1])(*vals, **kw), 200001))
            if len(out_) > 200000:
                raise TooLarge("%s enumerates more than 200000 combinations" % unparse(e)[:60])
            return _Eager(out_)
        if name in ("collections.defaultdict", "defaultdict") and len(args) == 1 and dotted(args[0]) in ("list", "set", "dict", "int"):
            import collections as _c

            return _c.defaultdict({"list": list, "set": set, "dict": dict, "int": int}[dotted(args[0])])
        if name in ("functools.partial", "partial") and args:
            return _Partial(self.fold(args[0]), [self.fold(a) for a in args[1:]], {k.arg: self.fold(k.value) for k in e.keywords if k.arg})
        if name in ("time.monotonic", "time.time", "time.perf_counter", "time.process_time", "monotonic", "perf_counter") and not args and name.split(".")[0] not in self.env:
            return 0.0  # the clock: no analysed property depends on elapsed time (durations are only logged)
        if name is not None and name.startswith("math.") and name.split(".")[1] in ("isnan", "isinf", "isfinite", "copysign", "floor", "ceil", "trunc", "fabs", "ldexp", "frexp", "log2", "sqrt", "isclose") and "math" not in self.env:
            import math as _math

            vals_m = [self.fold(a) for a in args]
            if any(isinstance(v_, Abstract) or not isinstance(v_, (int, float, Fraction)) for v_ in vals_m):
                raise Unfoldable(unparse(e))
            try:
                return getattr(_math, name.split(".")[1])(*vals_m)
            except (ValueError, OverflowError) as ex_m:
                from .absint import Raised

                raise Raised(type(ex_m).__name__, e)
        if name == "struct.Struct" and len(args) == 1 and "struct" not in self.env:
            import struct as _struct

            fmt_ = self.fold(args[0])
            if not isinstance(fmt_, (str, bytes)):
                raise Unfoldable(unparse(e))
            try:
                return _struct.Struct(fmt_)  # a precompiled format: an immutable value
            except _struct.error:
                from .absint import Raised

                raise Raised("struct.error", e)
        if isinstance(e.func, ast.Attribute) and e.func.attr in ("pack", "unpack", "unpack_from", "pack_into", "iter_unpack"):
            import struct as _struct

            try:
                recv_ = self.fold(e.func.value) if not (isinstance(e.func.value, ast.Name) and e.func.value.id == "struct" and "struct" not in self.env) else None
            except Unfoldable:
                recv_ = None
            if isinstance(recv_, _struct.Struct):
                vals_s = [self.fold(a) for a in args]
                if any(isinstance(v_, Abstract) for v_ in vals_s):
                    raise Unfoldable(unparse(e))
                try:
                    return getattr(recv_, e.func.attr)(*vals_s)
                except _struct.error:
                    from .absint import Raised

                    raise Raised("struct.error", e)
                except (OverflowError, TypeError) as ex_s:
                    from .absint import Raised

                    raise Raised(type(ex_s).__name__, e)
        if name in ("struct.pack", "struct.unpack", "struct.unpack_from", "struct.calcsize", "struct.pack_into") and "struct" not in self.env:
            import struct as _struct

            vals_s = [self.fold(a) for a in args]
            if any(isinstance(v_, Abstract) for v_ in vals_s):
                raise Unfoldable(unparse(e))
            try:
                r_s = getattr(_struct, name.split(".")[1])(*vals_s)
            except _struct.error:
                from .absint import Raised

                raise Raised("struct.error", e)
            except (OverflowError, TypeError) as ex_s:
                from .absint import Raised

                raise Raised(type(ex_s).__name__, e)
            return r_s
        if name in ("operator.attrgetter", "operator.itemgetter", "operator.methodcaller", "attrgetter", "itemgetter", "methodcaller") and name.split(".")[0] not in self.env and args:
            return _OpGetter(name.split(".")[-1], tuple(self.fold(a) for a in args), {k.arg: self.fold(k.value) for k in e.keywords if k.arg})
        if name is not None and name.startswith("operator.") and name.count(".") == 1 and "operator" not in self.env:
            import operator as _op

            f_op = getattr(_op, name.split(".")[1], None)
            if callable(f_op):
                vals_o = [self.fold(a) for a in args]
                if any(isinstance(v_, Abstract) for v_ in vals_o):
                    raise Unfoldable(unparse(e))
                try:
                    return f_op(*vals_o)
                except (ZeroDivisionError, OverflowError, TypeError, ValueError) as ex_o:
                    from .absint import Raised

                    raise Raised(type(ex_o).__name__, e)
        if name in ("math.lcm", "math.gcd"):
            vals = [self.fold(a) for a in args]
            return getattr(math, name.split(".")[1])(*vals)
        if name == "divmod":
            return divmod(self.fold(args[0]), self.fold(args[1]))
        if name in ("enum.auto", "auto") and not args and self.repo is not None and name.split(".")[0] not in self.env:
            # a member of an enumeration numbered by its position: the previous member's value + 1, from 1
            last = 0
            owner = next((k for k in self.repo.all_classes().values() if any(getattr(st_, "value", None) is e for st_ in k.node.body)), None)
            for st_ in owner.node.body if owner is not None else []:
                val_ = st_.value if isinstance(st_, (ast.Assign, ast.AnnAssign)) else None
                if val_ is None:
                    continue
                if isinstance(val_, ast.Call) and dotted(val_.func) in ("enum.auto", "auto"):
                    last += 1
                elif isinstance(val_, ast.Constant) and isinstance(val_.value, int):
                    last = val_.value
                else:
                    continue
                if val_ is e:
                    return last
            raise Unfoldable("call " + unparse(e))
        if name == "issubclass" and len(args) == 2 and "issubclass" not in self.env:
            sub = self.fold(args[0])
            sups = self.fold(args[1])
            ans = False
            for sp in sups if isinstance(sups, tuple) else (sups,):
                a_ = sub.cls if isinstance(sub, _TypeOf) else sub
                b_ = sp.cls if isinstance(sp, _TypeOf) else sp
                if isinstance(a_, ClassInfo) and isinstance(b_, ClassInfo) and self.repo is not None:
                    ans = ans or b_ in self.repo.mro(a_)
                elif isinstance(a_, type) and isinstance(b_, type):
                    ans = ans or issubclass(a_, b_)
                elif isinstance(a_, ClassInfo) and isinstance(b_, type):
                    ans = ans or b_ is object
                elif isinstance(a_, type) and isinstance(b_, ClassInfo):
                    pass  # a builtin class does not derive from a class of the repository
                else:
                    raise Unfoldable("call " + unparse(e))
            return ans
        if name == "isinstance" and len(args) == 2:
            v = self.fold(args[0])
            class_exprs = list(args[1].elts if isinstance(args[1], ast.Tuple) else [args[1]])
            kn = []
            held: Dict[int, Any] = {}  # position in kn -> the class value, where the class is held in a variable
            for k in class_exprs:
                dk = dotted(k)
                if dk is None or dk.split(".")[0] in self.env:
                    # the class is held in a variable (e.g. a row of a dispatch table)
                    kv = self.fold(k)
                    for x in (kv if isinstance(kv, (tuple, list)) else [kv]):
                        if isinstance(x, (ClassInfo, _TypeOf)) or isinstance(x, type):
                            held[len(kn)] = x.cls if isinstance(x, _TypeOf) else x
                        kn.append(x.name if isinstance(x, (ClassInfo, _TypeOf)) else getattr(x, "__name__", None) if isinstance(x, type) else dk)
                else:
                    kn.append(dk)
            if held:
                # rewrite the question over class *values*: builtin classes answer directly, repository classes by the MRO
                import pathlib as _plh

                res_h = False
                undecided_h = False
                for i_, k_ in enumerate(kn):
                    hv = held.get(i_)
                    if hv is None:
                        undecided_h = True
                        continue
                    if isinstance(hv, type):
                        if not isinstance(v, Abstract) or isinstance(v, _plh.PurePath):
                            res_h = res_h or isinstance(v, hv)
                        elif type(v).__name__ == "AObj":
                            res_h = res_h or hv is object
                        else:
                            undecided_h = True
                    else:  # a class of the repository
                        if type(v).__name__ == "AObj" and self.repo is not None:
                            res_h = res_h or hv in self.repo.mro(v._cls_)
                        elif isinstance(v, Abstract) and isinstance(getattr(v, "_isa_", None), (set, frozenset)):
                            res_h = res_h or hv.name in v._isa_
                        elif not isinstance(v, Abstract) or isinstance(v, _plh.PurePath):
                            pass  # a plain value is never an instance of a class of the repository
                        else:
                            undecided_h = True
                if res_h:
                    return True
                if not undecided_h:
                    return False
            if "range" in kn and not isinstance(v, Abstract):
                if isinstance(v, ARange):
                    return True
                kn = [k for k in kn if k != "range"]
                if not kn:
                    return False
            pyk = {"bytes": bytes, "bytearray": bytearray, "int": int, "bool": bool, "str": str, "float": float, "complex": complex, "memoryview": memoryview, "object": object, "fractions.Fraction": Fraction, "Fraction": Fraction, "set": (set, frozenset), "frozenset": frozenset, "list": list, "tuple": tuple, "dict": dict}
            if all(k in pyk for k in kn) and not isinstance(v, Sym) and not isinstance(getattr(v, "_isa_", None), (set, frozenset)):
                return any(isinstance(v, pyk[k]) for k in kn)  # type: ignore
            import collections.abc as _cabc

            if not isinstance(v, Abstract) and (v is None or isinstance(v, (int, str, float, bool, Fraction, list, tuple, dict, set, frozenset, bytes, bytearray, memoryview, ARange, _cabc.Iterator))):
                # a plain value is an instance of the builtin classes listed, never of a class of the repository
                res_ = False
                known = True
                for k_, node_ in zip(kn, class_exprs + class_exprs[-1:] * (len(kn) - len(class_exprs))):
                    if k_ in pyk:
                        res_ = res_ or isinstance(v, pyk[k_])  # type: ignore
                    else:
                        r_ = None
                        try:
                            r_ = self.repo.resolve_expr(self.mod, node_, self.cls) if self.repo is not None and self.mod is not None else None
                        except Exception:
                            r_ = None
                        if isinstance(r_, External) and r_.dotted.split(".")[0] in ("pathlib", "os") and r_.dotted.split(".")[-1] in ("Path", "PurePath", "PurePosixPath", "PosixPath", "PathLike"):
                            pass  # a plain value (a string, a list, ...) is not a path object
                        elif not isinstance(r_, ClassInfo):
                            known = False
                if known:
                    return res_
            import pathlib as _pl

            if isinstance(v, _pl.PurePath):
                # a syntactic path: an instance of the pathlib classes, of no builtin container / string class, of no class of the repository
                res_p = False
                for k_, node_ in zip(kn, class_exprs + class_exprs[-1:] * (len(kn) - len(class_exprs))):
                    if k_ in pyk:
                        continue
                    try:
                        r_ = self.repo.resolve_expr(self.mod, node_, self.cls) if self.repo is not None and self.mod is not None else None
                    except Exception:
                        r_ = None
                    if isinstance(r_, External) and r_.dotted.split(".")[-1] in ("Path", "PurePath", "PurePosixPath", "PosixPath", "PathLike"):
                        res_p = True
                    elif not isinstance(r_, ClassInfo):
                        raise Unfoldable(unparse(e))
                return res_p
            if isinstance(v, Abstract) and isinstance(getattr(v, "_isa_", None), (set, frozenset)):
                def _names_of(k_: Any, node_: Any) -> Set[str]:
                    # the class under the name it is written with and under the name it was imported from (`Node as _Node`)
                    out_ = {(k_ or "?").split(".")[-1]}
                    try:
                        r_a = self.repo.resolve_expr(self.mod, node_, self.cls) if self.repo is not None and self.mod is not None and node_ is not None else None
                    except Exception:
                        r_a = None
                    if isinstance(r_a, External):
                        out_.add(r_a.dotted.split(".")[-1])
                    elif isinstance(r_a, ClassInfo):
                        out_.add(r_a.name)
                    return out_

                nodes_ = class_exprs + [None] * (len(kn) - len(class_exprs))
                return any(_names_of(k, n_) & set(v._isa_) for k, n_ in zip(kn, nodes_))
            if type(v).__name__ == "AObj" and self.repo is not None:
                names = {getattr(b, "name", None) or getattr(b, "dotted", "").split(".")[-1] for b in self.repo.mro(v._cls_)}
                return any((k or "?").split(".")[-1] in names for k in kn)
            raise Unfoldable(unparse(e))
        # a local lambda / a private expression helper of the repository (single returned expression)
        fv = None
        if isinstance(e.func, ast.Name) and e.func.id in self.env:
            fv = self.env[e.func.id]
        if isinstance(fv, (_Lambda, _LocalFn)):
            return fv.call(self, [self.fold(a) for a in args])
        if isinstance(fv, _Partial):
            return fv.call(self, [self.fold(a) for a in args], {k.arg: self.fold(k.value) for k in e.keywords if k.arg})
        if fv is Fraction:
            return Fraction(*[self.fold(a) for a in args])
        if type(fv).__name__ == "_BoundMethod":
            return fv.call(self, [self.fold(a) for a in args], {k.arg: self.fold(k.value) for k in e.keywords if k.arg})
        if type(fv).__name__ == "AObj":
            return call_value(self, fv, [self.fold(a) for a in args], {k.arg: self.fold(k.value) for k in e.keywords if k.arg})
        if fv is not None and getattr(fv, "__module__", None) == "_operator" and callable(fv):
            # a function of the `operator` module that reached this name as a value (e.g. an `impl` parameter)
            try:
                return fv(*[self.fold(a) for a in args])
            except (ZeroDivisionError, OverflowError, TypeError) as ex:
                from .absint import Raised

                raise Raised(type(ex).__name__, e)  # what the operator raises in the evaluated program
        if isinstance(fv, Abstract) and callable(fv):
            return fv(*[self.fold(a) for a in args], **{k.arg: self.fold(k.value) for k in e.keywords if k.arg})
        if self.repo is not None and self.mod is not None and isinstance(e.func, (ast.Name, ast.Attribute)):
            r = None
            if isinstance(e.func, ast.Attribute) and isinstance(e.func.value, ast.Name) and e.func.value.id in ("self", "cls") and self.cls is not None:
                r = self.repo.lookup_method(self.cls, e.func.attr)
                skip_self = r is not None and not r.is_static
            else:
                try:
                    r = self.repo.resolve_expr(self.mod, e.func, self.cls)
                except Exception:
                    r = None
                skip_self = False
                if isinstance(r, FuncInfo) and r.cls is not None and not r.is_static:
                    r = None
            if isinstance(r, FuncInfo) and r.name.startswith("_") and not r.name.startswith("__"):
                from .inline import Inliner

                ex = Inliner(self.repo)._as_expression(r)
                if ex is not None:
                    a = r.node.args
                    params = [x.arg for x in a.posonlyargs + a.args]
                    if skip_self:
                        params = params[1:]
                    if len(args) <= len(params) and not a.vararg and not a.kwarg:
                        env = dict(self.env) if skip_self else {}
                        defaults = dict(zip(reversed([x.arg for x in a.posonlyargs + a.args]), reversed(a.defaults)))
                        sub = Folder(env, self.repo, r.module, r.cls if skip_self else r.cls, self.hook)
                        sub.depth = self.depth
                        for p_, v_ in zip(params, args):
                            sub.env[p_] = self.fold(v_)
                        for p_ in params[len(args):]:
                            if p_ not in defaults:
                                raise Unfoldable(unparse(e))
                            sub.env[p_] = Folder({}, self.repo, r.module, r.cls).fold(defaults[p_])
                        return sub.fold(ex)
        if name == "ValueRange" or (name or "").endswith(".ValueRange"):
            raise Unfoldable(unparse(e))
        if self.repo is not None and self.mod is not None and isinstance(e.func, (ast.Name, ast.Attribute)) and (name or "?").split(".")[0] not in self.env:
            # a function of the repository that no rule-specific hook has claimed: evaluated from its source
            try:
                r1 = self.repo.resolve_expr(self.mod, e.func, self.cls)
            except Exception:
                r1 = None
            if isinstance(r1, FuncInfo) and (r1.cls is None or r1.is_static) and not (isinstance(e.func, ast.Attribute) and isinstance(e.func.value, ast.Name) and e.func.value.id in ("self", "cls") and r1.cls is None):
                from .absint import FnRef

                return FnRef(self.repo, r1, self.hook)(*[self.fold(a) for a in args], **{k.arg: self.fold(k.value) for k in e.keywords if k.arg})
            if isinstance(r1, ast.expr) and isinstance(e.func, ast.Name):
                # a module-level name bound to a computed callable (functools.partial(...), a lambda, a table lookup)
                fv1 = Folder({}, self.repo, self._owner_module(e.func), None, self.hook).fold(r1)
                if isinstance(fv1, (_Lambda, _LocalFn, _Partial)) or type(fv1).__name__ in ("_BoundMethod", "AObj") or (isinstance(fv1, Abstract) and callable(fv1)):
                    return call_value(self, fv1, [self.fold(a) for a in args], {k.arg: self.fold(k.value) for k in e.keywords if k.arg})
                if type(fv1).__module__ == "operator" and type(fv1).__name__ in ("methodcaller", "attrgetter", "itemgetter") and len(args) == 1:
                    # (a rule's hook answered operator.methodcaller(...) with the real thing: apply it to a plain value)
                    v1_ = self.fold(args[0])
                    if not isinstance(v1_, Abstract):
                        return fv1(v1_)
            if isinstance(r1, ClassInfo):
                # a class of the repository that no rule-specific hook has claimed: the instance its constructor builds
                from .absint import _RepoShim, construct

                return construct(_RepoShim(self.repo), r1, *[self.fold(a) for a in args], hook=self.hook, **{k.arg: self.fold(k.value) for k in e.keywords if k.arg})
        if isinstance(e.func, ast.Name) and isinstance(self.env.get(e.func.id), (ClassInfo, _TypeOf)):
            # a local name bound to a class of the repository (`cls(...)` in a classmethod, `ty = A if c else B; ty(...)`)
            return call_value(self, self.env[e.func.id], fold_starred(self, args), {k.arg: self.fold(k.value) for k in e.keywords if k.arg})
        if isinstance(e.func, (ast.Call, ast.Subscript, ast.IfExp)):
            # the callee is itself computed: getattr(x, name)(...), table[key](...), (f if c else g)(...)
            fv = self.fold(e.func)
            callable_instance = type(fv).__name__ == "AObj" and fv._ctx_.repo.lookup_method(fv._cls_, "__call__") is not None
            if callable_instance or isinstance(fv, (_Lambda, _LocalFn, _Partial, ClassInfo, _TypeOf)) or type(fv).__name__ in ("_BoundMethod", "FnRef") or (isinstance(fv, Abstract) and callable(fv)) or (isinstance(fv, type) and fv in _BUILTIN_TYPES.values()):
                return call_value(self, fv, fold_starred(self, args), {k.arg: self.fold(k.value) for k in e.keywords if k.arg})
        raise Unfoldable("call " + unparse(e))


def fold_starred(f: "Folder", args: Any) -> list:
    out: list = []
    for a in args:
        if isinstance(a, ast.Starred):
            out.extend(list(f.fold(a.value)))
        else:
            out.append(f.fold(a))
    return out


class ARange:
    """`range(...)` as the evaluated program has it: constant-time to build, to measure, to index and to slice - and refusing to
    be *walked* when it has more elements than any analysis domain needs (TooLarge), so that an enumeration whose size follows
    a numeric parameter shows itself where it happens"""

    LIMIT = 100000

    def __init__(self, r: range):
        self.r = r
        self.start, self.stop, self.step = r.start, r.stop, r.step

    def __len__(self) -> int:
        return len(self.r)

    def __iter__(self) -> Any:
        if len(self.r) > ARange.LIMIT:
            raise TooLarge("a range of %d elements is enumerated" % len(self.r))
        return iter(self.r)

    def __getitem__(self, i: Any) -> Any:
        v = self.r[i]
        return ARange(v) if isinstance(v, range) else v

    def __contains__(self, x: Any) -> bool:
        return x in self.r

    def __eq__(self, o: Any) -> bool:
        return (isinstance(o, ARange) and o.r == self.r) or (isinstance(o, range) and o == self.r)

    def __hash__(self) -> int:
        return hash(self.r)

    def __bool__(self) -> bool:
        return len(self.r) > 0

    def __reversed__(self) -> Any:
        return iter(ARange(self.r[::-1]))

    def __repr__(self) -> str:
        return repr(self.r)

    def index(self, x: Any) -> int:
        return self.r.index(x)

    def count(self, x: Any) -> int:
        return self.r.count(x)


COVERAGE: Optional[dict] = None  # when a rule asks: (file, line, column) of every subscript evaluated -> count; ("raised", ...) -> class
PROCESS_STATE: dict = {}  # id(assignment value node) -> (node, the one object it evaluated to) for mutable module-level values


class TooLarge(Unfoldable):
    """the evaluated code builds or walks a collection with more elements than any analysis domain of the rules needs: the
    sign of an enumeration whose size grows with a numeric parameter"""


class FoldKeyError(Unfoldable):
    """A literal lookup failed while folding (rule may treat this as the modelled KeyError/IndexError)."""

    def __init__(self, kind: str, key: Any):
        super().__init__("%s(%r)" % (kind, key))
        self.kind = kind
        self.key = key
