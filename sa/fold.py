"""
E6 -- pure-expression folder.

Folds *extracted expression ASTs* built from literals, resolved class/module constants, rule parameters and a
closed set of pure operators.  Anything else raises Unfoldable (the instance becomes ANALYSIS-ERROR, never a pass).
No repository function is ever called: names are looked up in the explicit environment or resolved to constant
*expressions* through the symbol table and folded recursively.
"""
from __future__ import annotations

import ast
import math
import operator
from fractions import Fraction
from typing import Any, Callable, Dict, Optional

from .core import ClassInfo, External, Module, Repo, dotted, unparse


class Unfoldable(Exception):
    pass


_BIN = {
    ast.Add: operator.add,
    ast.Sub: operator.sub,
    ast.Mult: operator.mul,
    ast.FloorDiv: operator.floordiv,
    ast.Mod: operator.mod,
    ast.Pow: operator.pow,
    ast.LShift: operator.lshift,
    ast.RShift: operator.rshift,
    ast.BitAnd: operator.and_,
    ast.BitOr: operator.or_,
    ast.BitXor: operator.xor,
}
_CMP = {
    ast.Eq: operator.eq,
    ast.NotEq: operator.ne,
    ast.Lt: operator.lt,
    ast.LtE: operator.le,
    ast.Gt: operator.gt,
    ast.GtE: operator.ge,
    ast.In: lambda a, b: a in b,
    ast.NotIn: lambda a, b: a not in b,
    ast.Is: lambda a, b: a is b,
    ast.IsNot: lambda a, b: a is not b,
}


class Folder:
    def __init__(
        self,
        env: Optional[Dict[str, Any]] = None,
        repo: Optional[Repo] = None,
        mod: Optional[Module] = None,
        cls: Optional[ClassInfo] = None,
        hook: Optional[Callable[[ast.expr, "Folder"], Any]] = None,
    ):
        self.env = dict(env or {})
        self.repo = repo
        self.mod = mod
        self.cls = cls
        self.hook = hook  # rule-specific extension: return a value or raise Unfoldable / return NotImplemented
        self.depth = 0

    def __call__(self, e: ast.expr) -> Any:
        return self.fold(e)

    def fold(self, e: ast.expr) -> Any:
        self.depth += 1
        if self.depth > 200:
            raise Unfoldable("recursion")
        try:
            return self._fold(e)
        finally:
            self.depth -= 1

    def _fold(self, e: ast.expr) -> Any:
        if self.hook is not None:
            r = self.hook(e, self)
            if r is not NotImplemented:
                return r
        if isinstance(e, ast.Constant):
            if isinstance(e.value, (int, str, bool, float, bytes)) or e.value is None:
                return e.value
            raise Unfoldable(unparse(e))
        d = dotted(e)
        if d is not None and d in self.env:
            return self.env[d]
        if isinstance(e, ast.Name):
            return self._resolve(e)
        if isinstance(e, ast.Attribute):
            if d is not None:
                # self.CONST -> class constant through the MRO
                if d.startswith("self.") and self.cls is not None and self.repo is not None and d.count(".") == 1:
                    v = self.repo.lookup_class_attr(self.cls, e.attr)
                    if v is not None:
                        return Folder(self.env, self.repo, self.cls.module, self.cls, self.hook).fold(v)
                return self._resolve(e)
            base = self.fold(e.value)
            if isinstance(base, tuple) and hasattr(base, "_fields") and e.attr in base._fields:
                return getattr(base, e.attr)
            if isinstance(base, dict) and e.attr in base:
                return base[e.attr]
            raise Unfoldable(unparse(e))
        if isinstance(e, ast.BinOp):
            l, r = self.fold(e.left), self.fold(e.right)
            if isinstance(e.op, ast.Div):
                if isinstance(l, float) or isinstance(r, float):
                    return l / r
                return Fraction(l) / Fraction(r)
            op = _BIN.get(type(e.op))
            if op is None:
                raise Unfoldable(unparse(e))
            if isinstance(e.op, ast.Pow) and isinstance(r, int) and abs(r) > 5000:
                raise Unfoldable("exponent too large")
            if isinstance(e.op, ast.LShift) and isinstance(r, int) and r > 5000:
                raise Unfoldable("shift too large")
            return op(l, r)
        if isinstance(e, ast.UnaryOp):
            v = self.fold(e.operand)
            if isinstance(e.op, ast.USub):
                return -v
            if isinstance(e.op, ast.UAdd):
                return +v
            if isinstance(e.op, ast.Not):
                return not v
            if isinstance(e.op, ast.Invert):
                return ~v
        if isinstance(e, ast.BoolOp):
            if isinstance(e.op, ast.And):
                v: Any = True
                for x in e.values:
                    v = self.fold(x)
                    if not v:
                        return v
                return v
            v = False
            for x in e.values:
                v = self.fold(x)
                if v:
                    return v
            return v
        if isinstance(e, ast.Compare):
            left = self.fold(e.left)
            for op, c in zip(e.ops, e.comparators):
                right = self.fold(c)
                f = _CMP.get(type(op))
                if f is None:
                    raise Unfoldable(unparse(e))
                if not f(left, right):
                    return False
                left = right
            return True
        if isinstance(e, ast.IfExp):
            return self.fold(e.body) if self.fold(e.test) else self.fold(e.orelse)
        if isinstance(e, (ast.Tuple, ast.List)):
            vals = [self.fold(x) for x in e.elts]
            return tuple(vals) if isinstance(e, ast.Tuple) else vals
        if isinstance(e, ast.Set):
            return frozenset(self.fold(x) for x in e.elts)
        if isinstance(e, ast.Dict):
            return {self.fold(k): self.fold(v) for k, v in zip(e.keys, e.values) if k is not None}
        if isinstance(e, ast.Subscript):
            base = self.fold(e.value)
            if isinstance(e.slice, ast.Slice):
                lo = self.fold(e.slice.lower) if e.slice.lower else None
                hi = self.fold(e.slice.upper) if e.slice.upper else None
                return base[lo:hi]
            idx = self.fold(e.slice)
            try:
                return base[idx]
            except (KeyError, IndexError, TypeError) as ex:
                raise FoldKeyError(type(ex).__name__, idx)
        if isinstance(e, ast.Call):
            return self._call(e)
        if isinstance(e, ast.JoinedStr):
            return "<fstring>"
        raise Unfoldable(unparse(e))

    def _resolve(self, e: ast.expr) -> Any:
        if self.repo is None or self.mod is None:
            raise Unfoldable("unbound name %s" % unparse(e))
        r = self.repo.resolve_expr(self.mod, e, self.cls)
        if isinstance(r, ast.expr):
            # a module/class level constant expression; fold it in its own module
            owner = self._owner_module(e)
            return Folder(self.env, self.repo, owner, None, self.hook).fold(r)
        if isinstance(r, External):
            if r.dotted in ("builtins.True", "builtins.False", "builtins.None"):
                return {"True": True, "False": False, "None": None}[r.dotted.split(".")[1]]
            if r.dotted == "string.ascii_letters":
                import string

                return string.ascii_letters
            if r.dotted == "string.digits":
                return "0123456789"
        raise Unfoldable("cannot resolve %s" % unparse(e))

    def _owner_module(self, e: ast.expr) -> Module:
        # the module in which the resolved assignment lives (needed to fold names it refers to)
        assert self.repo is not None and self.mod is not None
        if isinstance(e, ast.Attribute):
            b = self.repo.resolve_expr(self.mod, e.value, self.cls)
            if isinstance(b, Module):
                # follow re-exports
                m = b
                for _ in range(8):
                    if e.attr in m.assigns:
                        return m
                    imp = m.imports.get(e.attr)
                    if imp and imp[0] == "member" and imp[1] in self.repo.modules:
                        m = self.repo.modules[imp[1]]
                    else:
                        break
                return m
            if isinstance(b, ClassInfo):
                for k in self.repo.mro(b):
                    if isinstance(k, ClassInfo) and e.attr in k.assigns:
                        return k.module
        if isinstance(e, ast.Name):
            m = self.mod
            for _ in range(8):
                if e.id in m.assigns:
                    return m
                imp = m.imports.get(e.id)
                if imp and imp[0] == "member" and imp[1] in self.repo.modules:
                    m = self.repo.modules[imp[1]]
                else:
                    break
            return m
        return self.mod

    def _call(self, e: ast.Call) -> Any:
        name = dotted(e.func)
        args = e.args
        if e.keywords and name not in ("int",):
            raise Unfoldable(unparse(e))
        if isinstance(e.func, ast.Attribute) and e.func.attr == "bit_length" and not args:
            v = self.fold(e.func.value)
            if isinstance(v, int):
                return v.bit_length()
            raise Unfoldable(unparse(e))
        if isinstance(e.func, ast.Attribute) and e.func.attr in ("lower", "upper", "strip") and not args:
            v = self.fold(e.func.value)
            if isinstance(v, str):
                return getattr(v, e.func.attr)()
            raise Unfoldable(unparse(e))
        if name in ("min", "max"):
            vals = [self.fold(a) for a in args]
            if len(vals) == 1 and isinstance(vals[0], (list, tuple, frozenset)):
                vals = list(vals[0])
            return (min if name == "min" else max)(vals)
        if name == "abs":
            return abs(self.fold(args[0]))
        if name == "len":
            v = self.fold(args[0])
            return len(v)
        if name in ("int", "bool"):
            v = self.fold(args[0])
            if name == "int":
                if e.keywords or len(args) > 1:
                    raise Unfoldable(unparse(e))
                if isinstance(v, (int, Fraction)) and not isinstance(v, bool):
                    return int(v)
                if isinstance(v, bool):
                    return int(v)
                raise Unfoldable(unparse(e))
            return bool(v)
        if name == "round":
            return round(self.fold(args[0]))
        if name in ("math.ceil", "ceil"):
            return math.ceil(self.fold(args[0]))
        if name in ("math.log2", "log2"):
            v = self.fold(args[0])
            if v <= 0:
                raise Unfoldable("log2 of non-positive")
            # exact for powers of two, which is what matters for ceil(log2(x)) on integer x
            if isinstance(v, int):
                if v & (v - 1) == 0:
                    return v.bit_length() - 1
                return (v.bit_length() - 1) + 0.5  # strictly between the neighbouring integers
            return math.log2(v)
        if name in ("fractions.Fraction", "Fraction", "frac"):
            vals = [self.fold(a) for a in args]
            return Fraction(*vals)
        if name in ("set", "frozenset", "tuple", "list", "sorted"):
            v = self.fold(args[0]) if args else ()
            return {"set": frozenset, "frozenset": frozenset, "tuple": tuple, "list": list, "sorted": sorted}[name](v)
        if name == "str":
            return str(self.fold(args[0]))
        if name == "ValueRange" or (name or "").endswith(".ValueRange"):
            raise Unfoldable(unparse(e))
        raise Unfoldable("call " + unparse(e))


class FoldKeyError(Unfoldable):
    """A literal lookup failed while folding (rule may treat this as the modelled KeyError/IndexError)."""

    def __init__(self, kind: str, key: Any):
        super().__init__("%s(%r)" % (kind, key))
        self.kind = kind
        self.key = key
