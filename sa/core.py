"""
E1 -- loader / symbol table, plus the reporting context shared by all rule modules.

Nothing here imports or executes pydsdl: sources are parsed with ``ast`` and resolved by a purpose-built,
repository-specific symbol table (module aliases, re-export chains, classes, MRO, methods, properties,
class constants).
"""
from __future__ import annotations

import ast
import builtins
import copy
import hashlib
import json
import os
import time
from pathlib import Path
from typing import Any, Callable, Dict, Iterable, Iterator, List, Optional, Sequence, Tuple, Union


class AnalysisError(Exception):
    """An anchor is missing or a site has a shape the analysis cannot summarise: exit 2, never a verdict."""


# --------------------------------------------------------------------------------------------------------------
# Symbol table
# --------------------------------------------------------------------------------------------------------------
class FuncInfo:
    def __init__(self, module: "Module", node: ast.FunctionDef, cls: Optional["ClassInfo"], parent: Optional["FuncInfo"]):
        self.module = module
        self.node = node
        self.cls = cls
        self.parent = parent
        self.name = node.name
        if parent is not None:
            self.qualname = parent.qualname + ".<locals>." + node.name
        elif cls is not None:
            self.qualname = cls.qualname + "." + node.name
        else:
            self.qualname = module.name + "." + node.name
        self.decorators = [unparse(d) for d in node.decorator_list]
        self.nested: Dict[str, FuncInfo] = {}
        for st in ast.walk(node):
            pass
        for st in _direct_nested_defs(node):
            self.nested[st.name] = FuncInfo(module, st, cls, self)

    @property
    def is_property(self) -> bool:
        return any(d == "property" or d.endswith(".setter") or d.split(".")[-1] == "cached_property" for d in self.decorators)

    @property
    def is_static(self) -> bool:
        return "staticmethod" in self.decorators

    @property
    def is_classmethod(self) -> bool:
        return "classmethod" in self.decorators

    @property
    def is_abstract(self) -> bool:
        return any(d.endswith("abstractmethod") for d in self.decorators)

    @property
    def params(self) -> List[str]:
        a = self.node.args
        return [x.arg for x in a.posonlyargs + a.args + a.kwonlyargs]

    @property
    def short(self) -> str:
        return self.qualname[len("pydsdl."):] if self.qualname.startswith("pydsdl.") else self.qualname

    def where(self, node: Optional[ast.AST] = None) -> str:
        n = node if node is not None else self.node
        return "%s:%d" % (self.module.relpath, getattr(n, "lineno", self.node.lineno))

    def __repr__(self) -> str:
        return "<func %s>" % self.qualname


def _direct_nested_defs(fn: ast.AST) -> Iterator[ast.FunctionDef]:
    """Function definitions nested directly (at any statement depth, but not inside another def/class)."""
    stack = list(ast.iter_child_nodes(fn))
    while stack:
        n = stack.pop()
        if isinstance(n, (ast.FunctionDef, ast.AsyncFunctionDef)):
            yield n  # type: ignore
            continue
        if isinstance(n, (ast.ClassDef, ast.Lambda)):
            continue
        stack.extend(ast.iter_child_nodes(n))


class ClassInfo:
    def __init__(self, module: "Module", node: ast.ClassDef, outer: Optional["ClassInfo"]):
        self.module = module
        self.node = node
        self.outer = outer
        self.name = node.name
        self.qualname = (outer.qualname if outer else module.name) + "." + node.name
        self.methods: Dict[str, FuncInfo] = {}
        self.assigns: Dict[str, ast.expr] = {}
        self.inner: Dict[str, ClassInfo] = {}
        self.base_exprs = list(node.bases)
        self._bases: Optional[List[Union["ClassInfo", str]]] = None
        self._mro: Optional[List[Union["ClassInfo", str]]] = None
        for st in node.body:
            if isinstance(st, ast.FunctionDef):
                if st.name.startswith("_unittest"):
                    continue
                # keep the *last* definition but remember setters separately
                fi = FuncInfo(module, st, self, None)
                if any(d.endswith(".setter") for d in fi.decorators):
                    self.methods[st.name + ".setter"] = fi
                else:
                    self.methods[st.name] = fi
            elif isinstance(st, ast.ClassDef):
                self.inner[st.name] = ClassInfo(module, st, self)
            elif isinstance(st, ast.Assign):
                for t in st.targets:
                    if isinstance(t, ast.Name):
                        self.assigns[t.id] = st.value
            elif isinstance(st, ast.AnnAssign) and isinstance(st.target, ast.Name) and st.value is not None:
                self.assigns[st.target.id] = st.value

    @property
    def short(self) -> str:
        return self.qualname[len("pydsdl."):] if self.qualname.startswith("pydsdl.") else self.qualname

    def __repr__(self) -> str:
        return "<class %s>" % self.qualname


class Module:
    def __init__(self, repo: "Repo", name: str, path: Path, is_pkg: bool):
        self.repo = repo
        self.name = name
        self.path = path
        self.relpath = str(path.relative_to(repo.root))
        self.is_pkg = is_pkg
        self.source = path.read_text(encoding="utf8")
        self.tree = ast.parse(self.source, filename=str(path))
        self.package = name if is_pkg else name.rsplit(".", 1)[0]
        self.imports: Dict[str, Tuple[str, ...]] = {}  # alias -> ("module", fullname) | ("member", module, attr)
        self.classes: Dict[str, ClassInfo] = {}
        self.functions: Dict[str, FuncInfo] = {}
        self.assigns: Dict[str, ast.expr] = {}
        self._scan(self.tree.body)
        self._scan_locals()

    def _scan_locals(self) -> None:
        """Function-local imports and classes (used to break import cycles / for small callbacks)."""
        for fn in ast.walk(self.tree):
            if not isinstance(fn, ast.FunctionDef) or fn.name.startswith("_unittest"):
                continue
            for st in ast.walk(fn):
                if isinstance(st, ast.ImportFrom):
                    base = self._resolve_relative(st.module, st.level)
                    for a in st.names:
                        self.imports.setdefault(a.asname or a.name, ("member", base, a.name))
                elif isinstance(st, ast.Import):
                    for a in st.names:
                        self.imports.setdefault((a.asname or a.name).split(".")[0], ("module", a.name if a.asname else a.name.split(".")[0]))
                elif isinstance(st, ast.ClassDef) and st.name not in self.classes:
                    in_test = False
                    self.classes[st.name] = ClassInfo(self, st, None)
                    self.classes[st.name].qualname = "%s.%s.<locals>.%s" % (self.name, fn.name, st.name)
                    for m in self.classes[st.name].methods.values():
                        m.qualname = self.classes[st.name].qualname + "." + m.name

    def _scan(self, body: Sequence[ast.stmt]) -> None:
        for st in body:
            if isinstance(st, ast.Import):
                for a in st.names:
                    self.imports[(a.asname or a.name).split(".")[0]] = ("module", a.name if a.asname else a.name.split(".")[0])
            elif isinstance(st, ast.ImportFrom):
                base = self._resolve_relative(st.module, st.level)
                for a in st.names:
                    alias = a.asname or a.name
                    self.imports[alias] = ("member", base, a.name)
            elif isinstance(st, ast.ClassDef):
                self.classes[st.name] = ClassInfo(self, st, None)
            elif isinstance(st, ast.FunctionDef):
                if st.name.startswith("_unittest"):
                    continue
                if st.name in self.functions:
                    # the name is rebound (e.g. every implementation registered with a single-dispatch function is called
                    # `_`): the earlier definitions stay in the table under a synthetic key - they are still reachable as values
                    n_prev = sum(1 for k in self.functions if k.split("#")[0] == st.name)
                    prev = self.functions[st.name]
                    prev.qualname = "%s#%d" % (prev.qualname, n_prev)
                    self.functions["%s#%d" % (st.name, n_prev)] = prev
                self.functions[st.name] = FuncInfo(self, st, None, None)
            elif isinstance(st, ast.Assign):
                for t in st.targets:
                    if isinstance(t, ast.Name):
                        self.assigns[t.id] = st.value
                    elif isinstance(t, ast.Attribute) and isinstance(t.value, ast.Name) and t.value.id in self.classes:
                        # `K.TABLE = ...` after the class body (a table that refers to the class itself): a class attribute
                        # whose expression is written in the module's scope
                        k_ = self.classes[t.value.id]
                        k_.assigns.setdefault(t.attr, st.value)
                        k_.__dict__.setdefault("module_level_assigns", set()).add(t.attr)
                    elif isinstance(t, ast.Tuple) and isinstance(st.value, ast.Tuple) and len(t.elts) == len(st.value.elts):
                        for tt, vv in zip(t.elts, st.value.elts):
                            if isinstance(tt, ast.Name):
                                self.assigns[tt.id] = vv
            elif isinstance(st, ast.AnnAssign) and isinstance(st.target, ast.Name) and st.value is not None:
                self.assigns[st.target.id] = st.value
            elif isinstance(st, (ast.If, ast.Try)):
                # module-level conditionals are not used for definitions in this code base; scan bodies anyway
                for sub in ("body", "orelse", "finalbody"):
                    self._scan(getattr(st, sub, []))

    def _resolve_relative(self, module: Optional[str], level: int) -> str:
        if level == 0:
            return module or ""
        parts = self.package.split(".")
        if level > 1:
            parts = parts[: len(parts) - (level - 1)]
        base = ".".join(parts)
        return base + ("." + module if module else "")

    def __repr__(self) -> str:
        return "<module %s>" % self.name


Symbol = Union[Module, ClassInfo, FuncInfo, ast.expr, str, None]


class External:
    """A name that resolves outside the repository (stdlib / builtins / third party)."""

    def __init__(self, dotted: str):
        self.dotted = dotted

    def __repr__(self) -> str:
        return "<external %s>" % self.dotted

    def __eq__(self, other: object) -> bool:
        return isinstance(other, External) and other.dotted == self.dotted

    def __hash__(self) -> int:
        return hash(("ext", self.dotted))


class Repo:
    def __init__(self, root: Union[str, Path]):
        self.root = Path(root).resolve()
        self.pkg = self.root / "pydsdl"
        if not self.pkg.is_dir():
            raise AnalysisError("no pydsdl package under %s" % self.root)
        self.modules: Dict[str, Module] = {}
        for p in sorted(self.pkg.rglob("*.py")):
            rel = p.relative_to(self.root)
            if "third_party" in rel.parts:
                continue
            stem = p.stem
            if stem.startswith("_test") or stem.endswith("_test") or stem == "conftest":
                continue
            parts = list(rel.with_suffix("").parts)
            is_pkg = parts[-1] == "__init__"
            if is_pkg:
                parts = parts[:-1]
            name = ".".join(parts)
            try:
                self.modules[name] = Module(self, name, p, is_pkg)
            except SyntaxError as ex:
                raise AnalysisError("cannot parse %s: %s" % (rel, ex))
        self.grammar_path = self.pkg / "grammar.parsimonious"
        self._all_classes: Optional[Dict[str, ClassInfo]] = None
        self._all_functions: Optional[Dict[str, FuncInfo]] = None

    # ---- digests -------------------------------------------------------------------------------------------
    def digest(self) -> str:
        h = hashlib.sha256()
        for name in sorted(self.modules):
            h.update(name.encode())
            h.update(self.modules[name].source.encode())
        if self.grammar_path.exists():
            h.update(self.grammar_path.read_bytes())
        return h.hexdigest()[:16]

    # ---- enumeration ---------------------------------------------------------------------------------------
    def all_classes(self) -> Dict[str, ClassInfo]:
        if self._all_classes is None:
            out: Dict[str, ClassInfo] = {}

            def add(c: ClassInfo) -> None:
                out[c.qualname] = c
                for i in c.inner.values():
                    add(i)

            for m in self.modules.values():
                for c in m.classes.values():
                    add(c)
            self._all_classes = out
        return self._all_classes

    def all_functions(self) -> Dict[str, FuncInfo]:
        """Every function/method/nested function keyed by qualname."""
        if self._all_functions is None:
            out: Dict[str, FuncInfo] = {}

            def add(f: FuncInfo) -> None:
                out[f.qualname] = f
                for n in f.nested.values():
                    add(n)

            for m in self.modules.values():
                for f in m.functions.values():
                    add(f)
            for c in self.all_classes().values():
                for f in c.methods.values():
                    add(f)
            self._all_functions = out
        return self._all_functions

    def all_calls(self) -> List[Tuple[FuncInfo, ast.Call]]:
        """Every call expression of every (non-nested-duplicated) function body, computed once."""
        if getattr(self, "_all_calls", None) is None:
            out: List[Tuple[FuncInfo, ast.Call]] = []
            for fn in self.all_functions().values():
                for n in walk_no_nested(fn.node):
                    if isinstance(n, ast.Call):
                        out.append((fn, n))
            self._all_calls = out
        return self._all_calls  # type: ignore

    def instantiated_classes(self) -> set:
        if getattr(self, "_instantiated", None) is None:
            inst = set()
            for fn, call in self.all_calls():
                if isinstance(call.func, (ast.Name, ast.Attribute)):
                    r = self.resolve_expr(fn.module, call.func, fn.cls)
                    if isinstance(r, ClassInfo):
                        inst.add(r.qualname)
            self._instantiated = inst
        return self._instantiated  # type: ignore

    # ---- anchors -------------------------------------------------------------------------------------------
    def module(self, name: str) -> Module:
        full = name if name.startswith("pydsdl") else "pydsdl." + name
        if full not in self.modules:
            raise AnalysisError("anchor module %s not found" % full)
        return self.modules[full]

    KNOWN_MODULES = (
        "pydsdl", "pydsdl._bit_length_set", "pydsdl._bit_length_set._bit_length_set", "pydsdl._bit_length_set._symbolic", "pydsdl._data_schema_builder",
        "pydsdl._data_type_builder", "pydsdl._dsdl", "pydsdl._dsdl_definition", "pydsdl._error", "pydsdl._expression", "pydsdl._expression._any",
        "pydsdl._expression._container", "pydsdl._expression._operator", "pydsdl._expression._primitive", "pydsdl._namespace", "pydsdl._namespace_reader",
        "pydsdl._parser", "pydsdl._port_id_ranges", "pydsdl._serdes", "pydsdl._serializable", "pydsdl._serializable._array", "pydsdl._serializable._attribute",
        "pydsdl._serializable._composite", "pydsdl._serializable._name", "pydsdl._serializable._primitive", "pydsdl._serializable._serializable",
        "pydsdl._serializable._void", "pydsdl._test", "pydsdl._test_serdes",
    )

    def with_satellites(self, mods: Any) -> List[str]:
        """the given modules plus every module of the package that is *not one of the modules the rules know by name* and
        from which one of them (transitively) imports: code that was moved out of a known module into a new private one is
        still part of that module's layer"""
        out = [m if m.startswith("pydsdl") else "pydsdl." + m for m in mods]
        work = list(out)
        while work:
            m = self.modules.get(work.pop())
            if m is None:
                continue
            for imp in m.imports.values():
                cands = [imp[1]] if imp[0] == "module" else [((imp[1] + "." + imp[2]) if imp[1] else imp[2]), imp[1]]
                for c in cands:
                    if c in self.modules and c not in out and c not in Repo.KNOWN_MODULES and not c.startswith("pydsdl.third_party"):
                        out.append(c)
                        work.append(c)
        return out

    def cls(self, short: str) -> ClassInfo:
        """`_serializable._composite.CompositeType` (module-qualified short name) or a unique bare class name."""
        full = "pydsdl." + short
        ac = self.all_classes()
        if full in ac:
            return ac[full]
        cands = [c for q, c in ac.items() if q.endswith("." + short)]
        if len(cands) == 1:
            return cands[0]
        if not cands:
            # the class may have moved to another module and be imported back under its name (the anchor is the name as seen
            # from the module that used to define it), or be the only class of that bare name in the package
            parts = short.split(".")
            for cut in range(len(parts) - 1, 0, -1):
                mod = "pydsdl." + ".".join(parts[:cut])
                if mod in self.modules:
                    r: Any = self.module_member(mod, parts[cut])
                    for inner in parts[cut + 1 :]:
                        r = r.inner.get(inner) if isinstance(r, ClassInfo) else None
                    if isinstance(r, ClassInfo):
                        return r
                    break
            bare = [c for c in ac.values() if c.qualname.split(".")[-1] == parts[-1] and len(parts) >= 1 and (len(parts) < 2 or True)]
            if len(parts) >= 1 and len([c for c in bare if c.name == parts[-1]]) == 1 and parts[-1][:1].isupper() or (len(bare) == 1 and parts[-1].startswith("_")):
                return [c for c in bare if c.name == parts[-1]][0]
        raise AnalysisError("anchor class %s %s" % (short, "is ambiguous" if cands else "not found"))

    def func(self, short: str) -> FuncInfo:
        """`_serdes._BitReader.read_bits`, `_namespace._complete_read_function`, or `Class.method` if unique."""
        full = "pydsdl." + short
        af = self.all_functions()
        if full in af:
            return af[full]
        cands = [f for q, f in af.items() if q.endswith("." + short)]
        if len(cands) == 1:
            return cands[0]
        if not cands:
            # moved to another module and imported back under its name, or a method of a class that moved
            parts = short.split(".")
            for cut in range(len(parts) - 1, 0, -1):
                mod = "pydsdl." + ".".join(parts[:cut])
                if mod in self.modules:
                    r: Any = self.module_member(mod, parts[cut])
                    for inner in parts[cut + 1 :]:
                        if isinstance(r, ClassInfo):
                            r = r.methods.get(inner) or r.inner.get(inner)
                        else:
                            r = None
                    if isinstance(r, FuncInfo):
                        return r
                    break
        raise AnalysisError("anchor function %s %s" % (short, "is ambiguous" if cands else "not found"))

    def has_func(self, short: str) -> bool:
        try:
            self.func(short)
            return True
        except AnalysisError:
            return False

    # ---- name resolution -----------------------------------------------------------------------------------
    def module_member(self, modname: str, attr: str, _depth: int = 0) -> Any:
        """Resolve `attr` as seen from module `modname` (top-level definition, import alias, or re-export)."""
        if _depth > 12:
            return None
        m = self.modules.get(modname)
        if m is None:
            # maybe a submodule reference
            sub = modname + "." + attr
            if sub in self.modules:
                return self.modules[sub]
            return External(sub)
        if attr in m.classes:
            return m.classes[attr]
        if attr in m.functions:
            return m.functions[attr]
        if attr in m.imports:
            imp = m.imports[attr]
            if imp[0] == "module":
                return self.modules.get(imp[1]) or External(imp[1])
            _, base, name = imp
            sub = (base + "." + name) if base else name
            if sub in self.modules:
                return self.modules[sub]
            if base in self.modules:
                return self.module_member(base, name, _depth + 1)
            return External(sub)
        if attr in m.assigns:
            return m.assigns[attr]
        if m.is_pkg and (modname + "." + attr) in self.modules:
            return self.modules[modname + "." + attr]
        return None

    def resolve_expr(self, mod: Module, expr: ast.expr, cls: Optional[ClassInfo] = None) -> Any:
        """Resolve a Name / dotted Attribute chain to Module | ClassInfo | FuncInfo | ast.expr | External | None."""
        if isinstance(expr, ast.Constant) and isinstance(expr.value, str):
            try:
                expr = ast.parse(expr.value, mode="eval").body
            except SyntaxError:
                return None
        if isinstance(expr, ast.Name):
            r = self.module_member(mod.name, expr.id)
            if r is None and cls is not None:
                c: Optional[ClassInfo] = cls
                while c is not None:
                    if expr.id in c.inner:
                        return c.inner[expr.id]
                    if c.name == expr.id:
                        return c
                    c = c.outer
                # a name of the class body (a method or a class-level constant) referred to from the class body itself,
                # e.g. a class-level dispatch table that lists methods defined above it
                if expr.id in cls.methods:
                    return cls.methods[expr.id]
                if expr.id in cls.assigns:
                    return cls.assigns[expr.id]
            if r is None and hasattr(builtins, expr.id):
                return External("builtins." + expr.id)
            return r
        if isinstance(expr, ast.Attribute):
            base = self.resolve_expr(mod, expr.value, cls)
            return self.member_of(base, expr.attr)
        return None

    def member_of(self, base: Any, attr: str) -> Any:
        if isinstance(base, Module):
            return self.module_member(base.name, attr)
        if isinstance(base, ClassInfo):
            if attr in base.inner:
                return base.inner[attr]
            for c in self.mro(base):
                if isinstance(c, ClassInfo):
                    if attr in c.methods:
                        return c.methods[attr]
                    if attr in c.assigns:
                        return c.assigns[attr]
                    if attr in c.inner:
                        return c.inner[attr]
            return None
        if isinstance(base, External):
            return External(base.dotted + "." + attr)
        return None

    # ---- class hierarchy -----------------------------------------------------------------------------------
    def bases(self, c: ClassInfo) -> List[Union[ClassInfo, External]]:
        if c._bases is None:
            out: List[Union[ClassInfo, External]] = []
            for b in c.base_exprs:
                r = self.resolve_expr(c.module, b, c.outer)
                if isinstance(r, ClassInfo):
                    out.append(r)
                elif isinstance(r, External):
                    out.append(r)
                elif isinstance(r, ast.expr):
                    # NamedTuple-style assignment or alias: try to resolve the assigned expression
                    rr = self.resolve_expr(c.module, r, c.outer) if isinstance(r, (ast.Name, ast.Attribute)) else None
                    out.append(rr if isinstance(rr, (ClassInfo, External)) else External(unparse(b)))
                else:
                    out.append(External(unparse(b)))
            c._bases = out  # type: ignore
        return c._bases  # type: ignore

    def mro(self, c: ClassInfo) -> List[Union[ClassInfo, External]]:
        if c._mro is None:
            seqs: List[List[Any]] = []
            for b in self.bases(c):
                if isinstance(b, ClassInfo):
                    seqs.append(list(self.mro(b)))
                else:
                    seqs.append([b])
            seqs.append(list(self.bases(c)))
            out: List[Any] = [c]
            seqs = [s for s in seqs if s]
            while seqs:
                for s in seqs:
                    head = s[0]
                    if not any(head in t[1:] for t in seqs):
                        break
                else:
                    raise AnalysisError("inconsistent MRO for %s" % c.qualname)
                out.append(head)
                seqs = [[x for x in s if x != head] if s[0] == head else s for s in seqs]
                seqs = [s[1:] if (s and s[0] == head) else s for s in seqs]
                seqs = [s for s in seqs if s]
            c._mro = out  # type: ignore
        return c._mro  # type: ignore

    def is_subclass(self, c: Union[ClassInfo, External, None], base: Union[ClassInfo, External, str]) -> bool:
        if c is None:
            return False
        if isinstance(base, str):
            try:
                base = self.cls(base)
            except AnalysisError:
                base = External(base)
        if isinstance(c, External):
            if isinstance(base, External):
                return _builtin_issubclass(c.dotted, base.dotted)
            return False
        for k in self.mro(c):
            if k == base:
                return True
            if isinstance(k, External) and isinstance(base, External) and _builtin_issubclass(k.dotted, base.dotted):
                return True
        return False

    def subclasses(self, base: ClassInfo, strict: bool = False) -> List[ClassInfo]:
        out = []
        for c in self.all_classes().values():
            if c is base and strict:
                continue
            if self.is_subclass(c, base):
                out.append(c)
        return sorted(out, key=lambda x: x.qualname)

    def lookup_method(self, c: ClassInfo, name: str) -> Optional[FuncInfo]:
        for k in self.mro(c):
            if isinstance(k, ClassInfo) and name in k.methods:
                return k.methods[name]
        return None

    def lookup_class_attr(self, c: ClassInfo, name: str) -> Optional[ast.expr]:
        for k in self.mro(c):
            if isinstance(k, ClassInfo) and name in k.assigns:
                return k.assigns[name]
        return None

    def is_abstract_class(self, c: ClassInfo) -> bool:
        """True if some abstract method in the MRO is not overridden by a concrete one."""
        seen: Dict[str, bool] = {}
        for k in self.mro(c):
            if isinstance(k, ClassInfo):
                for n, f in k.methods.items():
                    if n not in seen:
                        seen[n] = f.is_abstract
        return any(seen.values())


def _builtin_issubclass(a: str, b: str) -> bool:
    def get(d: str) -> Any:
        name = d.split(".")[-1]
        obj = getattr(builtins, name, None)
        if obj is None and d.startswith("parsimonious"):
            return None
        return obj

    if a == b or a.split(".")[-1] == b.split(".")[-1]:
        return True
    ca, cb = get(a), get(b)
    if isinstance(ca, type) and isinstance(cb, type):
        return issubclass(ca, cb)
    return False


# --------------------------------------------------------------------------------------------------------------
# AST helpers
# --------------------------------------------------------------------------------------------------------------
def unparse(node: Optional[ast.AST]) -> str:
    if node is None:
        return "None"
    try:
        return ast.unparse(node)
    except Exception:  # pragma: no cover
        return ast.dump(node)


def norm(node: ast.AST) -> str:
    """Normalised text of a construct: used for finding keys (never line numbers)."""
    return " ".join(unparse(node).split())


def dotted(expr: ast.AST) -> Optional[str]:
    """`a.b.c` -> 'a.b.c' for Name/Attribute chains, else None."""
    parts: List[str] = []
    e = expr
    while isinstance(e, ast.Attribute):
        parts.append(e.attr)
        e = e.value
    if isinstance(e, ast.Name):
        parts.append(e.id)
        return ".".join(reversed(parts))
    return None


def walk_no_nested(node: ast.AST, include_lambdas: bool = True) -> Iterator[ast.AST]:
    """ast.walk that does not descend into nested function / class definitions (optionally not into lambdas)."""
    stack = [node]
    first = True
    while stack:
        n = stack.pop()
        if not first and isinstance(n, (ast.FunctionDef, ast.AsyncFunctionDef, ast.ClassDef)):
            continue
        if not first and not include_lambdas and isinstance(n, ast.Lambda):
            continue
        first = False
        yield n
        stack.extend(reversed(list(ast.iter_child_nodes(n))))


def body_without_docstring(fn: ast.FunctionDef) -> List[ast.stmt]:
    b = list(fn.body)
    if b and isinstance(b[0], ast.Expr) and isinstance(b[0].value, ast.Constant) and isinstance(b[0].value.value, str):
        b = b[1:]
    return b


def calls_in(node: ast.AST, include_nested: bool = False) -> List[ast.Call]:
    it = ast.walk(node) if include_nested else walk_no_nested(node)
    return [n for n in it if isinstance(n, ast.Call)]


def call_name(c: ast.Call) -> Optional[str]:
    return dotted(c.func)


def kwarg(c: ast.Call, name: str, pos: Optional[int] = None) -> Optional[ast.expr]:
    for k in c.keywords:
        if k.arg == name:
            return k.value
    if pos is not None and pos < len(c.args) and not any(isinstance(a, ast.Starred) for a in c.args[: pos + 1]):
        return c.args[pos]
    return None


def parents_map(root: ast.AST) -> Dict[ast.AST, ast.AST]:
    out: Dict[ast.AST, ast.AST] = {}
    for n in ast.walk(root):
        for ch in ast.iter_child_nodes(n):
            out[ch] = n
    return out


def self_attr(expr: ast.AST, selfname: str = "self") -> Optional[str]:
    if isinstance(expr, ast.Attribute) and isinstance(expr.value, ast.Name) and expr.value.id == selfname:
        return expr.attr
    return None


def subst(expr: ast.AST, env: Dict[str, ast.AST]) -> ast.AST:
    """Substitute Names by expressions (deep copy)."""

    class T(ast.NodeTransformer):
        def visit_Name(self, n: ast.Name) -> ast.AST:
            if isinstance(n.ctx, ast.Load) and n.id in env:
                return copy.deepcopy(env[n.id])
            return n

    return T().visit(copy.deepcopy(expr))


# --------------------------------------------------------------------------------------------------------------
# Reporting context
# --------------------------------------------------------------------------------------------------------------
class Instance:
    __slots__ = ("rule", "construct", "key", "ok", "where", "message", "detail", "nontrivial")

    def __init__(self, rule: str, construct: str, key: str, ok: bool, where: str, message: str, detail: Any, nontrivial: bool):
        self.rule = rule
        self.construct = construct
        self.key = key
        self.ok = ok
        self.where = where
        self.message = message
        self.detail = detail
        self.nontrivial = nontrivial

    def as_json(self) -> Dict[str, Any]:
        return {
            "rule": self.rule,
            "construct": self.construct,
            "key": self.key,
            "ok": self.ok,
            "where": self.where,
            "message": self.message,
            "detail": self.detail,
        }


class RuleTimeout(BaseException):
    """a rule used up its time budget (not an Exception: no handler of the evaluator may swallow it)"""


class Ctx:
    """Collects rule instances for one property run."""

    def __init__(self, repo: Repo, prop: str, tier: str = "quick"):
        self.repo = repo
        self.prop = prop
        self.skipped_rules: List[Dict[str, str]] = []
        self.tier = tier
        self.instances: List[Instance] = []
        self.evaluations = 0  # folded rows, truth-table valuations, automaton states, paths ...
        self.samples: List[Any] = []
        self.assumptions: List[str] = []
        self.not_decided: List[str] = []
        self.rule_docs: Dict[str, str] = {}
        self.rule_min: Dict[str, int] = {}
        self.analysed: Dict[str, Any] = {}
        self.errors: List[str] = []
        self._cur_rule = ""
        self.t0 = time.time()

    # -- declaring rules
    def inl(self, fn: "FuncInfo", keep: Sequence[str] = ()) -> ast.FunctionDef:
        """fn's definition with the calls to private helpers expanded in place (see inline.py); `keep` names stay calls"""
        if getattr(self, "_inliner", None) is None:
            from .inline import Inliner

            self._inliner = Inliner(self.repo)
        return self._inliner.inlined(fn, keep)

    def attempt(self, rule_fn: Any, *args: Any) -> None:
        """run one rule; if it cannot be instantiated (AnalysisError) the others still run and what they found stands"""
        from . import fold as _fold

        _fold.PROCESS_STATE.clear()  # every rule evaluates in a fresh "process": module-level mutable objects start over
        import signal
        import threading

        budget = int(os.environ.get("SA_RULE_SECONDS", "900" if self.tier == "thorough" else "420"))
        armed = threading.current_thread() is threading.main_thread() and hasattr(signal, "SIGALRM")

        def _expired(_sig: Any, _frm: Any) -> None:
            signal.alarm(5)  # (should a handler on the way swallow it, it comes again)
            raise RuleTimeout()

        if armed:
            old_handler = signal.signal(signal.SIGALRM, _expired)
            signal.alarm(budget)
        try:
            rule_fn(*args)
        except AnalysisError as ex:
            self.errors.append("%s: %s" % (getattr(rule_fn, "__name__", "rule"), ex))
        except RuleTimeout:
            self.errors.append("%s: no result within %d s (an exploration that does not converge on this tree)" % (getattr(rule_fn, "__name__", "rule"), budget))
        finally:
            if armed:
                signal.alarm(0)
                signal.signal(signal.SIGALRM, old_handler)

    def skip_rule(self, rid: str, reason: str, covered_by: str) -> None:
        """a rule whose analysis cannot be instantiated on this tree while another rule of the property, which decides the same
        clauses extensionally, ran: recorded (evidence, stdout note), no verdict from it, its floor is not applied"""
        self.rule_min[rid] = 0
        self.skipped_rules.append({"rule": rid, "reason": reason, "covered_by": covered_by})
        self.undecided("rule %s could not be instantiated on this tree (%s); its clauses are decided by %s" % (rid, reason, covered_by))

    def rule(self, rid: str, doc: str, min_instances: int = 1) -> str:
        self.rule_docs[rid] = doc
        self.rule_min[rid] = min_instances
        self._cur_rule = rid
        return rid

    # -- recording
    def check(
        self,
        ok: bool,
        construct: str,
        key: str,
        message: str,
        where: str = "",
        detail: Any = None,
        rule: Optional[str] = None,
        nontrivial: bool = True,
    ) -> bool:
        rid = rule or self._cur_rule
        self.instances.append(Instance(rid, construct, " ".join(str(key).split()), bool(ok), where, message, detail, nontrivial))
        return bool(ok)

    def ok(self, construct: str, key: str, message: str = "", **kw: Any) -> None:
        self.check(True, construct, key, message, **kw)

    def fail(self, construct: str, key: str, message: str, **kw: Any) -> None:
        self.check(False, construct, key, message, **kw)

    def count(self, n: int = 1) -> None:
        self.evaluations += n

    def sample(self, s: Any, limit: int = 12) -> None:
        if len(self.samples) < limit:
            self.samples.append(s)

    def assume(self, text: str) -> None:
        if text not in self.assumptions:
            self.assumptions.append(text)

    def undecided(self, text: str) -> None:
        if text not in self.not_decided:
            self.not_decided.append(text)

    def error(self, text: str) -> None:
        self.errors.append(text)

    # -- convenient anchors (raise AnalysisError when missing)
    def func(self, short: str) -> FuncInfo:
        return self.repo.func(short)

    def cls(self, short: str) -> ClassInfo:
        return self.repo.cls(short)

    def finish_rule_floor(self) -> None:
        counts: Dict[str, int] = {}
        for i in self.instances:
            counts[i.rule] = counts.get(i.rule, 0) + 1
        for rid, m in self.rule_min.items():
            if counts.get(rid, 0) < m:
                self.errors.append(
                    "rule %s matched %d instance(s), below the hand-confirmed floor %d (a rule that matches nothing "
                    "passes vacuously)" % (rid, counts.get(rid, 0), m)
                )


def need(cond: Any, msg: str) -> None:
    if not cond:
        raise AnalysisError(msg)
