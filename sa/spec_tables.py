"""
Specification oracles (Cyphal Specification v1.0, chapter 3 "Data structure description language"), one line of
provenance each.  These are the values the extracted code facts are compared with.
"""
from __future__ import annotations

# 3.4.3 Primitive types: bit widths
PRIMITIVE_MIN_BITS = 1
PRIMITIVE_MAX_BITS = 64  # "uintX / intX, X in [1, 64]" ; signed needs at least 2 bits (two's complement with sign)
SIGNED_MIN_BITS = 2
FLOAT_BITS = {16, 32, 64}  # IEEE 754 binary16/32/64 only
VOID_MIN_BITS, VOID_MAX_BITS = 1, 64  # void1..void64

# 3.4.4 Array types: capacity is a positive integer; `[<n]` means capacity n-1
ARRAY_MIN_CAPACITY = 1

# 3.8 / 3.2: version numbers 0..255, 0.0 not allowed
MAX_VERSION = 255

# 3.2.2 / 5.1.1: port identifiers
MAX_SUBJECT_ID = 8191
MAX_SERVICE_ID = 511
# Table "Port identifier distribution": regulated ranges
REGULATED = {
    ("subject", "standard"): (7168, 8191),
    ("subject", "vendor"): (6144, 7167),
    ("service", "standard"): (384, 511),
    ("service", "vendor"): (256, 383),
}
STANDARD_ROOT_NAMESPACES = {"uavcan", "cyphal"}  # "uavcan" per the Specification; pydsdl also reserves "cyphal" for the rename

MAX_NAME_LENGTH = 255  # 3.2: full name length limit
UNION_MIN_VARIANTS = 2  # 3.4.5.2: a tagged union shall contain at least two variants

# 3.3.2 reserved identifiers (case-insensitive); strings and patterns (python `re` syntax, whole-name match)
RESERVED_WORDS = {
    "truncated", "saturated", "true", "false", "bool", "optional", "aligned", "const", "struct", "super", "template",
    "enum", "self", "and", "or", "not", "auto", "type", "con", "prn", "aux", "nul",
}
RESERVED_PATTERNS = [r"void\d*", r"u?int\d*", r"u?q\d+_\d+", r"float\d*", r"com\d", r"lpt\d", r"_.*_"]
NAME_FIRST = set("abcdefghijklmnopqrstuvwxyzABCDEFGHIJKLMNOPQRSTUVWXYZ_")
NAME_REST = NAME_FIRST | set("0123456789")

# implicit fields: smallest of 8/16/32/64 able to hold the value
STANDARD_WIDTHS = (8, 16, 32, 64)
DELIMITER_HEADER_BITS = 32


def smallest_standard_width(max_value: int) -> int:
    for w in STANDARD_WIDTHS:
        if max_value < 2**w:
            return w
    raise ValueError(max_value)
