"""Registry of the checks: one entry per property that has a rule module. tools/gen_manifest.py renders MANIFEST.json."""
from __future__ import annotations

from typing import Dict

CHECKS: Dict[str, Dict[str, str]] = {
    "C12": dict(
        technique="static analysis: path-condition extraction (ast) of Constant.__init__ decided on a complete finite "
        "abstract domain (7 type kinds x 6 value kinds x 5 range positions) + constant folding of the extracted "
        "inclusive_value_range expressions for every width",
        text="Static decision of the constant-compliance rules from the source: the acceptance predicate of "
        "Constant.__init__ is extracted as path conditions and compared with the Specification on every abstract state "
        "(the code touches values only through isinstance tests and comparisons against the two bounds, so the "
        "abstraction is exact); the range tables are folded for all 63+64 integer widths and the three float formats "
        "and compared exactly as Fractions. Exhaustive over the abstract domain, not a sample.",
        note="Trusted: fractions.Fraction arithmetic; the ast-level extractor (self-validated by must-fire/must-stay-silent "
        "variants in the thorough tier); `assert` statements are beliefs, not guards.",
        design="3/C12",
    ),
}

NOT_APPLICABLE: Dict[str, str] = {}
