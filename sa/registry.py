"""Registry of the checks: one entry per property that has a rule module. tools/gen_manifest.py renders MANIFEST.json."""
from __future__ import annotations

from typing import Dict

CHECKS: Dict[str, Dict[str, str]] = {
    "C12": dict(
        technique="static analysis: path-condition extraction (ast) of Constant.__init__ decided on a complete finite "
        "abstract domain (7 type kinds x 6 value kinds x 5 range positions) + constant folding of the extracted "
        "inclusive_value_range expressions for every width",
        text="Static decision of the constant-compliance rules from the source: the acceptance predicate of "
        "Constant.__init__ is extracted as path conditions and compared with the Specification on every abstract state "
        "(the code touches values only through isinstance tests and comparisons against the two bounds, so the "
        "abstraction is exact); the range tables are folded for all 63+64 integer widths and the three float formats "
        "and compared exactly as Fractions. Exhaustive over the abstract domain, not a sample.",
        note="Trusted: fractions.Fraction arithmetic; the ast-level extractor (self-validated by must-fire/must-stay-silent "
        "variants in the thorough tier); `assert` statements are beliefs, not guards.",
        design="3/C12",
    ),
    "C05": dict(
        technique="static analysis: guard extraction (ast path conditions, constructor flattening through super().__init__) "
        "decided as accepted regions / truth tables over finite boundary domains; reserved-name patterns compared by "
        "DFA language equivalence; exception-class resolution over the class hierarchy",
        text="Every static rule of DSDL is located at its rule site (constructors of the type model, check_name, the "
        "_check_aggregation overrides, directive handlers, _make_composite, finalize, the regulated port-ID tables, the "
        "array forms of the parser) and decided from the source: numeric guards as accepted regions that include both sides "
        "of every boundary, decision logic as truth tables over all consistent valuations of the extracted atoms, reserved "
        "names as regular-language equivalence with the Specification, and every rejection's class against "
        "InvalidDefinitionError. Exhaustive over each rule's abstract domain; does not decide that every construction "
        "path invokes the rule beyond the listed must-call obligations.",
        note="Trusted: the Specification tables in sa/spec_tables.py; composite alignment = 8 (decided by C02); the extractor "
        "itself (self-validated by 22 variants in the thorough tier).",
        design="3/C05",
    ),
}

NOT_APPLICABLE: Dict[str, str] = {}
