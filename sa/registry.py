"""Registry of the checks: one entry per property that has a rule module. tools/gen_manifest.py renders MANIFEST.json."""
from __future__ import annotations

from typing import Dict

CHECKS: Dict[str, Dict[str, str]] = {
    "C12": dict(
        technique="static analysis: Constant.__init__ and the inclusive_value_range definitions are abstractly evaluated from the parsed source (constructor chain flattened, helpers expanded) on a complete finite abstract domain (type kind x value kind incl. code-point classes x range position; all 63+64 integer widths and the three float formats) and compared with the Specification's acceptance table and range tables; single characters whose Unicode normal forms are ASCII among the value kinds",
        text="Static decision of the constant-compliance rules from the source: the acceptance predicate of "
        "Constant.__init__ is extracted as path conditions and compared with the Specification on every abstract state "
        "(the code touches values only through isinstance tests and comparisons against the two bounds, so the "
        "abstraction is exact); the range tables are folded for all 63+64 integer widths and the three float formats "
        "and compared exactly as Fractions. Exhaustive over the abstract domain, not a sample.",
        note="Trusted: fractions.Fraction arithmetic; the ast-level extractor (self-validated by must-fire/must-stay-silent "
        "variants in the thorough tier); `assert` statements are beliefs, not guards.",
        design="3/C12",
    ),
    "C05": dict(
        technique='static analysis: constructors of the type model abstractly evaluated over finite boundary domains (accepted regions on both sides of every boundary); decision tables of the directive handlers and of finalize via the builder driven through its public callbacks; reserved-name patterns compared by DFA language equivalence; exception-class resolution over the class hierarchy; the port-ID policy observed at the read of dependencies on the reader model; check_name on a grid of names when it is not written as the five guards the exact comparison reads',
        text="Every static rule of DSDL is located at its rule site (constructors of the type model, check_name, the "
        "_check_aggregation overrides, directive handlers, _make_composite, finalize, the regulated port-ID tables, the "
        "array forms of the parser) and decided from the source: numeric guards as accepted regions that include both sides "
        "of every boundary, decision logic as truth tables over all consistent valuations of the extracted atoms, reserved "
        "names as regular-language equivalence with the Specification, and every rejection's class against "
        "InvalidDefinitionError. Exhaustive over each rule's abstract domain; does not decide that every construction "
        "path invokes the rule beyond the listed must-call obligations.",
        note="Trusted: the Specification tables in sa/spec_tables.py; composite alignment = 8 (decided by C02); the extractor "
        "itself (self-validated by 22 variants in the thorough tier).",
        design="3/C05",
    ),
    "C11": dict(
        technique="static analysis: the two cross-definition checks are abstractly evaluated from the parsed source over abstract definitions for every consistent valuation of the accessor-comparison atoms (name, kind, majors, port-IDs incl. zero, extent, sealing, service halves); outcome (accept / which error class) compared with the Specification's formula; grouping and scopes observed on the same evaluation; lists of three definitions (all orders) for the collision check",
        text="The cross-definition checks touch definitions only through comparisons of a few accessors, so each decision is a "
        "function of finitely many atoms: the collision predicate (9 atoms, 280 consistent valuations) and the pairwise "
        "minor-version predicate (10 atoms, 640 valuations, including recursion into service halves and the error class) are "
        "extracted from the source and compared exhaustively with the Specification; the grouping (full name, then major, "
        "all distinct pairs) and the scopes (collisions over direct, compatibility over direct + transitive) are decided "
        "structurally.",
        note="Trusted: versions are non-negative integers (C05.R3); minors of a compared pair differ (grouping + one definition per "
        "version); the extractor (12 self-validation variants).",
        design="3/C11",
    ),
    "C02": dict(
        technique="static analysis: prefix / tag / header width expressions evaluated over every capacity and variant-count class; every bit_length_set definition and both aggregation helpers abstractly evaluated over operands of an abstract bit-length-set domain (canonical algebra terms with alignment facts, abstract branches explored both ways) and compared with the Specification's terms; typed scan (scoped by call-graph reachability from the constructors and layout queries) for de-duplication / look-up of length sets or types by their approximate equality",
        text="Implicit-field widths are folded from the extracted expressions for 189 capacities x 2 alignments and 95 variant "
        "counts x 2 alignments (both sides of every 2**8/2**16/2**32 boundary) and compared with 'smallest of 8/16/32/64'; "
        "alignment definitions are folded over the reachable alignment domain; every bit_length_set definition and both "
        "aggregation helpers are translated into algebra terms (pad/repeat/repeat_range/concatenate/unite) and must equal "
        "the Specification's term, which decides dropped or misplaced padding, tag, prefix and the field-independence of "
        "delimited types. Does not decide the arithmetic of the algebra itself (C01).",
        note="Trusted: the bit-length-set algebra implements its operators (C01); reachable alignments are {1, 8}; capacities < 2**64.",
        design="3/C02",
    ),
    "C16": dict(
        technique='static analysis: kind/type inference + over-approximate call graph; who-may-call and reachability rules for the numerical-expansion sinks; linear-form (interval/congruence) proof that enumeration counts inside modulo are bounded by the divisor (enumerations found through helper summaries); provenance analysis of every divisor handed to a residue query (constant / alignment / parameter traced to its call sites); types with capacities / extents of 2**40 constructed and queried by evaluation with lazy ranges that refuse to be enumerated',
        text="Decides the structural core of 'layout analysis stays symbolic': expansion sinks (Operator.expand overrides, "
        "BitLengthSet.__iter__/__len__, validate_numerically, any implicit iteration of a value of kind BitLengthSet) occur "
        "only in the allow-listed slow paths and the two DSDL intrinsics; no call-graph path leads from any model "
        "constructor, layout query, equality, hash, finalize or namespace check to a sink; analytic operator queries "
        "never reference expand; the enumeration counts in both repetition operators are proved <= 4*divisor for all "
        "k >= 0, d >= 1; aggregation is pairwise. Wall-clock itself is not measured.",
        note="Trusted: annotation-seeded inference (99.7% of call sites resolved; the rest fall back to by-name dispatch, an "
        "over-approximation that is sound for must-not-reach rules); positive control on every run (known expansion sites "
        "must be detected).",
        design="3/C16",
    ),
    "C18": dict(
        technique="static analysis: class-level lints over the resolved class hierarchy (state components read by __hash__ vs compared by __eq__, eq path shapes, stores/mutators outside __init__, accessor return provenance, attribute value kinds); equality / hash contract decided on instances built by the model's own constructors (types, attributes, bit length sets) evaluated from the source",
        text="For every class defining __eq__/__hash__ the components read by the hash are a subset of those compared by eq and "
        "both are overridden together; eq returns NotImplemented for foreign operands on every path; BitLengthSet.__eq__ is "
        "a conjunction of equalities of set-determined queries; no model class stores or mutates instance state outside "
        "__init__ (memo slots excepted); no public accessor returns a mutable container attribute by reference; no "
        "instance attribute holds an unpicklable value. Necessary conditions of the contract for all instances; the "
        "run-time pickling round trip is not decided.",
        note="Trusted: Python's default pickling of plain attribute dicts; memo slots are transparent (C01.R3).",
        design="3/C18",
    ),
    "C19": dict(
        technique='static analysis: the reading pipeline (namespace reader, reference resolver, DSDLDefinition.read / constructor, namespace lister, _complete_read_function) abstractly evaluated from the parsed source over an abstract world of definition files that record every read / text load / content access (including twins, several minors, equal port-IDs); observations compared with the dependency closure; typed who-may-read scan (file contents are accessed only inside the definition class, for its own file)',
        text="Decides that only targets and the single filter-selected dependency are ever evaluated: every call site of read "
        "and every load of .text is enumerated from the call graph and its receiver must be a loop variable over the "
        "target list (or its file-pool twin), found[0] of the name+version filter, or self inside read; elements of lookup "
        "lists are accessed only through path-derived metadata; the definition constructor and the namespace lister never "
        "open files; result sets and the cross-definition checks are fed only with results of reads; the user's print "
        "handler is invoked only by the @print directive handler.",
        note="Trusted: file names are inspected when a directory is listed (allowed by the property); call graph resolution as in C16.",
        design="3/C19",
    ),
    "C13": dict(
        technique='static analysis: interprocedural exception-flow over the resolved call graph (explicit raises, a fixed table of implicit partial operations, handler matching over the class hierarchy, model of the parsimonious visitor wrapper), value-kind inference for guarded constructors, regex-language inclusion for int()/Fraction() on grammar terminals; structural rule on recursion depth (operator queries recurse into operands, so no loop / fold over the fields may chain a composition onto its own previous result)',
        text="Computes, for read_namespace/read_files, every (exception class, origin) pair that can escape, following re-raise, "
        "translation and the visitor's VisitationError wrapping; anything that is not an InvalidDefinitionError (in particular "
        "everything that ends in an InternalError sink) must be discharged by a checked argument - typed-guard constructors by "
        "kind inference at every call site, int()/Fraction() on terminals by DFA inclusion, literal-table lookups by enum "
        "totality, indexing by dominating guards, abstract bodies by override completeness, service-type receivers by "
        "constructor guards - or is reported with its witness path. Four genuine defects found this way were repaired "
        "(see known_findings.json); termination and interpreter resource limits are assumptions, not decided.",
        note='Trusted: the implicit-operation table (int/Fraction/chr/next/encode/log2/operator.*/literal tables/indexing); ~400 asserts and grammar-arity unpackings are counted assumptions; OSError and path-argument handling are outside the property. Known finding F13 (C13.R4): a valid definition with more than about 200 fields ends in RecursionError; recorded in known_findings.json, not repaired.',
        design="3/C13",
    ),
    "C03": dict(
        technique="static analysis: document model - the parser's visitors evaluated in parsimonious' visiting order over abstract texts (all sequences of line shapes up to a bound, both endings, messages and services) into the repository's own builder, with composite / attribute constructors recorded; the builder driven through its public callbacks; identifier resolution (`_offset_`, constants by name) asked of one builder at every point of a growing two-section definition; grammar terminals compared as regular languages; decision tables of the directive handlers",
        text="Every sequence of line shapes (field, field with trailing comment, constant, padding, comment, empty line, line of blanks, directives) up to a bound, with both endings, as a message and as a service, is pushed through the repository's own parser visitors (evaluated in parsimonious' visiting order) into the repository's own builder; what the builder hands to the composite constructors is recorded and must contain every attribute once, in source order, in its section, with exactly the comment block that follows it (this found the last-attribute loss and the blank-line comment merge, both since repaired). Plus: append-only schema lists fed only by the deferred callbacks, directive decision tables, composite construction flows, identifier resolution against the current section (`_offset_`, constants), and the line-ending / blank terminals as regular languages. The canonical re-rendering round trip is not decided.",
        note="Trusted: parsimonious visits children before parents, left to right; statement kinds and their identifier/expression "
        "content are derived from the grammar file.",
        design="3/C03",
    ),
    "C07": dict(
        technique="static analysis: exception-flow over the call graph rooted at deserialize with semantic discharge of partial operations; validation guards taken as decision tables from abstract decoder runs over boundary domains; linear-form accounting of the bit offset and of the bounded reader's limit on every path (helpers expanded); provenance of the buffer the bit reader is built over (the caller's data, not a lengthened copy)",
        text="(1) Every (class, origin) that can escape deserialize is a SerDesError/ValueError (TypeError only from the explicit "
        "service-type guards); indexing, struct.unpack and bytes() sites are discharged by dominating bounds checks, format "
        "sizes and 8-bit element provenance. (2) The array-length, union-tag and both delimiter-header guards are extracted "
        "and folded over domains containing both sides of each boundary, must dominate the use, and nothing is clamped. "
        "(3) On every path of read_bits / write_bits the offset advances by exactly bit_length (recursive calls by induction, "
        "divmod relation), including the out-of-limit paths which return zeros; bounded_subreader advances the parent by "
        "its argument. (4) No module state. Value-level clauses (fixed point, zero-extension equality) are not decided.",
        note="Trusted: struct.calcsize for the three formats; recursion depth bounded by type nesting; memory for huge declared lengths.",
        design="3/C07",
    ),
    "C17": dict(
        technique="static analysis: handler-discipline lints, the C03 typestate automaton extended with line age, regular-language test of every grammar terminal for line breaks, dataflow on handler bindings; faults planted at every stage of a definition's read and in a statement's type",
        text="Decides: each Error handler on the propagation path stamps its own file/line and re-raises the same object and the "
        "setter fills unknown fields only (so the dependency's location wins); in the explored automaton every deferred "
        "attribute commit on a later line runs inside a handler that re-attributes errors to a line captured by exactly the "
        "queueing visitors; every grammar terminal that can match a line break is end_of_line or has a visitor advancing the "
        "counter by the breaks matched, and multi-line statements report their first line; the counter's writers; the "
        "assertion error's line/path; the print handler passed to X.read is bound to X's path (one known finding: on-demand "
        "dependency reads reuse the referrer's binding); @print delivers once per path.",
        note="Trusted: a definition is evaluated once (C09.R4); errors raised mid-statement are stamped with a line inside the statement.",
        design="3/C17",
    ),
    "C04": dict(
        technique="static analysis: PEG model of the grammar file -> precedence / associativity table and ordered-choice hazards; "
        "the expression visitors, operator functions (with their decorators evaluated from source) and value classes "
        "abstractly evaluated over symbolic operands that record which Python operator is applied to which operands in "
        "which order; value-dependent cases explored both ways; compared with the Specification's operator table",
        text="Decides the precedence clause for all expression trees at once: the nine binding levels, their token sets, left/right "
        "associativity (`**` right-associative with an inversion on its right, unary minus over an exponential) and the "
        "left fold are computed from the grammar layering and the chain visitor and compared with the Specification table; "
        "PEG ordered-choice hazards (a token that is a prefix of a later alternative, integer before real, array forms) are "
        "checked; each of 17 binary, 3 unary and the attribute operator is chased from its grammar literal to the Python "
        "operator / frozenset operation that implements it for rationals, booleans, strings and sets, including operand order "
        "and the swap discipline; every undefined combination ends in an InvalidOperandError; literal decoding is exact. "
        "Fraction arithmetic itself is trusted.",
        note="Trusted: fractions.Fraction, the operator module, frozenset algebra; parsimonious' PEG semantics.",
        design="3/C04",
    ),
    "C01": dict(
        technique='static analysis: purity / alias lint over the solver classes; the memoising operator and the BitLengthSet compositions constructed through their own constructors over stand-in operands with opaque token answers and interrogated (memo transparency, composition plumbing); query-dependency matrix; dataflow shape of every modulo() body (residue homomorphism); linear-form (interval + congruence) proof of the repetition-count reduction, the enumeration found through summaries of helper generators; analytic min / max evaluated on constructed operators over a grid; typed scan for containers / memos keyed by the approximate equality of a bit length set',
        text="Decides the structural necessary conditions of exactness, not the number theory itself: operators are immutable and "
        "nothing obtained from a child, a cache slot or an instance container is mutated or returned by reference (this is "
        "what makes 'operands are never changed' true); each memo slot holds exactly the child's answer to the same query; "
        "min/max/modulo/expand only consult the same query of the children; every child residue query uses the divisor or an "
        "lcm with it and every returned element is reduced modulo the divisor; the count reduction K = min(k, d + k mod d) is "
        "proved exact for all k >= 0, d >= 1 from the sumset-stabilisation condition (K == k, or K ≡ k mod d with d-1 <= K <= k); "
        "the public composition methods build the matching operator over the operands in order; _pad folds to ceil-to-multiple.",
        note="Not decided: that the per-operator residue formulas equal the mathematical definition for all trees and divisors "
        "(unbounded integers). Trusted: itertools, math.lcm, set arithmetic.",
        design="3/C01",
    ),
    "C09": dict(
        technique='static analysis: DataTypeBuilder.resolve_versioned_data_type and DSDLDefinition.read abstractly evaluated from the parsed source over abstract lookup definitions (match count x letter case x version), with recorded reads, arguments, builder constructions, file opens and cache behaviour; candidates that have already been read, both port-ID policy settings, letter case in every name component of relative and absolute references',
        text="Decides: the filter is (case-insensitive full name) and (exact version) over the lookup list; the outcome over "
        "{0, 1, >=2 matches} x exact-case is undefined-type / name-collision / collision / read-that-definition, each error an "
        "InvalidDefinitionError; relative names are completed with the referrer's namespace; read() removes itself by "
        "name+version equality from the lookup list and hands exactly that list to the builder, which forwards it, so the "
        "list strictly shrinks along any reference chain (cycles end in UndefinedDataTypeError, a ranking-function argument); "
        "the composite is cached once after finalize(), outside handlers, hits return it, one object per file. Equality of "
        "nested vs stand-alone types across orders is a value property and is not decided.",
        note="Trusted: finite lookup list; DSDLDefinition equality is by (full name, version).",
        design="3/C09",
    ),
    "C10": dict(
        technique="static analysis: order-taint dataflow (unordered kinds: sets, set comprehensions, rglob) with sorted()/file_sort as sanitisers; sign analysis of the sort key; the namespace lister, the reader loop and the root-directory validation abstractly evaluated over an abstract file system / abstract definitions / syntactic paths, for every order of the targets and every pair of directories; directory aliases (symbolic links) in the abstract file system; the caller's directory list observed across two reads",
        text="Decides: every unordered collection in the four reader modules is sorted before it is returned or drives an "
        "order-sensitive loop (interprocedural through arguments); the key is (name up, major down, minor down) with no reverse "
        "flag; read_namespace lists both suffixes recursively under exactly the root and returns only `.direct`; the reader "
        "loop's effect on (in direct, in transitive) for every (cached, level) state keeps the sets disjoint, promotes requested "
        "files, never demotes and files dependencies as transitive; directories are resolved before de-duplication and "
        "comparison; the nested/colliding-root predicate equals not SAMEFILE and ((not ALLOW and NAME_CI_EQ) or IS_RELATIVE) on "
        "all consistent valuations over all ordered pairs. Equality of read_files and read_namespace results is not decided.",
        note="Trusted: dict iteration is insertion-ordered; which of several simultaneous directory faults is reported first may "
        "depend on set order (documented exemption: the rejection itself does not).",
        design="3/C10",
    ),
    "C15": dict(
        technique="static analysis: DSDLDefinition's constructor abstractly evaluated over syntactic paths (component counts, numeric spellings); identity provenance observed by driving DataTypeBuilder through its public callbacks with the composite constructors recorded; bare-name root inference evaluated over syntactic paths for every order of the names; files outside the root directory and namespaces whose components repeat the root's name among the syntactic paths",
        text="Decides: 3 / 4 dot-separated components map to (name, major, minor) / (port, name, major, minor) and every other count "
        "is a FileNameFormatError; the namespace is the directory chain below and including the root; every numeric component "
        "is converted only behind an ASCII-digits guard inside a translating handler (the lax int() found here was repaired); "
        "name(+.Request/.Response), version, path and port-ID (None for the halves) flow unchanged from the definition into the "
        "composites, the delimited wrapper and the service object, and back out of the accessors; the root path is found by "
        "walking one directory per namespace component with a name check; the bare-name inference is independent of the "
        "order of the listed names. Equivalence of the four root-inference strategies over all spellings is not decided.",
        note="Trusted: pathlib semantics (resolve, relative_to, parts).",
        design="3/C15",
    ),
    "C06": dict(
        technique="static analysis: the codec (_serialize_any / _deserialize_any and their helpers) abstractly evaluated from the parsed source over abstract schemas with an abstract writer / reader that record ALIGN / BITS / HEADER / SUBREADER events; writer events compared with reader events (reader runs on data that is not exhausted) and with the Specification's layout; dispatch exhaustiveness over the class hierarchy; cast-mode actions evaluated over the whole width domain; defaults table; typed scan of the codec for memos / tables keyed by type equality",
        text="Decides the structural agreement of the independently written layout walkers - a necessary condition for the round "
        "trip and for 'the produced length is an element of bit_length_set': writer and reader traces are identical for "
        "structures, unions, both array kinds and every primitive kind; the writer's traces equal the layout model "
        "(per-field alignment then field, final alignment; tag, variant, alignment; prefix = element count, elements under "
        "the capacity guards; header = byte length of the serialized inner object followed by its bytes, at both copies; "
        "little-endian float formats of the declared width); the nine isinstance dispatchers cover every concrete type "
        "without shadowing; saturated = clamp and truncated = wrap are folded over boundary values; the defaults table and the "
        "use of defaults for omitted fields. Value round trip, IEEE-754 and bit-level patterns are NOT decided.",
        note="Trusted: struct.pack/unpack; LSB-first bit arithmetic of write_bits/read_bits (offset accounting is decided in C07.R3).",
        design="3/C06",
    ),
    "C08": dict(
        technique='static analysis: the offset iterators abstractly evaluated over abstract fields in the bit-length-set term domain; each yielded offset compared with the aggregation of the preceding fields; exactly-once-yield observation; the in-language intrinsics asked of one builder in every ordered pair of states; typed scan (scoped by call-graph reachability from the iterators and the intrinsic) for tables / memos keyed by the approximate equality of a length set or type',
        text="Decides: the four iterators (structure, union, delimited, fixed array) pad the base to the type's alignment and "
        "place each field / element exactly where the layout model and the encoder place it (the iterator's per-field step is "
        "the aggregation step of the layout model), with one unconditional yield per iteration; `_offset_` is the aggregate of "
        "exactly the fields declared so far, of the kind selected by the same union flag as the final type, without final "
        "padding; `_bit_length_` / `_extent_` are bit_length_set / extent; every _attribute override falls back to super(); a "
        "union rejects fields once its offset has been observed. Numerical equality of the sets is C01's (undecided) part.",
        note="Trusted: exactness of the bit-length-set algebra (C01); header is a multiple of the alignment (C02).",
        design="3/C08",
    ),
    "C14": dict(
        technique="static analysis: the container layout evaluated for two revisions of a nested delimited type (term domain); attribute-usage lint on containers; codec runs of the delimited writer / reader branches compared with stand-alone runs of the inner type; who-may-access rule on the reader's buffer contents; the delimiter-header guard's decision table for zero-extended and exactly fitting headers",
        text="Decides the three structural pillars of appendable types: (1) the delimited type's length set is a term over header "
        "width, alignment and declared extent only (the inner type is consulted only in the guard) and containers ask a nested "
        "type only for its length set and alignment - so a same-extent revision cannot change a container's set, extent or "
        "following offsets; (2) the writer announces the byte length of the serialized inner object and the reader confines "
        "the nested object to 8 x header bits, at the nested and the top-level copies; (3) the inner object is decoded from "
        "the bounded sub-reader and the branch ends there; plus: the reader's buffer is accessed only where the limit is "
        "enforced and the decoder uses only the limit-aware reader interface. Value preservation across revisions is not decided.",
        note="Trusted: offset accounting and limit agreement of _BitReader (C07.R3/R5); composite alignment = 8 (C02.R4).",
        design="3/C14",
    ),
}

# Rules added after the entries above were written (DESIGN.md 11.7): appended to the technique / text of each property.
_LATER: Dict[str, Dict[str, str]] = {
    "C01": dict(technique="operand immutability decided by evaluation on a grid of compositions of named sets, asked before and after (C01.R11)",
                text="C01.R11 decides the last clause (operands are never changed) on a bounded grid of 63 composition pairs, memos warm and cold."),
    "C02": dict(technique="concrete nested types built by evaluation of the real constructors over the real length-set algebra and compared with an independent reference, in several query orders (C02.R8)",
                text="C02.R8 compares the layout of 12 concrete nested types with an independently written reference on three passes (bounded grid)."),
    "C04": dict(technique="identifier resolution evaluated on a builder whose constants hold real instances of the expression classes, falsy ones included (C04.R7)",
                text="C04.R7: identifiers evaluate to the constant of that name whatever its value; unknown ones are rejected."),
    "C06": dict(technique="serialize / deserialize with the real bit writer and reader evaluated from the source on concrete nested types and values and compared byte for byte with an independently written encoder / decoder of the Specification's wire format (C06.R7, rules/concrete.py)",
                text="C06.R7 decides the wire encoding and the round trip on a bounded grid of 19 (type, value) pairs, two passes; the unbounded statement stays undecided."),
    "C07": dict(technique="deserialize evaluated from the source in one process on a grid of byte strings (prefixes of valid representations, junk / zero suffixes, bit flips, 0xFF runs, pseudo-random strings) and compared with an independently written decoder including the three rejections (C07.R6)",
                text="C07.R6 decides totality, zero extension, truncation and the rejections on about 800 byte strings (quick) / all prefixes and bit flips (thorough)."),
    "C08": dict(technique="offset iterators of concrete structures / unions / delimited types / fixed arrays evaluated for aligned, unaligned and multi-valued bases, repeatedly and after caller-side mutation of everything the public accessors return (C08.R6)",
                text="C08.R6 compares concrete offsets with an independent reference on a bounded grid, across calls."),
    "C09": dict(technique="the lookup list constructed from directories over an abstract file system, with instances compared and hashed by their class's own __eq__ / __hash__, handed to the resolver (C09.R5)",
                text="C09.R5: two files that spell one name and version both reach the lookup list and a reference to them is a collision."),
    "C10": dict(technique="requested files -> one definition per file (C10.R7); normalize_paths_argument_to_list on every argument shape incl. one-shot iterators (C10.R8); no memoised function reaches the working directory / file system / environment / clock (C10.R9, call graph)",
                text="C10.R7-R9 decide the construction of the target list, the normalisation of path arguments and the absence of ambient-state memos."),
    "C13": dict(technique="the entry points' common tail evaluated with assert statements evaluated over directories whose file names coincide (C13.R5); provenance of every raised exception object - none comes from a memo, table or attribute (C13.R6)",
                text="C13.R5 decides the file-name clause for coinciding names; C13.R6 that error locations cannot be inherited from an earlier raise."),
    "C14": dict(technique="two revisions of an appendable type built concretely, nested in four kinds of container, serialized with one and deserialized with the other by evaluation of the real codec, compared with an independent reference (C14.R7)",
                text="C14.R7 decides value preservation across revisions on a bounded grid (both directions, layout equality of the containers included)."),
    "C15": dict(technique="no memoised function of the package reaches Path.resolve / exists / cwd / the environment (C15.R5, call graph)",
                text="C15.R5: a relative or bare root designation is resolved at the time of the call."),
    "C16": dict(technique="zero-length-element arrays of capacity 2**40 among the huge-parameter subjects (C16.R7)", text=""),
    "C19": dict(technique="read_namespace / read_files evaluated end to end over an abstract file system with only the per-file read stubbed by the documented protocol; outcome compared with every file outside the closure broken (C19.R6)",
                text="C19.R6 decides which files the entry points read - exactly the targets and their closure - on four entry-point calls."),
}
# Rules built on the concrete front-end world (DESIGN.md 11.13): texts read end to end by the evaluated front end.
_TEXT: Dict[str, Dict[str, str]] = {
    "C02": dict(technique="definitions of small and of huge types read end to end and compared with a layout reference written from the Specification: exact length sets, alignment, extent (C02.R9); bounds beyond 2**53 / 2**64 computed exactly (C02.R10)",
                text="C02.R9/R10 decide the layout from the text to the model on a corpus of 10 small and 8 huge nested types (bounded)."),
    "C08": dict(technique="assertions `_offset_ == <the reference's set>` after every field / the last variant, and `T._bit_length_` / `T._extent_` against the reference, read end to end (C08.R7)",
                text="C08.R7 decides the intrinsics on the corpus of C02.R9 (bounded)."),
    "C10": dict(technique="directory trees read end to end: one composite per file, order, read_files vs read_namespace, spellings of the directory arguments (C10.R10); which directory sets are rejected, also after another call in the same process (C10.R11)",
                text="C10.R10/R11 decide completeness, order and the directory-set clause on bounded trees, with process histories."),
    "C11": dict(technique="37 conforming and violating sets of definitions for every clause of the port-ID and minor-version rules read end to end, and 12 histories in which a set of the same names was read before (memoisation evaluated as functools.lru_cache implements it) (C11.R5)",
                text="C11.R5 decides acceptance of conforming and rejection of violating sets end to end (bounded)."),
    "C16": dict(technique="definitions with capacities up to 2**63 - 1 read end to end by an evaluator that refuses to walk more than 100000 elements: no enumeration that follows a capacity (C16.R8)",
                text="C16.R8 decides the cost clause extensionally on 8 huge types."),
    "C03": dict(technique="definition texts generated from descriptions, parsed by the checker's PEG matcher over the repository's grammar file and pushed through the repository's visitors / builder / type model by evaluation of the source: mirror of the description (C03.R9), equality of the model under formatting mutations derived from the parse tree (C03.R10), canonical re-rendering read again (C03.R11)",
                text="C03.R9-R11 decide the mirror, formatting-invariance and round-trip clauses on a generated corpus of 12 definitions (bounded)."),
    "C04": dict(technique="1056 defined and 734 undefined / malformed expression texts evaluated end to end as @print operands and compared with an independent exact reference evaluator built from the Specification's operator table (C04.R8); one expression in every syntactic context (C04.R9)",
                text="C04.R8/R9 decide literal decoding, precedence, associativity, operator semantics and rejections on the generated corpus (bounded)."),
    "C05": dict(technique="a verdict table of 533 small definitions on both sides of every static rule, read end to end by the evaluated front end (C05.R11)",
                text="C05.R11 decides acceptance as a whole - that every construction path reaches the rule - on the table (bounded)."),
    "C06": dict(technique="relaxed input forms at every nesting depth serialized by evaluation of the source and compared with the bytes of the explicit form (C06.R8)",
                text="C06.R8 decides the relaxed-form clause on a bounded grid."),
    "C09": dict(technique="namespaces of definitions that refer to one another read end to end: every reference against the name it spells, the nested type against the type read alone, unresolvable references rejected (C09.R6)",
                text="C09.R6 decides resolution end to end on a bounded set of reference graphs."),
    "C12": dict(technique="constant statements as texts on a grid of types and initializers (both sides of every bound, values a hair above a bound as long real literals, wrong kinds) against the Specification's compliance rule (C12.R6); constants of types that cannot carry one (C12.R7)",
                text="C12.R6/R7 decide acceptance and the stored value from the text to the model on the grid (bounded)."),
    "C13": dict(technique="garbled texts from a fixed pseudo-random sequence and a pool of odd tokens read end to end: model or InvalidDefinitionError naming the file (C13.R7); values beyond CPython's 4300-digit conversion limit wherever an expression can stand (C13.R8)",
                text="C13.R7/R8 decide the no-crash clause on about 500 (quick) / 1400 (thorough) garbled texts and 68 huge-value texts; F18 was found and repaired this way."),
    "C14": dict(technique="a second family of revisions whose payload holds alignment gaps (C14.R7)", text=""),
    "C15": dict(technique="a directory tree and 29 malformed file names read end to end (C15.R7); read_files over one file designated ten ways (C15.R8)",
                text="C15.R7/R8 decide the identity clause end to end on a bounded tree; F16 and F17 were found and repaired this way."),
    "C17": dict(technique="faulty definitions whose fault line is known by construction (14 faults x 8 preambles x 3 postambles, LF / CRLF, target / dependency / dependency of a dependency) read end to end (C17.R9); @print delivery with ordinary, falsy and absent handlers (C17.R10)",
                text="C17.R9/R10 decide path, line and delivery on the grid (bounded)."),
    "C18": dict(technique="a service type named like a message type among the constructed instances of C18.R7", text=""),
    "C19": dict(technique="directory trees read end to end with everything outside the targets' closure spoiled three ways, also after earlier failed / successful calls in the same process (C19.R7)",
                text="C19.R7 decides independence from definitions outside the closure, including process history, on a bounded set of trees."),
}
for _k, _v in _TEXT.items():
    CHECKS[_k]["technique"] += "; " + _v["technique"]
    if _v["text"]:
        CHECKS[_k]["text"] += " " + _v["text"]

for _k, _v in _LATER.items():
    CHECKS[_k]["technique"] += "; " + _v["technique"]
    if _v["text"]:
        CHECKS[_k]["text"] += " " + _v["text"]

NOT_APPLICABLE: Dict[str, str] = {}
