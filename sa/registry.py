"""Registry of the checks: one entry per property that has a rule module. tools/gen_manifest.py renders MANIFEST.json."""
from __future__ import annotations

from typing import Dict

CHECKS: Dict[str, Dict[str, str]] = {
    "C12": dict(
        technique="static analysis: path-condition extraction (ast) of Constant.__init__ decided on a complete finite "
        "abstract domain (7 type kinds x 6 value kinds x 5 range positions) + constant folding of the extracted "
        "inclusive_value_range expressions for every width",
        text="Static decision of the constant-compliance rules from the source: the acceptance predicate of "
        "Constant.__init__ is extracted as path conditions and compared with the Specification on every abstract state "
        "(the code touches values only through isinstance tests and comparisons against the two bounds, so the "
        "abstraction is exact); the range tables are folded for all 63+64 integer widths and the three float formats "
        "and compared exactly as Fractions. Exhaustive over the abstract domain, not a sample.",
        note="Trusted: fractions.Fraction arithmetic; the ast-level extractor (self-validated by must-fire/must-stay-silent "
        "variants in the thorough tier); `assert` statements are beliefs, not guards.",
        design="3/C12",
    ),
    "C05": dict(
        technique="static analysis: guard extraction (ast path conditions, constructor flattening through super().__init__) "
        "decided as accepted regions / truth tables over finite boundary domains; reserved-name patterns compared by "
        "DFA language equivalence; exception-class resolution over the class hierarchy",
        text="Every static rule of DSDL is located at its rule site (constructors of the type model, check_name, the "
        "_check_aggregation overrides, directive handlers, _make_composite, finalize, the regulated port-ID tables, the "
        "array forms of the parser) and decided from the source: numeric guards as accepted regions that include both sides "
        "of every boundary, decision logic as truth tables over all consistent valuations of the extracted atoms, reserved "
        "names as regular-language equivalence with the Specification, and every rejection's class against "
        "InvalidDefinitionError. Exhaustive over each rule's abstract domain; does not decide that every construction "
        "path invokes the rule beyond the listed must-call obligations.",
        note="Trusted: the Specification tables in sa/spec_tables.py; composite alignment = 8 (decided by C02); the extractor "
        "itself (self-validated by 22 variants in the thorough tier).",
        design="3/C05",
    ),
    "C11": dict(
        technique="static analysis: path-condition extraction of the two cross-definition checks into propositional formulas "
        "over accessor-comparison atoms, compared with the Specification on all consistent valuations; structural "
        "extraction of the grouping loops and of the check scopes",
        text="The cross-definition checks touch definitions only through comparisons of a few accessors, so each decision is a "
        "function of finitely many atoms: the collision predicate (9 atoms, 280 consistent valuations) and the pairwise "
        "minor-version predicate (10 atoms, 640 valuations, including recursion into service halves and the error class) are "
        "extracted from the source and compared exhaustively with the Specification; the grouping (full name, then major, "
        "all distinct pairs) and the scopes (collisions over direct, compatibility over direct + transitive) are decided "
        "structurally.",
        note="Trusted: versions are non-negative integers (C05.R3); minors of a compared pair differ (grouping + one definition per "
        "version); the extractor (12 self-validation variants).",
        design="3/C11",
    ),
    "C02": dict(
        technique="static analysis: dataflow extraction + constant folding of the prefix / tag / header width expressions over "
        "every capacity and variant-count class; layout definitions translated to terms of the bit-length-set algebra and "
        "compared with the Specification's terms",
        text="Implicit-field widths are folded from the extracted expressions for 189 capacities x 2 alignments and 95 variant "
        "counts x 2 alignments (both sides of every 2**8/2**16/2**32 boundary) and compared with 'smallest of 8/16/32/64'; "
        "alignment definitions are folded over the reachable alignment domain; every bit_length_set definition and both "
        "aggregation helpers are translated into algebra terms (pad/repeat/repeat_range/concatenate/unite) and must equal "
        "the Specification's term, which decides dropped or misplaced padding, tag, prefix and the field-independence of "
        "delimited types. Does not decide the arithmetic of the algebra itself (C01).",
        note="Trusted: the bit-length-set algebra implements its operators (C01); reachable alignments are {1, 8}; capacities < 2**64.",
        design="3/C02",
    ),
}

NOT_APPLICABLE: Dict[str, str] = {}
