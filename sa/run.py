"""
Runner: ./check <PROPERTY> [--tier quick|thorough] [--repo DIR] [--explain RULE] [--replay FILE]

Exit codes: 0 = every rule instance discharged (KNOWN-FINDING lines may be printed);
            1 = `VIOLATION property=<id> replay=<path>` for a failing instance that is not a listed finding;
            2 = `ANALYSIS-ERROR` (anchor missing, unsupported shape, instance floor not met, checker exception).
"""
from __future__ import annotations

import argparse
import importlib
import json
import os
import sys
import time
import traceback
from pathlib import Path
from typing import Any, Dict, List

from .core import AnalysisError, Ctx, Repo

VERIF = Path(__file__).resolve().parent.parent
PROPS = ["C%02d" % i for i in range(1, 20)]


def load_known() -> Dict[str, Any]:
    p = VERIF / "known_findings.json"
    if not p.exists():
        return {"findings": [], "fixed": []}
    return json.loads(p.read_text())


def match_known(inst: Any, prop: str, known: Dict[str, Any]) -> Any:
    for f in known.get("findings", []):
        if f.get("property") == prop and f.get("rule") == inst.rule and f.get("construct") == inst.construct:
            k = f.get("key")
            if k is None or " ".join(k.split()) == inst.key:
                return f
    return None


def run_property(prop: str, repo_root: str, tier: str, explain: str = "", quiet: bool = False) -> Dict[str, Any]:
    """Runs the rules of one property on one tree. Returns a result dict (no printing, no files)."""
    t0 = time.time()
    res: Dict[str, Any] = {"property": prop, "status": "ok", "violations": [], "known": [], "errors": [], "ctx": None}
    try:
        repo = Repo(repo_root)
        ctx = Ctx(repo, prop, tier)
        mod = importlib.import_module("sa.rules.%s" % prop.lower())
        mod.run(ctx)
        ctx.finish_rule_floor()
        res["ctx"] = ctx
        known = load_known()
        for inst in ctx.instances:
            if inst.ok:
                continue
            k = match_known(inst, prop, known)
            if k is not None:
                res["known"].append((inst, k))
            else:
                res["violations"].append(inst)
        res["errors"] = list(ctx.errors)
    except AnalysisError as ex:
        res["errors"].append("%s" % ex)
    except Exception as ex:  # checker bug: never a verdict
        res["errors"].append("internal checker exception: %r\n%s" % (ex, traceback.format_exc()))
    # a violation found by a rule that completed stands even if another rule could not be instantiated
    if res["violations"]:
        res["status"] = "violation"
    elif res["errors"]:
        res["status"] = "error"
    res["wall_s"] = time.time() - t0
    return res


def write_evidence(prop: str, tier: str, res: Dict[str, Any], extra: Dict[str, Any]) -> Path:
    ev_dir = VERIF / "evidence"
    ev_dir.mkdir(exist_ok=True)
    ctx: Ctx = res["ctx"]
    seed = int(os.environ.get("VERIF_SEED", "0") or 0)
    cov: Dict[str, Any] = {}
    if ctx is not None:
        insts = ctx.instances
        per_rule: Dict[str, Dict[str, int]] = {}
        for i in insts:
            d = per_rule.setdefault(i.rule, {"instances": 0, "discharged": 0})
            d["instances"] += 1
            d["discharged"] += 1 if i.ok else 0
        distinct = {(i.rule, i.construct, i.key) for i in insts if i.nontrivial}
        cov = {
            "explanation": "Static rules decided on the current sources of the repository (ast-level; nothing is "
            "imported or executed). Rules: "
            + " | ".join("%s: %s" % (r, d) for r, d in ctx.rule_docs.items()),
            "obligations": len(insts),
            "discharged": sum(1 for i in insts if i.ok),
            "evaluations": len(insts) + ctx.evaluations,
            "distinct_nontrivial": len(distinct),
            "rule": "one evaluation = one rule instance (a construct of the repository the rule was instantiated on) or "
            "one row of a folded table / truth-table valuation / automaton state / path explored while deciding it; "
            "an instance is non-trivial if deciding it needed more than the existence of the anchor; distinct by "
            "(rule, construct, normalised key)",
            "samples": ctx.samples[:12] or [i.as_json() for i in insts[:5]],
            "per_rule": per_rule,
            "analysed": ctx.analysed,
            "not_decided": ctx.not_decided,
            "known_findings_printed": [
                {"rule": i.rule, "construct": i.construct, "key": i.key, "what": k.get("what")} for i, k in res["known"]
            ],
            "repo_digest": ctx.repo.digest(),
            "exhaustive": False,
        }
    else:
        cov = {"explanation": "analysis did not complete: " + "; ".join(res["errors"])[:2000], "obligations": 0, "discharged": 0}
    cov.update(extra)
    ev = {
        "property_id": prop,
        "tier": tier,
        "seed": seed,
        "level": "other",
        "coverage": cov,
        "assumptions": (ctx.assumptions if ctx is not None else []),
        "wall_s": round(res["wall_s"] + extra.get("selftest_wall_s", 0.0), 3),
        "violations": len(res["violations"]),
        "status": res["status"],
        "errors": res["errors"],
    }
    p = ev_dir / ("%s.json" % prop)
    p.write_text(json.dumps(ev, indent=1, default=str) + "\n")
    return p


def write_replay(prop: str, res: Dict[str, Any], repo_root: str) -> Path:
    d = VERIF / "evidence" / "replay"
    d.mkdir(parents=True, exist_ok=True)
    p = d / ("%s.json" % prop)
    p.write_text(
        json.dumps(
            {
                "property": prop,
                "repo": repo_root,
                "violations": [i.as_json() for i in res["violations"]],
                "how_to_replay": "./check %s --explain <rule>" % prop,
            },
            indent=1,
            default=str,
        )
        + "\n"
    )
    return p


def main(argv: List[str]) -> int:
    ap = argparse.ArgumentParser(prog="check")
    ap.add_argument("prop")
    ap.add_argument("--tier", default=os.environ.get("VERIF_TIER", "quick"), choices=["quick", "thorough"])
    ap.add_argument("--repo", default=os.environ.get("VERIF_REPO", "/repo"))
    ap.add_argument("--explain", default="")
    ap.add_argument("--replay", default="")
    ap.add_argument("--no-evidence", action="store_true")
    a = ap.parse_args(argv)
    prop = a.prop.upper()
    if prop not in PROPS:
        print("ANALYSIS-ERROR unknown property %s" % prop)
        return 2
    if a.replay:
        try:
            rp = json.loads(Path(a.replay).read_text())
            rules = sorted({v["rule"] for v in rp.get("violations", [])})
            a.explain = ",".join(rules)
        except Exception as ex:
            print("ANALYSIS-ERROR cannot read replay file: %r" % ex)
            return 2

    res = run_property(prop, a.repo, a.tier)
    extra: Dict[str, Any] = {}
    selftest_errors: List[str] = []
    if a.tier == "thorough" and res["status"] != "error":
        try:
            from .selftest import runner as st

            extra, selftest_errors = st.run_for_property(prop, a.repo)
        except Exception as ex:
            selftest_errors = ["selftest crashed: %r\n%s" % (ex, traceback.format_exc())]
    if selftest_errors:
        res["errors"].extend(selftest_errors)
        res["status"] = "error"

    ctx: Ctx = res["ctx"]
    if a.explain and ctx is not None:
        want = set(a.explain.split(","))
        for i in ctx.instances:
            if i.rule in want or "all" in want:
                print("%s %s %s :: %s :: %s%s" % ("ok  " if i.ok else "FAIL", i.rule, i.construct, i.key, i.message, (" :: " + json.dumps(i.detail, default=str)) if i.detail is not None else ""))

    if not a.no_evidence:
        write_evidence(prop, a.tier, res, extra)

    for inst, k in res["known"]:
        print("KNOWN-FINDING: property=%s %s [%s %s] %s" % (prop, k.get("what", inst.message), inst.rule, inst.construct, inst.where))
    if res["status"] == "error":
        for e in res["errors"]:
            print("ANALYSIS-ERROR property=%s %s" % (prop, e))
        return 2
    if res["violations"]:
        rp = write_replay(prop, res, a.repo)
        for e in res["errors"]:
            print("  note: a rule could not be instantiated on this tree (%s)" % e[:300])
        for i in res["violations"]:
            print("  %s rule=%s construct=%s :: %s :: %s" % (i.where, i.rule, i.construct, i.key, i.message))
        print("VIOLATION property=%s replay=%s" % (prop, rp))
        return 1
    n_rules = len(ctx.rule_docs) if ctx else 0
    print(
        "OK property=%s rules=%d instances=%d evaluations=%d wall=%.2fs%s"
        % (prop, n_rules, len(ctx.instances), len(ctx.instances) + ctx.evaluations, res["wall_s"], (" selftest=%s" % extra.get("selftest_summary")) if extra else "")
    )
    return 0


if __name__ == "__main__":
    sys.exit(main(sys.argv[1:]))
